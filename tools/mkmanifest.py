#!/usr/bin/env python3
"""Generate /verif/MANIFEST.json from registry.py."""
import json, os, sys
ROOT = os.path.dirname(os.path.dirname(os.path.abspath(__file__)))
sys.path.insert(0, ROOT)
from registry import PROPS
try:
    from registry import NOT_APPLICABLE
except ImportError:
    NOT_APPLICABLE = {}
all_ids = [json.loads(l)["id"] for l in open(os.path.join(ROOT, "properties.jsonl"))]
checks = []
for pid in all_ids:
    if pid not in PROPS:
        continue
    c = PROPS[pid]
    checks.append({
        "property_id": pid,
        "quick_cmd": "./check %s --tier quick" % pid,
        "thorough_cmd": "./check %s --tier thorough" % pid,
        "evidence_file": "/verif/evidence/%s.json" % pid,
        "replay_cmd_template": "./check %s --replay {path}" % pid,
        "engine": "lean-proof+correspondence",
        "level_claimed": {"category": "proof", "text": c["level_text"], "design_ref": c.get("design_ref", "DESIGN.md §5")},
        "level_note": c["level_note"],
        "technique": c["technique"],
    })
na = []
for pid in all_ids:
    if pid not in PROPS:
        na.append({"property_id": pid, "reason": NOT_APPLICABLE.get(pid, "not yet claimed: the model, theorems and correspondence stream for this property are not built yet (work in progress, see DESIGN.md §11)")})
manifest = {
    "version": 1,
    "setup_cmd": "./check setup",
    "hooks": {
        "guard": "verif",
        "enable": "go build -tags verif (the harness module replaces github.com/bufbuild/connect-go with /repo)",
        "baseline_off_cmd": "cd /repo && GOFLAGS=-mod=mod go test -vet=off -count=1 -timeout 25m ./...",
        "source_commits": json.load(open(os.path.join(ROOT, "tools", "hook_commits.json"))),
        "add_only": True,
    },
    "engines": [{
        "name": "lean-proof+correspondence", "path": "/verif/check",
        "serves_properties": [c["property_id"] for c in checks],
        "kind_free_text": "Lean 4 theorems over an executable model (lean/), tied to /repo by a go/ast table extractor (tools/extract) and a differential correspondence harness (harness/ + lean/Driver)",
    }],
    "checks": checks,
    "not_applicable": na,
    "notes": "Every check: regenerate tables from /repo, lake build the property's theorems, audit axioms, build the harness from /repo's working tree with -tags verif, run correspondence streams + property oracle, write evidence. known_findings.txt lists recorded defects and fixed: lines.",
}
json.dump(manifest, open(os.path.join(ROOT, "MANIFEST.json"), "w"), indent=1)
print("wrote MANIFEST.json with", len(checks), "checks,", len(na), "not_applicable")
