#!/usr/bin/env python3
"""tools/mkcorpus.py — harvest the operations on which seeded (or real) defects showed from
replays/*.json into corpus/<stream>.txt (deduplicated, at most 400 per stream, short ones first).
The corpus is committed; `check` hands it to the harness, which runs it before generating."""
import json, glob, os, collections
ROOT = os.path.dirname(os.path.dirname(os.path.abspath(__file__)))
PREFIX = {
    "proto": ("serve ", "cdec "), "req": ("hreq ",), "seg": ("env.",), "cut": ("env.",), "limit": ("env.",), "roundtrip": ("env.",),
    "cancel": ("cflow ", "cwatch ", "cwrite "), "timeout": ("gtmo.", "ctmo.serve "), "life": ("rseq ", "sseq "),
    "codec": ("code.", "pct.", "b64.", "http."), "disp": ("disp ", "path ", "cpath "), "neg": ("neg ", "cmin "),
    "icpt": ("icpt ",), "panic": ("recover ",),
}
ops = collections.defaultdict(set)
for f in glob.glob(os.path.join(ROOT, "replays", "*.json")):
    try:
        r = json.load(open(f))
    except Exception:
        continue
    cands = []
    if r.get("op") and r.get("stream"):
        cands.append((r["stream"], r["op"]))
    for m in r.get("mismatches") or []:
        if m.get("op") and m.get("stream"):
            cands.append((m["stream"], m["op"]))
    for stream, op in cands:
        if len(op) < 4000 and any(op.startswith(p) for p in PREFIX.get(stream, ())):
            ops[stream].add(op)
os.makedirs(os.path.join(ROOT, "corpus"), exist_ok=True)
for stream in PREFIX:
    path = os.path.join(ROOT, "corpus", stream + ".txt")
    old = set()
    if os.path.exists(path):
        old = {l.rstrip("\n") for l in open(path) if l.strip() and not l.startswith("#")}
    allops = sorted(old | ops.get(stream, set()), key=lambda s: (len(s), s))[:400]
    if not allops:
        continue
    with open(path, "w") as fh:
        fh.write("# operations on which earlier defects (seeded changes, findings) showed; run first by every check of a property using stream %s\n" % stream)
        for op in allops:
            fh.write(op + "\n")
    print(stream, len(allops))
