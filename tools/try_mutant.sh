#!/bin/bash
# usage: tools/try_mutant.sh <patch.diff> <property-id>...   (applies to /repo, runs checks, undoes)
set -u
patch=$1; shift
cd /repo || exit 2
if ! git diff --quiet; then echo "/repo dirty"; exit 2; fi
git apply "$patch" || { echo "patch does not apply"; exit 2; }
for id in "$@"; do
  out=$(cd /verif && timeout 1500 ./check "$id" 2>&1); rc=$?
  echo "== $id rc=$rc"; echo "$out" | grep -E 'VIOLATION|oracle:|broken:|KNOWN|OK property|machinery' | cut -c1-400
done
git checkout -- . && git clean -fdq
