// Command extract re-reads connect-go's source (go/parser only, no type
// checking) and regenerates the Lean fact tables the model is defined over:
// constants, flag bits, header names, switch tables (code<->text, code<->HTTP
// status, HTTP->code x2, RST names), the gRPC timeout units, the generator's
// keyword table.  Usage: extract <repo-dir> <out.lean>
//
// If a fact cannot be found syntactically the program exits 3 and names it;
// the check then falls back to the exhaustive "tables" correspondence stream.
package main

import (
	"fmt"
	"go/ast"
	"go/parser"
	"go/token"
	"os"
	"path/filepath"
	"sort"
	"strconv"
	"strings"
)

type pkgInfo struct {
	files  map[string]*ast.File
	consts map[string]ast.Expr // package-level const name -> value expr
	funcs  map[string]*ast.FuncDecl
	vars   map[string]ast.Expr
}

var missing []string

func miss(what string) { missing = append(missing, what) }

func load(dir string) *pkgInfo {
	fset := token.NewFileSet()
	info := &pkgInfo{files: map[string]*ast.File{}, consts: map[string]ast.Expr{}, funcs: map[string]*ast.FuncDecl{}, vars: map[string]ast.Expr{}}
	matches, _ := filepath.Glob(filepath.Join(dir, "*.go"))
	for _, path := range matches {
		if strings.HasSuffix(path, "_test.go") || strings.HasPrefix(filepath.Base(path), "verif_") {
			continue
		}
		f, err := parser.ParseFile(fset, path, nil, 0)
		if err != nil {
			fmt.Fprintln(os.Stderr, "parse:", err)
			os.Exit(2)
		}
		info.files[filepath.Base(path)] = f
		for _, decl := range f.Decls {
			switch d := decl.(type) {
			case *ast.FuncDecl:
				name := d.Name.Name
				if d.Recv != nil && len(d.Recv.List) == 1 {
					name = recvName(d.Recv.List[0].Type) + "." + name
				}
				info.funcs[name] = d
			case *ast.GenDecl:
				for _, spec := range d.Specs {
					vs, ok := spec.(*ast.ValueSpec)
					if !ok {
						continue
					}
					for i, n := range vs.Names {
						if i < len(vs.Values) {
							if d.Tok == token.CONST {
								info.consts[n.Name] = vs.Values[i]
							} else {
								info.vars[n.Name] = vs.Values[i]
							}
						}
					}
				}
			}
		}
	}
	return info
}

func recvName(e ast.Expr) string {
	switch t := e.(type) {
	case *ast.StarExpr:
		return recvName(t.X)
	case *ast.Ident:
		return t.Name
	case *ast.IndexExpr:
		return recvName(t.X)
	case *ast.IndexListExpr:
		return recvName(t.X)
	}
	return "?"
}

var timeConsts = map[string]int64{
	"time.Nanosecond": 1, "time.Microsecond": 1000, "time.Millisecond": 1000000,
	"time.Second": 1000000000, "time.Minute": 60000000000, "time.Hour": 3600000000000,
	"math.MaxInt64": 9223372036854775807,
	"http.StatusOK": 200,
}

// evalInt evaluates an integer constant expression.
func (p *pkgInfo) evalInt(e ast.Expr) (int64, bool) {
	switch v := e.(type) {
	case *ast.BasicLit:
		switch v.Kind {
		case token.INT:
			n, err := strconv.ParseInt(v.Value, 0, 64)
			return n, err == nil
		case token.CHAR:
			r, _, _, err := strconv.UnquoteChar(v.Value[1:len(v.Value)-1], '\'')
			return int64(r), err == nil
		}
	case *ast.ParenExpr:
		return p.evalInt(v.X)
	case *ast.Ident:
		if c, ok := p.consts[v.Name]; ok {
			return p.evalInt(c)
		}
	case *ast.SelectorExpr:
		if x, ok := v.X.(*ast.Ident); ok {
			n, ok := timeConsts[x.Name+"."+v.Sel.Name]
			return n, ok
		}
	case *ast.CallExpr: // conversions like int64(time.Hour)
		if len(v.Args) == 1 {
			return p.evalInt(v.Args[0])
		}
	case *ast.BinaryExpr:
		a, ok1 := p.evalInt(v.X)
		b, ok2 := p.evalInt(v.Y)
		if !ok1 || !ok2 {
			return 0, false
		}
		switch v.Op {
		case token.ADD:
			return a + b, true
		case token.SUB:
			return a - b, true
		case token.MUL:
			return a * b, true
		case token.QUO:
			if b == 0 {
				return 0, false
			}
			return a / b, true
		case token.OR:
			return a | b, true
		case token.SHL:
			return a << uint(b), true
		}
	}
	return 0, false
}

// evalStr evaluates a string constant expression.
func (p *pkgInfo) evalStr(e ast.Expr) (string, bool) {
	switch v := e.(type) {
	case *ast.BasicLit:
		if v.Kind == token.STRING {
			s, err := strconv.Unquote(v.Value)
			return s, err == nil
		}
	case *ast.ParenExpr:
		return p.evalStr(v.X)
	case *ast.Ident:
		if c, ok := p.consts[v.Name]; ok {
			return p.evalStr(c)
		}
	case *ast.SelectorExpr:
		if x, ok := v.X.(*ast.Ident); ok && x.Name == "http" {
			switch v.Sel.Name {
			case "MethodPost":
				return "POST", true
			case "TrailerPrefix":
				return "Trailer:", true
			}
		}
	case *ast.BinaryExpr:
		if v.Op == token.ADD {
			a, ok1 := p.evalStr(v.X)
			b, ok2 := p.evalStr(v.Y)
			return a + b, ok1 && ok2
		}
	}
	return "", false
}

// switchOf returns the first switch statement (on any tag) directly in fn's body.
func switchOf(fn *ast.FuncDecl) *ast.SwitchStmt {
	if fn == nil || fn.Body == nil {
		return nil
	}
	var found *ast.SwitchStmt
	ast.Inspect(fn.Body, func(n ast.Node) bool {
		if found != nil {
			return false
		}
		if s, ok := n.(*ast.SwitchStmt); ok && s.Tag != nil {
			found = s
			return false
		}
		return true
	})
	return found
}

func lastSwitchOf(fn *ast.FuncDecl) *ast.SwitchStmt {
	if fn == nil || fn.Body == nil {
		return nil
	}
	var found *ast.SwitchStmt
	ast.Inspect(fn.Body, func(n ast.Node) bool {
		if s, ok := n.(*ast.SwitchStmt); ok && s.Tag != nil {
			found = s
		}
		return true
	})
	return found
}

// firstReturn finds the first return statement in a clause body.
func firstReturn(body []ast.Stmt) *ast.ReturnStmt {
	for _, st := range body {
		if r, ok := st.(*ast.ReturnStmt); ok {
			return r
		}
	}
	return nil
}

type kv struct {
	k, v string
}

// leanStr renders a Go string as a Lean `List UInt8` literal (kernel-friendly:
// theorems about the tables are closed by `decide`), with the text in a comment.
func leanStr(s string) string {
	var b strings.Builder
	b.WriteString("[")
	for i := 0; i < len(s); i++ {
		if i > 0 {
			b.WriteString(", ")
		}
		fmt.Fprintf(&b, "%d", s[i])
	}
	b.WriteString("]")
	safe := true
	for i := 0; i < len(s); i++ {
		if s[i] < 0x20 || s[i] > 0x7e || s[i] == '-' && i+1 < len(s) && s[i+1] == '/' {
			safe = false
		}
	}
	if safe && !strings.Contains(s, "-/") && !strings.Contains(s, "/-") {
		fmt.Fprintf(&b, " /- %s -/", s)
	}
	return b.String()
}

func main() {
	if len(os.Args) != 3 {
		fmt.Fprintln(os.Stderr, "usage: extract <repo-dir> <out.lean>")
		os.Exit(2)
	}
	repo, out := os.Args[1], os.Args[2]
	p := load(repo)
	var b strings.Builder
	b.WriteString("/- GENERATED by /verif/tools/extract from connect-go's source. Do not edit by hand. -/\n")
	b.WriteString("namespace ConnectModel.Gen\n\n")

	natConst := func(lean, goName string) {
		e, ok := p.consts[goName]
		if !ok {
			miss("const " + goName)
			return
		}
		n, ok := p.evalInt(e)
		if !ok {
			miss("const value " + goName)
			return
		}
		fmt.Fprintf(&b, "def %s : Nat := %d\n", lean, n)
	}
	strConst := func(lean, goName string) {
		e, ok := p.consts[goName]
		if !ok {
			miss("const " + goName)
			return
		}
		s, ok := p.evalStr(e)
		if !ok {
			miss("const value " + goName)
			return
		}
		fmt.Fprintf(&b, "def %s : List UInt8 := %s\n", lean, leanStr(s))
	}

	// --- codes -----------------------------------------------------------
	codeVal := map[string]int64{}
	for name, e := range p.consts {
		if strings.HasPrefix(name, "Code") {
			if n, ok := p.evalInt(e); ok {
				codeVal[name] = n
			}
		}
	}
	codeOf := func(e ast.Expr) (int64, bool) {
		if id, ok := e.(*ast.Ident); ok {
			n, ok := codeVal[id.Name]
			return n, ok
		}
		return p.evalInt(e)
	}
	natConst("minCode", "minCode")
	natConst("maxCode", "maxCode")

	// Code.String: case CodeX: return "lit"
	{
		var rows []string
		sw := switchOf(p.funcs["Code.String"])
		if sw == nil {
			miss("switch Code.String")
		} else {
			for _, st := range sw.Body.List {
				cc := st.(*ast.CaseClause)
				ret := firstReturn(cc.Body)
				if ret == nil || len(ret.Results) != 1 {
					miss("Code.String clause")
					continue
				}
				s, ok := p.evalStr(ret.Results[0])
				if !ok {
					miss("Code.String literal")
					continue
				}
				for _, ce := range cc.List {
					n, ok := codeOf(ce)
					if !ok {
						miss("Code.String case")
						continue
					}
					rows = append(rows, fmt.Sprintf("(%d, %s)", n, leanStr(s)))
				}
			}
		}
		fmt.Fprintf(&b, "def codeNames : List (Nat × List UInt8) := [%s]\n", strings.Join(rows, ", "))
	}
	// Code.UnmarshalText: case "lit": *c = CodeX
	{
		var rows []string
		sw := switchOf(p.funcs["Code.UnmarshalText"])
		if sw == nil {
			miss("switch Code.UnmarshalText")
		} else {
			for _, st := range sw.Body.List {
				cc := st.(*ast.CaseClause)
				var val int64 = -1
				for _, bs := range cc.Body {
					if as, ok := bs.(*ast.AssignStmt); ok && len(as.Rhs) == 1 {
						if n, ok := codeOf(as.Rhs[0]); ok {
							val = n
						}
					}
				}
				if val < 0 {
					miss("UnmarshalText clause")
					continue
				}
				for _, ce := range cc.List {
					s, ok := p.evalStr(ce)
					if !ok {
						miss("UnmarshalText case")
						continue
					}
					rows = append(rows, fmt.Sprintf("(%s, %d)", leanStr(s), val))
				}
			}
		}
		fmt.Fprintf(&b, "def textToCode : List (List UInt8 × Nat) := [%s]\n", strings.Join(rows, ", "))
	}
	// int -> int switch tables
	intSwitch := func(lean, fn string, keyIsCode, valIsCode bool) {
		var rows []string
		def := int64(-1)
		sw := switchOf(p.funcs[fn])
		if sw == nil {
			miss("switch " + fn)
		} else {
			for _, st := range sw.Body.List {
				cc := st.(*ast.CaseClause)
				ret := firstReturn(cc.Body)
				if ret == nil || len(ret.Results) != 1 {
					miss(fn + " clause")
					continue
				}
				var v int64
				var ok bool
				if valIsCode {
					v, ok = codeOf(ret.Results[0])
				} else {
					v, ok = p.evalInt(ret.Results[0])
				}
				if !ok {
					miss(fn + " value")
					continue
				}
				if cc.List == nil {
					def = v
					continue
				}
				for _, ce := range cc.List {
					var k int64
					if keyIsCode {
						k, ok = codeOf(ce)
					} else {
						k, ok = p.evalInt(ce)
					}
					if !ok {
						miss(fn + " key")
						continue
					}
					rows = append(rows, fmt.Sprintf("(%d, %d)", k, v))
				}
			}
			if def < 0 {
				// default may be a trailing return after the switch
				fnDecl := p.funcs[fn]
				if ret, ok := fnDecl.Body.List[len(fnDecl.Body.List)-1].(*ast.ReturnStmt); ok && len(ret.Results) == 1 {
					var ok2 bool
					if valIsCode {
						def, ok2 = codeOf(ret.Results[0])
					} else {
						def, ok2 = p.evalInt(ret.Results[0])
					}
					if !ok2 {
						def = -1
					}
				}
			}
			if def < 0 {
				miss(fn + " default")
				def = 0
			}
		}
		fmt.Fprintf(&b, "def %s : List (Nat × Nat) := [%s]\n", lean, strings.Join(rows, ", "))
		fmt.Fprintf(&b, "def %sDefault : Nat := %d\n", lean, def)
	}
	intSwitch("codeToHTTP", "connectCodeToHTTP", true, false)
	intSwitch("connectHTTPToCode", "connectHTTPToCode", false, true)
	intSwitch("grpcHTTPToCode", "grpcHTTPToCode", false, true)

	// wrapIfRSTError: case "NAME", ...: return NewError(CodeX, ...)
	{
		var rows []string
		sw := lastSwitchOf(p.funcs["wrapIfRSTError"])
		if sw == nil {
			miss("switch wrapIfRSTError")
		} else {
			for _, st := range sw.Body.List {
				cc := st.(*ast.CaseClause)
				if cc.List == nil {
					continue
				}
				ret := firstReturn(cc.Body)
				if ret == nil || len(ret.Results) != 1 {
					miss("wrapIfRSTError clause")
					continue
				}
				call, ok := ret.Results[0].(*ast.CallExpr)
				if !ok || len(call.Args) < 1 {
					miss("wrapIfRSTError call")
					continue
				}
				v, ok := codeOf(call.Args[0])
				if !ok {
					miss("wrapIfRSTError code")
					continue
				}
				for _, ce := range cc.List {
					s, ok := p.evalStr(ce)
					if !ok {
						miss("wrapIfRSTError key")
						continue
					}
					rows = append(rows, fmt.Sprintf("(%s, %d)", leanStr(s), v))
				}
			}
		}
		fmt.Fprintf(&b, "def rstToCode : List (List UInt8 × Nat) := [%s]\n", strings.Join(rows, ", "))
	}

	// --- flags, limits, header names ----------------------------------------
	b.WriteString("\n")
	natConst("flagCompressed", "flagEnvelopeCompressed")
	natConst("flagEndStream", "connectFlagEnvelopeEndStream")
	natConst("flagTrailer", "grpcFlagEnvelopeTrailer")
	natConst("initialBufferSize", "initialBufferSize")
	natConst("maxRecycleBufferSize", "maxRecycleBufferSize")
	natConst("discardLimit", "discardLimit")
	natConst("grpcMaxTimeoutChars", "grpcMaxTimeoutChars")
	natConst("grpcTimeoutMaxHours", "grpcTimeoutMaxHours")
	for _, pair := range [][2]string{
		{"hdrContentType", "headerContentType"},
		{"hdrConnectUnaryEncoding", "connectUnaryHeaderCompression"},
		{"hdrConnectUnaryAcceptEncoding", "connectUnaryHeaderAcceptCompression"},
		{"connectUnaryTrailerPrefix", "connectUnaryTrailerPrefix"},
		{"hdrConnectStreamEncoding", "connectStreamingHeaderCompression"},
		{"hdrConnectStreamAcceptEncoding", "connectStreamingHeaderAcceptCompression"},
		{"hdrConnectTimeout", "connectHeaderTimeout"},
		{"connectUnaryContentTypePrefix", "connectUnaryContentTypePrefix"},
		{"connectUnaryContentTypeJSON", "connectUnaryContentTypeJSON"},
		{"connectStreamingContentTypePrefix", "connectStreamingContentTypePrefix"},
		{"hdrGrpcEncoding", "grpcHeaderCompression"},
		{"hdrGrpcAcceptEncoding", "grpcHeaderAcceptCompression"},
		{"hdrGrpcTimeout", "grpcHeaderTimeout"},
		{"hdrGrpcStatus", "grpcHeaderStatus"},
		{"hdrGrpcMessage", "grpcHeaderMessage"},
		{"hdrGrpcDetails", "grpcHeaderDetails"},
		{"grpcContentTypeDefault", "grpcContentTypeDefault"},
		{"grpcWebContentTypeDefault", "grpcWebContentTypeDefault"},
		{"grpcContentTypePrefix", "grpcContentTypePrefix"},
		{"grpcWebContentTypePrefix", "grpcWebContentTypePrefix"},
		{"compressionGzip", "compressionGzip"},
		{"compressionIdentity", "compressionIdentity"},
		{"codecNameProto", "codecNameProto"},
		{"codecNameJSON", "codecNameJSON"},
	} {
		strConst(pair[0], pair[1])
	}

	// grpcTimeoutUnits = []struct{...}{{time.Nanosecond, 'n'}, ...}
	{
		var rows []string
		lit, ok := p.vars["grpcTimeoutUnits"].(*ast.CompositeLit)
		if !ok {
			miss("var grpcTimeoutUnits")
		} else {
			for _, el := range lit.Elts {
				pair, ok := el.(*ast.CompositeLit)
				if !ok || len(pair.Elts) != 2 {
					miss("grpcTimeoutUnits element")
					continue
				}
				size, ok1 := p.evalInt(pair.Elts[0])
				ch, ok2 := p.evalInt(pair.Elts[1])
				if !ok1 || !ok2 {
					miss("grpcTimeoutUnits value")
					continue
				}
				rows = append(rows, fmt.Sprintf("(%d, %d)", size, ch))
			}
		}
		fmt.Fprintf(&b, "def grpcTimeoutUnits : List (Nat × Nat) := [%s]\n", strings.Join(rows, ", "))
	}

	// --- generator keyword table --------------------------------------------
	{
		gen := load(filepath.Join(repo, "cmd", "protoc-gen-connect-go"))
		var kws []string
		sw := switchOf(gen.funcs["unexport"])
		if sw == nil {
			miss("switch unexport")
		} else {
			for _, st := range sw.Body.List {
				cc := st.(*ast.CaseClause)
				for _, ce := range cc.List {
					if s, ok := gen.evalStr(ce); ok {
						kws = append(kws, leanStr(s))
					}
				}
			}
		}
		sort.Strings(kws)
		fmt.Fprintf(&b, "def unexportKeywords : List (List UInt8) := [%s]\n", strings.Join(kws, ", "))
	}

	// --- site facts: every write of a protocol header whose value must be encoded ----------
	// For each key constant, every call `<x>.Set(<key>, v)` / `<x>.Add(<key>, v)` and every
	// assignment `<x>[<key>] = ...` in the package is listed with how `v` is produced:
	//   0 = a call of the required encoder, 1 = the empty string literal, 2 = anything else.
	{
		type rule struct{ lean, key, encoder string }
		for _, r := range []rule{
			{"grpcMessageWrites", "grpcHeaderMessage", "grpcPercentEncode"},
			{"grpcDetailsWrites", "grpcHeaderDetails", "EncodeBinaryHeader"},
		} {
			var rows []string
			names := make([]string, 0, len(p.funcs))
			for name := range p.funcs {
				names = append(names, name)
			}
			sort.Strings(names)
			for _, name := range names {
				fn := p.funcs[name]
				if fn.Body == nil {
					continue
				}
				ast.Inspect(fn.Body, func(n ast.Node) bool {
					switch x := n.(type) {
					case *ast.CallExpr:
						sel, ok := x.Fun.(*ast.SelectorExpr)
						if !ok || (sel.Sel.Name != "Set" && sel.Sel.Name != "Add") || len(x.Args) != 2 {
							return true
						}
						if id, ok := x.Args[0].(*ast.Ident); !ok || id.Name != r.key {
							return true
						}
						kind := 2
						switch v := x.Args[1].(type) {
						case *ast.CallExpr:
							if id, ok := v.Fun.(*ast.Ident); ok && id.Name == r.encoder {
								kind = 0
							}
						case *ast.BasicLit:
							if v.Value == `""` {
								kind = 1
							}
						}
						rows = append(rows, fmt.Sprintf("(%s, %d)", leanStr(name), kind))
					case *ast.AssignStmt:
						for _, lhs := range x.Lhs {
							if ix, ok := lhs.(*ast.IndexExpr); ok {
								if id, ok := ix.Index.(*ast.Ident); ok && id.Name == r.key {
									rows = append(rows, fmt.Sprintf("(%s, 2)", leanStr(name)))
								}
							}
						}
					}
					return true
				})
			}
			if len(rows) == 0 {
				miss("writes of " + r.key)
			}
			fmt.Fprintf(&b, "def %s : List (List UInt8 × Nat) := [%s]\n", r.lean, strings.Join(rows, ", "))
		}
	}

	// --- structural facts the models take for granted --------------------------------------
	// (a) Handler.ServeHTTP selects the FIRST protocol handler that serves the Content-Type:
	//     the loop over h.protocolHandlers leaves with `break` inside the matching `if`.
	{
		first := 0
		if fn := p.funcs["Handler.ServeHTTP"]; fn != nil && fn.Body != nil {
			ast.Inspect(fn.Body, func(n ast.Node) bool {
				rs, ok := n.(*ast.RangeStmt)
				if !ok {
					return true
				}
				if sel, ok := rs.X.(*ast.SelectorExpr); !ok || sel.Sel.Name != "protocolHandlers" {
					return true
				}
				for _, st := range rs.Body.List {
					if ifs, ok := st.(*ast.IfStmt); ok {
						for _, inner := range ifs.Body.List {
							if br, ok := inner.(*ast.BranchStmt); ok && br.Tok == token.BREAK {
								first = 1
							}
						}
					}
				}
				return false
			})
		} else {
			miss("func Handler.ServeHTTP")
		}
		fmt.Fprintf(&b, "def serveHTTPFirstMatch : Nat := %d\n", first)
	}
	// (b) the request-side entry points of duplexHTTPCall start the request before anything
	//     can make them return: `d.ensureRequestMade()` is a top-level statement that precedes
	//     every statement containing a `return`. 0 = yes, 2 = no.
	{
		var rows []string
		for _, name := range []string{"duplexHTTPCall.Write", "duplexHTTPCall.CloseWrite"} {
			fn := p.funcs[name]
			if fn == nil || fn.Body == nil {
				miss("func " + name)
				continue
			}
			kind := 2
			for _, st := range fn.Body.List {
				if es, ok := st.(*ast.ExprStmt); ok {
					if call, ok := es.X.(*ast.CallExpr); ok {
						if sel, ok := call.Fun.(*ast.SelectorExpr); ok && sel.Sel.Name == "ensureRequestMade" {
							kind = 0
							break
						}
					}
				}
				hasReturn := false
				ast.Inspect(st, func(n ast.Node) bool {
					if _, ok := n.(*ast.ReturnStmt); ok {
						hasReturn = true
					}
					return !hasReturn
				})
				if hasReturn {
					break
				}
			}
			rows = append(rows, fmt.Sprintf("(%s, %d)", leanStr(name), kind))
		}
		fmt.Fprintf(&b, "def requestSideStartsRequest : List (List UInt8 × Nat) := [%s]\n", strings.Join(rows, ", "))
	}

	// (c) every `io.LimitReader(r, n+1)` whose limit is a read limit plus one sits under an `if`
	//     whose condition compares against math.MaxInt64 (n+1 does not wrap around for the
	//     largest limit there is). 0 = guarded, 2 = not.
	{
		var rows []string
		names := make([]string, 0, len(p.funcs))
		for name := range p.funcs {
			names = append(names, name)
		}
		sort.Strings(names)
		for _, name := range names {
			fn := p.funcs[name]
			if fn.Body == nil {
				continue
			}
			var stack []ast.Node
			ast.Inspect(fn.Body, func(n ast.Node) bool {
				if n == nil {
					stack = stack[:len(stack)-1]
					return true
				}
				stack = append(stack, n)
				call, ok := n.(*ast.CallExpr)
				if !ok || len(call.Args) != 2 {
					return true
				}
				sel, ok := call.Fun.(*ast.SelectorExpr)
				if !ok || sel.Sel.Name != "LimitReader" {
					return true
				}
				bin, ok := call.Args[1].(*ast.BinaryExpr)
				if !ok || bin.Op != token.ADD {
					return true
				}
				if lit, ok := bin.Y.(*ast.BasicLit); !ok || lit.Value != "1" {
					return true
				}
				kind := 2
				for i := len(stack) - 1; i >= 0 && kind == 2; i-- {
					if ifs, ok := stack[i].(*ast.IfStmt); ok {
						ast.Inspect(ifs.Cond, func(c ast.Node) bool {
							if be, ok := c.(*ast.BinaryExpr); ok && be.Op == token.LSS {
								if s, ok := be.Y.(*ast.SelectorExpr); ok && s.Sel.Name == "MaxInt64" {
									kind = 0
								}
							}
							return true
						})
						break
					}
				}
				rows = append(rows, fmt.Sprintf("(%s, %d)", leanStr(name), kind))
				return true
			})
		}
		if len(rows) == 0 {
			miss("io.LimitReader(_, n+1) sites")
		}
		fmt.Fprintf(&b, "def limitReaderPlusOneSites : List (List UInt8 × Nat) := [%s]\n", strings.Join(rows, ", "))
	}

	// (d) sentinel errors (io.EOF, io.ErrUnexpectedEOF, context.Canceled, context.DeadlineExceeded)
	//     are never compared with == / != : every layer wraps them (a coded error wrapping io.EOF
	//     is the documented "stream closed" signal), so only errors.Is sees them.
	{
		var rows []string
		names := make([]string, 0, len(p.funcs))
		for name := range p.funcs {
			names = append(names, name)
		}
		sort.Strings(names)
		isSentinel := func(e ast.Expr) bool {
			sel, ok := e.(*ast.SelectorExpr)
			if !ok {
				return false
			}
			pkg, ok := sel.X.(*ast.Ident)
			if !ok {
				return false
			}
			switch pkg.Name + "." + sel.Sel.Name {
			case "io.EOF", "io.ErrUnexpectedEOF", "context.Canceled", "context.DeadlineExceeded":
				return true
			}
			return false
		}
		for _, name := range names {
			fn := p.funcs[name]
			if fn.Body == nil {
				continue
			}
			ast.Inspect(fn.Body, func(n ast.Node) bool {
				if be, ok := n.(*ast.BinaryExpr); ok && (be.Op == token.EQL || be.Op == token.NEQ) && (isSentinel(be.X) || isSentinel(be.Y)) {
					rows = append(rows, leanStr(name))
				}
				return true
			})
		}
		fmt.Fprintf(&b, "def directSentinelComparisons : List (List UInt8) := [%s]\n", strings.Join(rows, ", "))
	}

	b.WriteString("\nend ConnectModel.Gen\n")

	if len(missing) > 0 {
		fmt.Fprintln(os.Stderr, "extract: facts not found syntactically:", strings.Join(missing, "; "))
		os.Exit(3)
	}
	old, _ := os.ReadFile(out)
	if string(old) != b.String() {
		if err := os.WriteFile(out, []byte(b.String()), 0o644); err != nil {
			fmt.Fprintln(os.Stderr, err)
			os.Exit(2)
		}
		fmt.Println("extract: wrote", out)
	} else {
		fmt.Println("extract: unchanged")
	}
}
