#!/bin/bash
# usage: tools/try_seeded.sh <seeded-name> <property-id>...  — applies seeded/<name>/patch.diff, runs checks, undoes
d=/verif/seeded/$1; shift
/verif/tools/try_mutant.sh $d/patch.diff "$@"
