#!/bin/bash
# usage: tools/matrix_own.sh [name...] — for every seeded change: apply to /repo, run ONLY the quick check of the
# property it was written for, undo; the line of that property in .work/matrix/<name>.txt is replaced (the
# other lines keep the result of the last full tools/matrix.sh run for that change).
set -u
export GOFLAGS=-mod=mod GOPROXY=off GOSUMDB=off GOTOOLCHAIN=local
mkdir -p /verif/.work/matrix
names=("$@"); if [ ${#names[@]} -eq 0 ]; then names=($(ls /verif/seeded | grep -v MATRIX)); fi
cd /repo || exit 2
for n in "${names[@]}"; do
  own=$(python3 -c "import json;print(json.load(open('/verif/seeded/$n/meta.json')).get('property',''))" 2>/dev/null)
  [ -z "$own" ] && continue
  if ! git diff --quiet; then echo "/repo dirty"; exit 2; fi
  git apply /verif/seeded/$n/patch.diff || { echo "$n: patch does not apply"; continue; }
  o=$(cd /verif && timeout 900 ./check $own 2>&1); rc=$?
  l=$(echo "$o" | grep -E '^VIOLATION' | head -1); [ -z "$l" ] && l=$(echo "$o" | grep -E '^OK property' | head -1)
  git checkout -- . && git clean -fdq
  out=/verif/.work/matrix/$n.txt; touch $out
  grep -v "^$own " $out > $out.tmp; echo "$own rc=$rc $l" >> $out.tmp; sort $out.tmp > $out; rm -f $out.tmp
  echo "$n own=$own rc=$rc"
done
