#!/usr/bin/env python3
"""tools/mkprompts.py <round-dir> — writes one sub-agent prompt per property to <round-dir>/prompt-Cxx.txt.
Each prompt carries only the property's text, the path of the agent's own scratch worktree and
the one-line summaries of changes tried before (so that rounds do not repeat themselves) —
nothing from /verif."""
import json, os, sys
ROOT = os.path.dirname(os.path.dirname(os.path.abspath(__file__)))
out = sys.argv[1]
hint = open(sys.argv[2]).read().strip() if len(sys.argv) > 2 else ""
os.makedirs(out, exist_ok=True)
props = [json.loads(l) for l in open(os.path.join(ROOT, "properties.jsonl"))]
for p in props:
    pid = p["id"]
    tried = []
    for d in sorted(os.listdir(os.path.join(ROOT, "seeded"))):
        mp = os.path.join(ROOT, "seeded", d, "meta.json")
        if d.startswith(pid + "-") and os.path.exists(mp):
            try:
                s = json.load(open(mp)).get("summary", "")
            except Exception:
                s = ""
            if s:
                tried.append("- " + " ".join(s.split())[:260])
    wt = f"{out}/wt-{pid}"
    text = f"""You are helping test a verification tool for the Go library bufbuild/connect-go (an RPC library implementing the Connect, gRPC and gRPC-Web protocols). You have your own scratch git worktree of the library at {wt} (work ONLY there; never touch /repo or /verif, and do not read anything under /verif).

Here is a semantic property the library is supposed to satisfy:

  {pid} — {p['title']}
  {p['statement']}
  (quantified over: {p['quantifier']['text']})

Your task: produce TWO different, realistic code changes ("mutants") to the library, each of which BREAKS this property for some inputs, while
  (a) the library still compiles (`go build ./...`), and
  (b) the library's existing test suite still passes: run `export GOFLAGS=-mod=mod GOPROXY=off GOSUMDB=off GOTOOLCHAIN=local; go test -vet=off -count=1 -timeout 10m ./...` in the worktree (there is no network; never run `go get`).
Make them the kind of bug a maintainer could plausibly introduce in a refactoring, NOT a blatant sabotage, and make each change small (a few lines). The change must break the property AS STATED above (re-read it: a behaviour change the statement does not speak about is not a hit). Assume the property is already being checked by a thorough differential test harness: it drives real clients and handlers with generated inputs in all three protocols, all four RPC kinds, several codecs and compression settings, over in-process transports and real HTTP/1.1 and HTTP/2 servers; it feeds handlers malformed requests and clients hostile responses, reuses option values and Request objects, injects delays at synchronisation points, and compares everything against an executable model. {hint} Each mutant must still be a plausible maintainer mistake. The two mutants should touch different mechanisms. Do not modify test files, and do not touch files whose name starts with verif_ or anything guarded by the `verif` build tag.

Mutations that were ALREADY tried for this property in earlier rounds (all of them are detected now) - produce something in a different place or of a different kind, do not repeat or trivially vary these:
{chr(10).join(tried)}

For each mutant k in {{1,2}} create the directory {out}/{pid}-k/ containing:
  - patch.diff : output of `git diff` in the worktree with ONLY that mutant applied (must apply with `git apply` to a clean checkout of HEAD);
  - verif_demo_test.go : a Go test file (package connect_test or package connect, placed in the repo root when run; for changes under cmd/protoc-gen-connect-go use `package main` and it will be placed there) with a test whose name starts with TestVerifDemo that FAILS with the mutant applied and PASSES on the unmodified library, demonstrating the violated property through the public API where possible. It must be self-contained, offline, finish within 60 s, and use only packages available in the module (e.g. internal/gen ping service, net/http/httptest, google.golang.org/protobuf types).
  - meta.json : {{"summary": "<what was changed and why it breaks the property>", "needs": "<which inputs/configurations expose it>"}}.
Verify for each mutant: with the patch, build ok, full suite ok, demo fails; after `git checkout -- .` (clean tree, demo file copied in) the demo passes. Always restore the worktree to a clean state between mutants (`git checkout -- . && git clean -fdq`) and at the end. Report briefly what you produced and the verification results.
"""
    open(os.path.join(out, f"prompt-{pid}.txt"), "w").write(text)
print("wrote", len(props), "prompts to", out)
