#!/bin/bash
# usage: tools/confirm_mutant.sh <worktree> <mutant-dir> <seeded-name> <property>
# Confirms in the scratch worktree: suite passes with the patch, demo fails with it and passes without.
set -u
export GOFLAGS=-mod=mod GOPROXY=off GOSUMDB=off GOTOOLCHAIN=local
wt=$1; m=$2; name=$3; prop=$4
cd "$wt" || exit 2
git checkout -q -- . && git clean -fdq
demo=$(ls "$m"/*_test.go | head -1)
dest=.
if grep -q '^package main' "$demo"; then dest=cmd/protoc-gen-connect-go; fi
git apply "$m/patch.diff" || { echo "APPLY-FAIL"; exit 1; }
go build ./... || { echo "BUILD-FAIL"; git checkout -q -- .; exit 1; }
suite=$(go test -vet=off -count=1 -timeout 10m ./... 2>&1 | grep -c '^FAIL\|^--- FAIL')
cp "$m"/*_test.go $dest/
with=$(cd $dest && go test -vet=off -count=1 -timeout 5m -run 'Verif|Demo' . 2>&1 | tail -3 | grep -c '^ok')
git checkout -q -- . ; 
without=$(cd $dest && go test -vet=off -count=1 -timeout 5m -run 'Verif|Demo' . 2>&1 | tail -3 | grep -c '^ok')
rm -f $dest/verif_demo*_test.go $dest/demo*_test.go; git clean -fdq
echo "suite_failures=$suite demo_passes_with_patch=$with demo_passes_without=$without"
if [ "$suite" = 0 ] && [ "$with" = 0 ] && [ "$without" = 1 ]; then
  mkdir -p /verif/seeded/$name && cp "$m/patch.diff" /verif/seeded/$name/ && cp "$m"/*_test.go /verif/seeded/$name/
  python3 - "$m/meta.json" /verif/seeded/$name/meta.json "$prop" <<'PY'
import json,sys
try: meta=json.load(open(sys.argv[1]))
except Exception: meta={}
meta["property"]=sys.argv[3]
meta["confirmed"]="suite passes with patch; demo fails with patch and passes without (tools/confirm_mutant.sh in a scratch worktree)"
json.dump(meta,open(sys.argv[2],"w"),indent=1)
PY
  echo CONFIRMED $name
else echo NOT-CONFIRMED $name; fi
