#!/usr/bin/env python3
"""tools/mkmatrix.py — renders .work/matrix/*.txt (written by tools/matrix.sh) as the table of
DESIGN.md §11 (between the MATRIX markers) and as seeded/MATRIX.json."""
import json, os, re, sys
ROOT = os.path.dirname(os.path.dirname(os.path.abspath(__file__)))
rows = []
for f in sorted(os.listdir(os.path.join(ROOT, ".work/matrix"))):
    if not f.endswith(".txt"):
        continue
    name = f[:-4]
    if not os.path.isdir(os.path.join(ROOT, "seeded", name)):
        continue
    meta = {}
    try:
        meta = json.load(open(os.path.join(ROOT, "seeded", name, "meta.json")))
    except Exception:
        pass
    rep = {}
    for l in open(os.path.join(ROOT, ".work/matrix", f)):
        m = re.match(r"(C\d\d) rc=(\d+) (.*)", l)
        if m:
            rep[m.group(1)] = {"rc": int(m.group(2)), "concrete": "no-failing-input-found" not in m.group(3)}
    rows.append({"name": name, "property": meta.get("property", ""), "summary": (meta.get("summary") or "").replace("\n", " "), "reports": rep})
json.dump(rows, open(os.path.join(ROOT, "seeded", "MATRIX.json"), "w"), indent=1)

def short(s, n=150):
    s = re.sub(r"\s+", " ", s).replace("|", "/")
    return s if len(s) <= n else s[: n - 1] + "…"

lines = ["| change | written for | what it does | reported by (`*` = disagreement without a failing input) |", "|---|---|---|---|"]
own_hit = own_concrete = total_own = 0
for r in rows:
    reps = [k + ("" if v["concrete"] else "*") for k, v in sorted(r["reports"].items()) if v["rc"] == 1]
    broken = [k for k, v in r["reports"].items() if v["rc"] not in (0, 1)]
    own = r["property"]
    if own:
        total_own += 1
        v = r["reports"].get(own)
        if v and v["rc"] == 1:
            own_hit += 1
            own_concrete += 1 if v["concrete"] else 0
    cell = " ".join(("**%s**" % x) if x.rstrip("*") == own else x for x in reps) or "—"
    if broken:
        cell += " (check failed to run: " + ",".join(broken) + ")"
    lines.append("| `%s` | %s | %s | %s |" % (r["name"], own or "(un-fix)", short(r["summary"]), cell))
summary = "%d changes; %d written for a stated property, of which %d are reported by that property's own check (%d with a concrete failing input as replay)." % (
    len(rows), total_own, own_hit, own_concrete)
table = summary + "\n\n" + "\n".join(lines)
p = os.path.join(ROOT, "DESIGN.md")
s = open(p).read()
a, b = "<!-- MATRIX:BEGIN -->", "<!-- MATRIX:END -->"
if a in s:
    s = s[: s.index(a) + len(a)] + "\n" + table + "\n" + s[s.index(b):]
    open(p, "w").write(s)
print(summary)
