#!/bin/bash
# usage: tools/flake_sweep.sh [seeds] [load] [tier] — all 19 checks in parallel on the tree as it is, once per seed,
# optionally with <load> busy processes competing for the CPUs; prints every check that did not exit 0.
# A check that reports anything here reports it on code where the property holds: a false alarm to be repaired.
seeds=${1:-"1 2 3"}; load=${2:-0}; tier=${3:-quick}
cd /verif || exit 2
pids=()
for i in $(seq 1 $load); do ( while :; do :; done ) & pids+=($!); done
trap 'kill "${pids[@]}" 2>/dev/null' EXIT
bad=0
for s in $seeds; do
  cps=()
  for p in C01 C02 C03 C04 C05 C06 C07 C08 C09 C10 C11 C12 C13 C14 C15 C16 C17 C18 C19; do
    ( VERIF_SEED=$s timeout 3000 ./check $p --tier $tier > .work/flake-$p-$s.log 2>&1; rc=$?; [ $rc -ne 0 ] && echo "seed=$s $p rc=$rc $(grep -E '^VIOLATION' .work/flake-$p-$s.log | head -1)" ) &
    cps+=($!)
  done
  wait "${cps[@]}"
done
echo "sweep done: seeds=[$seeds] load=$load tier=$tier"
