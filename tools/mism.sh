#!/bin/bash
# usage: tools/mism.sh <stream> [seed] [tier]  — run one stream, diff impl vs model, show mismatches
s=$1; seed=${2:-1}; tier=${3:-quick}
d=/verif/.work/tmp/$s
/verif/.work/bin/harness run -stream $s -seed $seed -tier $tier -out $d
/verif/lean/.lake/build/bin/driver < $d/ops.txt > $d/model.txt
python3 - $d <<'PY'
import re,sys
d=sys.argv[1]
def wild(a,b):
    if "?" not in b: return False
    return re.fullmatch("".join("[^ /@]*" if ch=="?" else re.escape(ch) for ch in b), a) is not None
n=0
with open(d+"/mism.txt","w") as out:
    for op,a,b in zip(open(d+"/ops.txt"),open(d+"/impl.txt"),open(d+"/model.txt")):
        op,a,b=op.rstrip("\n"),a.rstrip("\n"),b.rstrip("\n")
        if op=="canary": continue
        if a!=b and not wild(a,b):
            n+=1; out.write(op+"\n  impl : "+a+"\n  model: "+b+"\n")
print("mismatches:",n)
PY
python3 -c "
import json; s=json.load(open('$d/stats.json')); f=s['oracle_failures']; print('oracle failures:',len(f)); [print(' ',x['key'],'|',x['op'][:160],'|',x['impl'][:100],'|',x['what'][:90]) for x in f[:6]]"
