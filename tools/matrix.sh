#!/bin/bash
# usage: tools/matrix.sh [name...] — for every seeded change: apply to /repo, run all 19 quick checks (in parallel), undo.
# Writes .work/matrix/<name>.txt with one line per property: "<id> rc=<n> <VIOLATION line or OK>"
set -u
export GOFLAGS=-mod=mod GOPROXY=off GOSUMDB=off GOTOOLCHAIN=local
mkdir -p /verif/.work/matrix
names=("$@"); if [ ${#names[@]} -eq 0 ]; then names=($(ls /verif/seeded)); fi
cd /repo || exit 2
for n in "${names[@]}"; do
  if ! git diff --quiet; then echo "/repo dirty"; exit 2; fi
  git apply /verif/seeded/$n/patch.diff || { echo "$n: patch does not apply"; continue; }
  out=/verif/.work/matrix/$n.txt; : > $out.tmp
  # first one alone (builds harness/driver once), the rest in parallel
  own=$(python3 -c "import json;print(json.load(open('/verif/seeded/$n/meta.json')).get('property',''))" 2>/dev/null)
  ids="C01 C02 C03 C04 C05 C06 C07 C08 C09 C10 C11 C12 C13 C14 C15 C16 C17 C18 C19"
  run() { id=$1; o=$(cd /verif && timeout 900 ./check $id 2>&1); rc=$?; l=$(echo "$o" | grep -E '^VIOLATION' | head -1); [ -z "$l" ] && l=$(echo "$o" | grep -E '^OK property' | head -1); echo "$id rc=$rc $l" >> $out.tmp; }
  run C12
  for id in $ids; do [ $id = C12 ] && continue; run $id & done; wait
  sort $out.tmp > $out; rm -f $out.tmp
  git checkout -- . && git clean -fdq
  echo "$n own=$own: $(grep -c 'rc=1' $out) props report: $(grep 'rc=1' $out | cut -d' ' -f1 | tr '\n' ' ')"
done
