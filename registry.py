"""Per-property registry: Lean module, registered theorems (audited with #print axioms),
correspondence streams, evidence texts. MANIFEST.json is generated from this (tools/mkmanifest.py)."""

TRUSTED_BASE = [
    "Lean 4.33.0 kernel (lake build; leanchecker re-check in the thorough tier)",
    "axioms: at most propext, Classical.choice, Quot.sound (audited per theorem with #print axioms; `decide +kernel` is kernel evaluation and adds no axiom; no native_decide / bv_decide / sorry)",
    "translator /verif/tools/extract (go/ast): regenerates lean/ConnectModel/Gen/Tables.lean from /repo on every run",
    "correspondence check /verif/harness + lean/Driver (line protocol, canary per stream): the hand-written model is tied to the code by differential testing, so its reach is bounded by the generators (input distribution is in this file)",
    "Go toolchain/runtime and the standard/third-party libraries behind the model's parameters (net/http, encoding/json, protobuf, compress/gzip, sync, io)",
]

PROPS = {}

PROPS["C18"] = {
    "title": "The small wire codecs are total, lossless and header-safe",
    "lean_module": "ConnectProofs.C18",
    "theorems": [
        "ConnectModel.C18.code_text_roundtrip",
        "ConnectModel.C18.code_text_rejects",
        "ConnectModel.C18.code_text_named_not_numeric",
        "ConnectModel.C18.percent_roundtrip",
        "ConnectModel.C18.percent_printable",
        "ConnectModel.C18.percent_identity_on_plain",
        "ConnectModel.C18.binary_header_roundtrip",
        "ConnectModel.C18.binary_header_roundtrip_padded",
        "ConnectModel.C18.code_http_range",
        "ConnectModel.C18.tables_inverse",
        "ConnectModel.C18.names_cover_range",
    ],
    "streams": ["codec"],
    "design_ref": "DESIGN.md §5 C18",
    "technique": "Lean 4 theorems over a byte-exact model (code text, percent-encoding, base64 header codecs; tables regenerated from the Go source) + exhaustive/differential correspondence with the real functions",
    "level_text": "Machine-checked proof: round-trip of the code text form for all 2^32 values, rejection characterisation, percent-encoding round-trip/printability for all byte strings, binary-header round-trip (raw and padded) for all byte strings, and the 4xx/5xx range for all codes are Lean theorems (unbounded). The model is tied to the code by regenerating its tables from the Go source on every run and by running model and implementation on the same inputs (all byte strings up to length 2, 3 in the thorough tier; codes 0..70000 plus powers of two and random; structured decoder inputs).",
    "level_note": "Trusted: Lean kernel, the go/ast table extractor, the differential harness (reach bounded by its generators), Go's strconv/fmt/base64 behaviour as sampled. Totality is by construction in the model (total functions, explicit error outcome) and by recover() around every implementation call.",
    "assumptions": [
        "the model's strconv.ParseInt/FormatInt/base64 fragments match Go's (validated by the codec stream on every run, not proved)",
    ],
    "rule": "stream codec: code.str for 0..70000, 2^k±1, random 32-bit; code.parse for names, near-names, code_N forms, junk; code.http through a real unary handler; http.code through real clients for 100..599; pct.enc/pct.dec/b64.enc/b64.dec for ALL byte strings up to length 2 (3 thorough) plus long random and structured decoder inputs. distinct_nontrivial counts distinct op lines.",
}

PROPS["C10"] = {
    "title": "Deadlines propagate to the handler and are never extended",
    "lean_module": "ConnectProofs.C10",
    "theorems": [
        "ConnectModel.C10.grpc_encode_bound",
        "ConnectModel.C10.connect_encode_bound",
        "ConnectModel.C10.connect_too_large_none",
        "ConnectModel.C10.connect_sub_millisecond_sends_nothing",
        "ConnectModel.C10.grpc_parse_grammatical",
        "ConnectModel.C10.connect_parse_grammatical",
        "ConnectModel.C10.grpc_unknown_unit",
        "ConnectModel.C10.grpc_bad_number",
        "ConnectModel.C10.grpc_too_long",
        "ConnectModel.C10.connect_malformed",
        "ConnectModel.C10.no_header_no_deadline",
        "ConnectModel.C10.units_are",
    ],
    "streams": ["timeout"],
    "design_ref": "DESIGN.md §5 C10, §6 F8",
    "technique": "Lean 4 theorems over Int-nanosecond models of the gRPC / Connect timeout encoders and parsers (unit table regenerated from the Go source) + differential correspondence through the pinned internals, real handlers and real clients",
    "level_text": "Machine-checked proof of the encode/parse logic for all durations in (0, 2^63) ns and all header strings: the gRPC encoding is grammatical, never longer than the remaining time and shorter by < 0.01 %; the Connect encoding is exact to the millisecond, absent beyond 10 digits; grammatical timeouts are honoured exactly or as unbounded; the malformed classes are rejected. One clause is false on the code and recorded as a known finding with a Lean witness (F8: sub-millisecond remaining time sends no Connect timeout). Partial: that the handler's context really gets the deadline is context/net/http behaviour, sampled (handler-observed deadline snapped to the millisecond grid), not proved.",
    "level_note": "Trusted: Lean kernel; table extractor; differential harness; context.WithTimeout / time.Until (runtime); the harness brackets the clock around real client calls, so the Connect client-side encoder is checked up to the measured interval.",
    "assumptions": ["context.WithTimeout and net/http deliver the parsed timeout to the handler context (sampled by ctmo.serve / gtmo.serve)"],
    "not_proved": ["end-to-end propagation of the deadline into the handler's context (runtime behaviour; sampled)"],
    "rule": "stream timeout: gtmo.enc over every unit x digit-count boundary ±1/±half unit, extremes, 10k (300k thorough) random durations; gtmo.parse over grammatical (1..8 digits x 6 units), near-grammatical, byte-random and hour-overflow strings; the same headers through a real gRPC handler (user code must not run when rejected); Connect-Timeout-Ms headers through a real Connect handler with the handler-observed deadline; real Connect/gRPC clients with deadlines from 0.5 ms to 2^63 ns.",
}

PROPS["C03"] = {
    "title": "Decoding does not depend on how the transport segments the bytes",
    "lean_module": "ConnectProofs.C03",
    "theorems": [
        "ConnectModel.readLoop_spec",
        "ConnectModel.readExact_spec",
        "ConnectModel.Prog.run_sim",
        "ConnectModel.C03.prog_segmentation_independent",
        "ConnectModel.C03.prog_eq_flat",
        "ConnectModel.C03.recv_segmentation_independent",
        "ConnectModel.C03.read_segmentation_independent",
        "ConnectModel.C03.one_byte_at_a_time",
    ],
    "streams": ["seg"],
    "design_ref": "DESIGN.md §5 C03",
    "technique": "Lean 4 simulation proof: every receive path is a reading program over io.ReadFull/io.CopyN modelled on single Read calls of an arbitrarily chunked transport; one lemma (Prog.run_sim) shows any such program depends only on the flat bytes and the ending + differential correspondence of the real envelope reader under exhaustive/adversarial segmentations",
    "level_text": "Machine-checked proof, for all byte strings, all segmentations into non-empty reads, both EOF styles and all failure tails: the model of the library's read loops returns what the flat-bytes specification returns (readExact_spec, by induction over the chunk list), hence every reading program - envelope Read, Unmarshal, whole-direction receive, and whatever the protocol layers compute from them - is segmentation independent. The model is tied to the code by running the real envelopeReader (verif hook) on scripted readers with exactly the model's Read semantics: all 2^(n-1) segmentations x both EOF styles for bodies up to 13 bytes (16 thorough), 1-byte chunks, cuts inside every prefix and at payload boundaries ±1, random cuts, against the model's answer on the flat bytes and against one-piece delivery.",
    "level_note": "Trusted: Lean kernel; the harness' scripted reader; that io.ReadFull / io.CopyN / bytes.Buffer.ReadFrom behave as the modelled loop (sampled on every run). Unary bodies (ReadFrom to EOF) and the gRPC trailer drain are covered by the protocol-level streams, not by this envelope-level stream.",
    "assumptions": ["each Read returns at least one byte or an error (io.Reader contract; Script.wf)", "the transport's error is sticky once reported"],
    "rule": "stream seg: 10 small bodies (plain, empty, compressed, end-stream, trailer frames, incomplete prefix) x ALL segmentations x both EOF styles; 150 (2500 thorough) generated multi-frame bodies x {one piece, 1-byte chunks, adversarial cuts in every prefix and around every boundary, 6 random cut sets} x tails {eof, unexpected EOF, transport error, coded errors} x limits; each op is compared with the model on the flat bytes and with one-piece delivery.",
}
