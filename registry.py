"""Per-property registry: Lean module, registered theorems (audited with #print axioms),
correspondence streams, evidence texts. MANIFEST.json is generated from this (tools/mkmanifest.py)."""

TRUSTED_BASE = [
    "Lean 4.33.0 kernel (lake build; leanchecker re-check in the thorough tier)",
    "axioms: at most propext, Classical.choice, Quot.sound (audited per theorem with #print axioms; `decide +kernel` is kernel evaluation and adds no axiom; no native_decide / bv_decide / sorry)",
    "translator /verif/tools/extract (go/ast): regenerates lean/ConnectModel/Gen/Tables.lean from /repo on every run",
    "correspondence check /verif/harness + lean/Driver (line protocol, canary per stream): the hand-written model is tied to the code by differential testing, so its reach is bounded by the generators (input distribution is in this file)",
    "Go toolchain/runtime and the standard/third-party libraries behind the model's parameters (net/http, encoding/json, protobuf, compress/gzip, sync, io)",
]

PROPS = {}

PROPS["C18"] = {
    "title": "The small wire codecs are total, lossless and header-safe",
    "lean_module": "ConnectProofs.C18",
    "theorems": [
        "ConnectModel.C18.code_text_roundtrip",
        "ConnectModel.C18.code_text_rejects",
        "ConnectModel.C18.code_text_named_not_numeric",
        "ConnectModel.C18.percent_roundtrip",
        "ConnectModel.C18.percent_printable",
        "ConnectModel.C18.percent_identity_on_plain",
        "ConnectModel.C18.binary_header_roundtrip",
        "ConnectModel.C18.binary_header_roundtrip_padded",
        "ConnectModel.C18.code_http_range",
        "ConnectModel.C18.tables_inverse",
        "ConnectModel.C18.names_cover_range",
    ],
    "streams": ["codec"],
    "design_ref": "DESIGN.md §5 C18",
    "technique": "Lean 4 theorems over a byte-exact model (code text, percent-encoding, base64 header codecs; tables regenerated from the Go source) + exhaustive/differential correspondence with the real functions",
    "level_text": "Machine-checked proof: round-trip of the code text form for all 2^32 values, rejection characterisation, percent-encoding round-trip/printability for all byte strings, binary-header round-trip (raw and padded) for all byte strings, and the 4xx/5xx range for all codes are Lean theorems (unbounded). The model is tied to the code by regenerating its tables from the Go source on every run and by running model and implementation on the same inputs (all byte strings up to length 2, 3 in the thorough tier; codes 0..70000 plus powers of two and random; structured decoder inputs).",
    "level_note": "Trusted: Lean kernel, the go/ast table extractor, the differential harness (reach bounded by its generators), Go's strconv/fmt/base64 behaviour as sampled. Totality is by construction in the model (total functions, explicit error outcome) and by recover() around every implementation call.",
    "assumptions": [
        "the model's strconv.ParseInt/FormatInt/base64 fragments match Go's (validated by the codec stream on every run, not proved)",
    ],
    "rule": "stream codec: code.str for 0..70000, 2^k±1, random 32-bit; code.parse for names, near-names, code_N forms, junk; code.http through a real unary handler; http.code through real clients for 100..599; pct.enc/pct.dec/b64.enc/b64.dec for ALL byte strings up to length 2 (3 thorough) plus long random and structured decoder inputs. distinct_nontrivial counts distinct op lines.",
}

PROPS["C10"] = {
    "title": "Deadlines propagate to the handler and are never extended",
    "lean_module": "ConnectProofs.C10",
    "theorems": [
        "ConnectModel.C10.grpc_encode_bound",
        "ConnectModel.C10.connect_encode_bound",
        "ConnectModel.C10.connect_too_large_none",
        "ConnectModel.C10.connect_sub_millisecond_sends_nothing",
        "ConnectModel.C10.grpc_parse_grammatical",
        "ConnectModel.C10.connect_parse_grammatical",
        "ConnectModel.C10.grpc_unknown_unit",
        "ConnectModel.C10.grpc_bad_number",
        "ConnectModel.C10.grpc_too_long",
        "ConnectModel.C10.connect_malformed",
        "ConnectModel.C10.no_header_no_deadline",
        "ConnectModel.C10.units_are",
    ],
    "streams": ["timeout"],
    "design_ref": "DESIGN.md §5 C10, §6 F8",
    "technique": "Lean 4 theorems over Int-nanosecond models of the gRPC / Connect timeout encoders and parsers (unit table regenerated from the Go source) + differential correspondence through the pinned internals, real handlers and real clients",
    "level_text": "Machine-checked proof of the encode/parse logic for all durations in (0, 2^63) ns and all header strings: the gRPC encoding is grammatical, never longer than the remaining time and shorter by < 0.01 %; the Connect encoding is exact to the millisecond, absent beyond 10 digits; grammatical timeouts are honoured exactly or as unbounded; the malformed classes are rejected. One clause is false on the code and recorded as a known finding with a Lean witness (F8: sub-millisecond remaining time sends no Connect timeout). Partial: that the handler's context really gets the deadline is context/net/http behaviour, sampled (handler-observed deadline snapped to the millisecond grid), not proved.",
    "level_note": "Trusted: Lean kernel; table extractor; differential harness; context.WithTimeout / time.Until (runtime); the harness brackets the clock around real client calls, so the Connect client-side encoder is checked up to the measured interval.",
    "assumptions": ["context.WithTimeout and net/http deliver the parsed timeout to the handler context (sampled by ctmo.serve / gtmo.serve)"],
    "not_proved": ["end-to-end propagation of the deadline into the handler's context (runtime behaviour; sampled)"],
    "rule": "stream timeout: gtmo.enc over every unit x digit-count boundary ±1/±half unit, extremes, 10k (300k thorough) random durations; gtmo.parse over grammatical (1..8 digits x 6 units), near-grammatical, byte-random and hour-overflow strings; the same headers through a real gRPC handler (user code must not run when rejected); Connect-Timeout-Ms headers through a real Connect handler with the handler-observed deadline; real Connect/gRPC clients with deadlines from 0.5 ms to 2^63 ns.",
}

PROPS["C03"] = {
    "title": "Decoding does not depend on how the transport segments the bytes",
    "lean_module": "ConnectProofs.C03",
    "theorems": [
        "ConnectModel.readLoop_spec",
        "ConnectModel.readExact_spec",
        "ConnectModel.Prog.run_sim",
        "ConnectModel.C03.prog_segmentation_independent",
        "ConnectModel.C03.prog_eq_flat",
        "ConnectModel.C03.recv_segmentation_independent",
        "ConnectModel.C03.read_segmentation_independent",
        "ConnectModel.C03.one_byte_at_a_time",
    ],
    "streams": ["seg"],
    "design_ref": "DESIGN.md §5 C03",
    "technique": "Lean 4 simulation proof: every receive path is a reading program over io.ReadFull/io.CopyN modelled on single Read calls of an arbitrarily chunked transport; one lemma (Prog.run_sim) shows any such program depends only on the flat bytes and the ending + differential correspondence of the real envelope reader under exhaustive/adversarial segmentations",
    "level_text": "Machine-checked proof, for all byte strings, all segmentations into non-empty reads, both EOF styles and all failure tails: the model of the library's read loops returns what the flat-bytes specification returns (readExact_spec, by induction over the chunk list), hence every reading program - envelope Read, Unmarshal, whole-direction receive, and whatever the protocol layers compute from them - is segmentation independent. The model is tied to the code by running the real envelopeReader (verif hook) on scripted readers with exactly the model's Read semantics: all 2^(n-1) segmentations x both EOF styles for bodies up to 13 bytes (16 thorough), 1-byte chunks, cuts inside every prefix and at payload boundaries ±1, random cuts, against the model's answer on the flat bytes and against one-piece delivery.",
    "level_note": "Trusted: Lean kernel; the harness' scripted reader; that io.ReadFull / io.CopyN / bytes.Buffer.ReadFrom behave as the modelled loop (sampled on every run). Unary bodies (ReadFrom to EOF) and the gRPC trailer drain are covered by the protocol-level streams, not by this envelope-level stream.",
    "assumptions": ["each Read returns at least one byte or an error (io.Reader contract; Script.wf)", "the transport's error is sticky once reported"],
    "rule": "stream seg: 10 small bodies (plain, empty, compressed, end-stream, trailer frames, incomplete prefix) x ALL segmentations x both EOF styles; 150 (2500 thorough) generated multi-frame bodies x {one piece, 1-byte chunks, adversarial cuts in every prefix and around every boundary, 6 random cut sets} x tails {eof, unexpected EOF, transport error, coded errors} x limits; each op is compared with the model on the flat bytes and with one-piece delivery.",
}

PROPS["C01"] = {
    "title": "Every message sent is received intact, in order, exactly once",
    "lean_module": "ConnectProofs.C01",
    "theorems": [
        "ConnectModel.envRead_frame",
        "ConnectModel.C01.unmarshal_marshal",
        "ConnectModel.C01.recvAll_prefix",
        "ConnectModel.C01.stream_roundtrip_flat",
        "ConnectModel.C01.stream_roundtrip",
        "ConnectModel.C01.compress_flag_iff",
    ],
    "streams": ["roundtrip"],
    "design_ref": "DESIGN.md §5 C01, §6 F1",
    "technique": "Lean 4 refinement proof: envelopeWriter.Marshal followed by envelopeReader.Unmarshal (fresh message per call) yields the messages sent, for any codec/compressor satisfying their laws, any compressMinBytes, any segmentation + differential correspondence of the real envelope writer/reader and end-to-end calls through the public API",
    "level_text": "Machine-checked proof at the envelope layer (shared by all three protocols and both directions): for every finite message sequence, codec and compression algorithm obeying the round-trip laws, any compress-min-bytes (negative included) and any transport segmentation, the receive loop yields exactly the sent values in order - the zero-length shortcut delivering the zero value into the fresh per-Receive message - and then the clean end of stream. The model is tied to the code by running the real envelopeWriter/envelopeReader (verif hook) and, at the protocol level, real client<->handler calls over the public API in all protocols/kinds (stream e2e).",
    "level_note": "Trusted: Lean kernel; codec/compressor laws (proto, protojson, gzip are sampled, not proved); harness. Pooled-buffer aliasing is invisible in a value model: C13 covers it (buffers are poisoned on release under the verif tag, so an alias shows up here as a payload mismatch). HTTP-version specific behaviour is net/http's.",
    "assumptions": ["Codec: unmarshal(marshal v) = v and only the zero value has the empty encoding", "Compressor: decompress(compress b) = b and compress b = [] only for b = []", "payload lengths < 2^32"],
    "rule": "stream roundtrip: 500 (8000 thorough) generated message sequences (0..6 messages; sizes 0,1,2..5, up to 1500; zero-valued messages forced after non-zero ones; runs that compress well) x {no compression, RLE} x compress-min-bytes in {-1,0,1,3,10,100,1024} x optional terminator envelope; the wire bytes are compared with the model, then read back under a random segmentation and compared with the model and with what was written.",
}

PROPS["C04"] = {
    "title": "A call succeeds only if the peer's end-of-stream marker arrived",
    "lean_module": "ConnectProofs.C04",
    "theorems": [
        "ConnectModel.C04.cut_inside_prefix",
        "ConnectModel.C04.cut_inside_payload",
        "ConnectModel.C04.failure_at_boundary",
        "ConnectModel.C04.clean_end_only_at_boundary",
        "ConnectModel.C04.truncated_stream",
    ],
    "streams": ["cut"],
    "design_ref": "DESIGN.md §5 C04, §6 F2/F3",
    "technique": "Lean 4 theorems over the envelope reader model: any cut strictly inside a frame and any transport failure yields an error that does not wrap io.EOF, after exactly the messages sent before it + differential correspondence of the real envelope reader at every cut offset x endings, and protocol-level cut/terminator checks through real clients",
    "level_text": "Machine-checked proof at the envelope layer for every cut offset and every ending (clean EOF, unexpected EOF, transport error, coded error): a stream that stops inside the 5-byte prefix or inside a payload, or that fails at a frame boundary, makes Read fail with an error that does not wrap io.EOF (so handlers never see a clean end and clients never report success), the messages delivered before are exactly those sent before; only a clean EOF at a frame boundary is the end-of-stream result. Partial: the protocol-level terminators (gRPC trailers, gRPC-Web trailer frame, Connect end-stream envelope) are checked by the protocol-level stream through real clients with every cut offset, not yet as Lean theorems; write failures are sampled.",
    "level_note": "Trusted: Lean kernel; harness; net/http's framing for unary Connect bodies (a clean EOF at a cut offset is indistinguishable from a shorter complete body). 'Nothing hangs' is C14.",
    "assumptions": ["the only EOF-wrapping coded error a body read can return is the one the library installs after the terminator was seen (PlainTail)"],
    "not_proved": ["protocol-level terminator logic as Lean theorems (covered by the differential stream)", "k-th write failure"],
    "rule": "stream cut: 120 (1500 thorough) generated bodies (0..5 frames, plain/RLE) x EVERY cut offset 0..len x {clean EOF at every offset; unexpected EOF and transport error at every third offset and at the end} x random segmentation; oracle: clean end only at a frame boundary with clean EOF, delivered messages are a prefix of those sent, code non-zero.",
}

PROPS["C09"] = {
    "title": "Read limits are enforced exactly, before a message reaches user code",
    "lean_module": "ConnectProofs.C09",
    "theorems": [
        "ConnectModel.C09.payloadLoop_length",
        "ConnectModel.C09.read_within_limit",
        "ConnectModel.C09.oversize_wire_rejected",
        "ConnectModel.C09.decompress_within_limit",
        "ConnectModel.C09.decompressed_oversize_rejected",
        "ConnectModel.C09.no_oversize_delivery",
    ],
    "streams": ["limit"],
    "design_ref": "DESIGN.md §5 C09",
    "technique": "Lean 4 theorems over the envelope reader model with a ghost buffer counter: for any bytes a peer sends, nothing decoded from more than N bytes is delivered and at most 2N+1 bytes are buffered per message + differential correspondence of the real envelope reader (sizes around N, lying prefixes, expanding payloads) and allocation measurements with gzip bombs",
    "level_text": "Machine-checked proof for all N >= 1 and all byte strings/endings a peer can send: a frame returned by Read has at most N payload bytes and the buffer is grown by at most N (the limit check precedes Grow, so a lying prefix allocates nothing); decompression hands at most N bytes to the codec and buffers at most N+1; hence a delivered message was decoded from at most N bytes and at most 2N+1 bytes were buffered for it; a frame of more than N wire bytes, or expanding to more than N, is rejected with invalid_argument at any stream position. Acceptance of everything within N is C01's round-trip theorem (hypothesis Fits). The ghost counter is tied to the code by allocation measurements (runtime.MemStats) on lying prefixes and a 24 MiB gzip bomb.",
    "level_note": "Trusted: Lean kernel; harness; that bytes.Buffer.Grow / ReadFrom(LimitReader) allocate what the ghost counter says (sampled by allocation measurement, threshold 8N + 3*len(input) + 1 MiB). Unary Connect bodies (LimitReader on the body) are checked at the protocol level.",
    "assumptions": ["a streaming decompressor yields its output incrementally (gzip does)"],
    "rule": "stream limit: N in {1,2,5,16,100,255,256,1024}(+4096,65536 thorough) x sizes {0,1,N-1,N,N+1,2N+3,10N} x {plain, RLE-compressed constant (tiny wire), RLE-compressed random} x stream position 0..2; lying prefixes (declared N+1 .. 2^32-1, multiples of 2^8/2^16/2^24, present 0..N bytes) x endings; 400 (6000) random mixes; gzip bomb + lying-prefix allocation probes.",
}

PROPS["C16"] = {
    "title": "Interceptors nest in declaration order however options are grouped",
    "lean_module": "ConnectProofs.C16",
    "theorems": [
        "ConnectModel.C16.wrap_eq",
        "ConnectModel.C16.chainWith_order",
        "ConnectModel.C16.applyOpts_order",
        "ConnectModel.C16.chain_flat",
        "ConnectModel.C16.grouping_irrelevant",
        "ConnectModel.C16.each_once",
        "ConnectModel.C16.effectiveOrder_eq",
        "ConnectModel.C16.nil_only_is_none",
    ],
    "streams": ["icpt"],
    "design_ref": "DESIGN.md §5 C16",
    "technique": "Lean 4 proof by mutual structural induction over arbitrary option trees: the chain built by chainWith/newChain wraps any function space in flat declaration order + differential correspondence with real clients/handlers built from generated option trees and instrumented interceptors",
    "level_text": "Machine-checked proof for every option tree (any grouping into WithInterceptors groups, any nesting depth of WithOptions/WithClientOptions/WithHandlerOptions, nil entries anywhere) and every function space (unary functions, streaming-client constructors, streaming handlers): the function the library calls is the declared interceptors wrapped in declaration order, first declared outermost, each exactly as often as declared, nil-only declarations wrap nothing. The model (chainWith's three branches, newChain's reversal and nil filter, the Wrap* loops) is tied to the code by running real clients and handlers built from generated option trees: all lists over 3 ids + nil up to length 4 (6 thorough), all compositions into consecutive groups, random nestings, on clients and handlers, unary and streaming, plus sub-sliced/reused option values.",
    "level_note": "Trusted: Lean kernel; harness. Go slice aliasing (append on a caller's slice) is outside a value model; the alias probe (groups built from sub-slices of one backing array, option values used twice) covers it by testing.",
    "rule": "stream icpt: every interceptor list over {1,2,3,nil} up to length 4 (6) x all compositions into consecutive WithInterceptors groups (lists up to 4) x 3 (8) random nestings to depth 3 with WithOptions/WithClientOptions/WithHandlerOptions and non-interceptor options interleaved x {client, handler} x {unary, streaming}; event logs of instrumented interceptors (request/creation order, response order, per-message send/receive order on streams).",
}

PROPS["C19"] = {
    "title": "Handler panics are converted by WithRecover exactly as configured",
    "lean_module": "ConnectProofs.C19",
    "theorems": [
        "ConnectModel.C19.recover_once",
        "ConnectModel.C19.recover_nil",
        "ConnectModel.C19.abort_repanics",
        "ConnectModel.C19.no_panic_transparent",
        "ConnectModel.C19.client_only_passthrough",
        "ConnectModel.C19.unary_handler_eq_streaming",
        "ConnectModel.C19.exactly_once_or_never",
        "ConnectModel.C19.position",
    ],
    "streams": ["panic"],
    "design_ref": "DESIGN.md §5 C19",
    "technique": "Lean 4 theorems over a model of the deferred-recover frame of recover.go (panicked flag, recover, re-panic of the sentinel) composed with C16's chain theorem for the interceptor position + differential correspondence with real handlers panicking at scripted points",
    "level_text": "Machine-checked proof over the model of the recover frame: any panic value other than http.ErrAbortHandler (nil included) leads to exactly one recovery call with that value and the wrapper returns the recovery function's error; the sentinel is re-raised without a recovery call; non-panicking calls are untouched; on the client side the unary wrapper is the identity; with interceptors pre ++ [recover] ++ post the recover frame sits inside pre and outside post (via C16). Go's defer/recover semantics for one frame is the modelled parameter. The tie runs real handlers of all four kinds in all three protocols, panicking with nil / error / string / struct / int / a wrapped sentinel / a *connect.Error / the sentinel, before the first receive, between sends and after the last send, with 0-2 interceptors before and after WithRecover, and checks recovery calls, the recovered value, the client-visible error and sentinel propagation out of ServeHTTP; plus clean-call/panic sequences on one handler.",
    "level_note": "Trusted: Lean kernel; harness; Go's panic/defer/recover semantics (the harness module declares go 1.18 like /repo so that panic(nil) recovers as nil).",
    "rule": "stream panic: 4 kinds x 3 protocols x {no panic, nil, sentinel, 6 other values} x 3 panic points x random 0..2 interceptors before/after WithRecover (exhaustive over the first four dimensions); sequence probes (clean, panic, clean, panic) per kind.",
}

PROPS["C12"] = {
    "title": "Requests are dispatched by method, HTTP version and Content-Type as advertised",
    "lean_module": "ConnectProofs.C12",
    "theorems": [
        "ConnectModel.C12.guard_505",
        "ConnectModel.C12.guard_405",
        "ConnectModel.C12.guard_415",
        "ConnectModel.C12.serve_iff",
        "ConnectModel.C12.advertised_eq_accepted",
        "ConnectModel.C12.advertised_characterised",
        "ConnectModel.C12.codec_lookup_defined",
        "ConnectModel.C12.procedure_agrees",
    ],
    "streams": ["disp"],
    "design_ref": "DESIGN.md §5 C12",
    "technique": "Lean 4 theorems over a model of ServeHTTP's guards, the per-protocol content-type sets, Accept-Post and extractProtoPath (constants regenerated from the Go source) + differential correspondence through real handlers and clients",
    "level_text": "Machine-checked proof of the dispatch decision table (505 before 405 before 415; a protocol handler is reached iff none applies), of advertised = accepted for every Content-Type string and every codec set, of the shape of that set (three prefixes x codec names + bare gRPC types iff proto is registered), that the codec lookup for an accepted type never misses, and that the client-side procedure derived from any base URL + '/svc/method' equals the handler's. The model is tied to the code by sweeping methods x HTTP versions x Content-Types (every advertised one, 11 near-misses each, junk) x codec sets x 4 kinds through real handlers with counters in user code and an interceptor, and URL shapes through extractProtoPath and a real client's interceptor.",
    "level_note": "Trusted: Lean kernel; table extractor (content-type prefixes); harness. 'Exactly once' is observed (counters), the model claims it only up to the selection of the protocol handler; timeouts/negotiation rejections after selection are C07/C08/C10.",
    "rule": "stream disp: 4 kinds x 4 codec sets x {every advertised Content-Type and 11 mutations of each, 11 fixed junk types, 6 random} x random method (15% non-POST) and HTTP version; all 12 methods x 4 versions on a valid type; 219 URL shapes through extractProtoPath, 212 through a real client's Spec.",
}

PROPS["C08"] = {
    "title": "Compression is negotiated so both sides can decode, and is lossless",
    "lean_module": "ConnectProofs.C08",
    "theorems": [
        "ConnectModel.C08.names_advertised",
        "ConnectModel.C08.names_order",
        "ConnectModel.C08.negotiate_unknown",
        "ConnectModel.C08.negotiate_sound",
        "ConnectModel.C08.negotiate_prefers_first",
        "ConnectModel.C08.negotiate_compressed_request",
        "ConnectModel.C08.encoding_header_names_choice",
        "ConnectModel.C01.compress_flag_iff",
        "ConnectModel.C01.unmarshal_marshal",
    ],
    "streams": ["neg"],
    "design_ref": "DESIGN.md §5 C08",
    "technique": "Lean 4 theorems over models of newReadOnlyCompressionPools and negotiateCompression (+ the envelope writer/reader round-trip of C01 for losslessness and the threshold) + differential correspondence through real handlers with toy algorithms and real clients",
    "level_text": "Machine-checked proof for all registration orders, sent and accept strings: the advertised list is the registered names, each once, most recently registered first; the response algorithm is identity or registered, equals the request's algorithm when the request was compressed, otherwise is the first accept entry the handler supports; an unsupported request algorithm is the unimplemented error listing the advertised names; streaming Connect and gRPC name the choice in their encoding header iff it is not identity; the compressed flag is set iff a pool is configured and the payload is at least compress-min-bytes; every compressed message decompresses to the original (C01). Partial: pool isolation under corrupt input and 'user code does not run' are checked by the harness (probe with corrupt then concurrent valid calls; run counters), not proved.",
    "level_note": "Trusted: Lean kernel; harness; compressor laws. The reading of 'most-preferred' follows gRPC's asymmetric-compression rule cited by the code (DESIGN §5 C08).",
    "not_proved": ["isolation of shared (de)compressor pools after a corrupt message (sampled)"],
    "rule": "stream neg: 7 registration orders (default gzip + toy names, repeats) x all ordered accept lists of 1..3 names from a 4-name universe (both separators) + junk x 3 protocols x {unary, stream} with a decoy header of the other layer; 8 sent values x 3 protocols x 2 kinds; client threshold: 3 protocols x 2 kinds x 6 minima x sizes around them x send-compression on/off; pool-isolation probe (gzip, rle).",
}
