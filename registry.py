"""Per-property registry: Lean module, registered theorems (audited with #print axioms),
correspondence streams, evidence texts. MANIFEST.json is generated from this (tools/mkmanifest.py)."""

TRUSTED_BASE = [
    "Lean 4.33.0 kernel (lake build; leanchecker re-check in the thorough tier)",
    "axioms: at most propext, Classical.choice, Quot.sound (audited per theorem with #print axioms; `decide +kernel` is kernel evaluation and adds no axiom; no native_decide / bv_decide / sorry)",
    "translator /verif/tools/extract (go/ast): regenerates lean/ConnectModel/Gen/Tables.lean from /repo on every run",
    "correspondence check /verif/harness + lean/Driver (line protocol, canary per stream): the hand-written model is tied to the code by differential testing, so its reach is bounded by the generators (input distribution is in this file)",
    "Go toolchain/runtime and the standard/third-party libraries behind the model's parameters (net/http, encoding/json, protobuf, compress/gzip, sync, io)",
]

PROPS = {}

PROPS["C18"] = {
    "title": "The small wire codecs are total, lossless and header-safe",
    "lean_module": "ConnectProofs.C18",
    "theorems": [
        "ConnectModel.C18.code_text_roundtrip",
        "ConnectModel.C18.code_text_rejects",
        "ConnectModel.C18.code_text_named_not_numeric",
        "ConnectModel.C18.percent_roundtrip",
        "ConnectModel.C18.percent_printable",
        "ConnectModel.C18.percent_identity_on_plain",
        "ConnectModel.C18.binary_header_roundtrip",
        "ConnectModel.C18.binary_header_roundtrip_padded",
        "ConnectModel.C18.code_http_range",
        "ConnectModel.C18.tables_inverse",
        "ConnectModel.C18.names_cover_range",
    ],
    "streams": ["codec"],
    "design_ref": "DESIGN.md §5 C18",
    "technique": "Lean 4 theorems over a byte-exact model (code text, percent-encoding, base64 header codecs; tables regenerated from the Go source) + exhaustive/differential correspondence with the real functions",
    "level_text": "Machine-checked proof: round-trip of the code text form for all 2^32 values, rejection characterisation, percent-encoding round-trip/printability for all byte strings, binary-header round-trip (raw and padded) for all byte strings, and the 4xx/5xx range for all codes are Lean theorems (unbounded). The model is tied to the code by regenerating its tables from the Go source on every run and by running model and implementation on the same inputs (all byte strings up to length 2, 3 in the thorough tier; codes 0..70000 plus powers of two and random; structured decoder inputs).",
    "level_note": "Trusted: Lean kernel, the go/ast table extractor, the differential harness (reach bounded by its generators), Go's strconv/fmt/base64 behaviour as sampled. Totality is by construction in the model (total functions, explicit error outcome) and by recover() around every implementation call.",
    "assumptions": [
        "the model's strconv.ParseInt/FormatInt/base64 fragments match Go's (validated by the codec stream on every run, not proved)",
    ],
    "rule": "stream codec: code.str for 0..70000, 2^k±1, random 32-bit; code.parse for names, near-names, code_N forms, junk; code.http through a real unary handler; http.code through real clients for 100..599; pct.enc/pct.dec/b64.enc/b64.dec for ALL byte strings up to length 2 (3 thorough) plus long random and structured decoder inputs. distinct_nontrivial counts distinct op lines.",
}
