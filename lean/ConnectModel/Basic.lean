/-
  ConnectModel.Basic — byte strings, ASCII helpers, decimal and hexadecimal
  printing/parsing as Go's strconv does it (the fragments connect-go relies on).

  Go strings are byte strings, so everything on the wire is `Bytes = List UInt8`.
-/
namespace ConnectModel

abbrev Bytes := List UInt8

/-- ASCII bytes of a Lean string literal (used for constants extracted from the Go source). -/
def str (s : String) : Bytes := s.toUTF8.toList  -- driver/IO use only; theorems use byte-list constants

/-! ## Decimal -/

/-- ASCII digit for `d < 10`. -/
def digitByte (d : Nat) : UInt8 := UInt8.ofNat (48 + d)

def isDigit (b : UInt8) : Bool := 48 ≤ b.toNat && b.toNat ≤ 57

def digitVal (b : UInt8) : Nat := b.toNat - 48

/-- `strconv.FormatUint(n, 10)` / `Itoa` for non-negative `n`. -/
def showDec (n : Nat) : Bytes :=
  if n < 10 then [digitByte n] else showDec (n / 10) ++ [digitByte (n % 10)]
termination_by n
decreasing_by omega

/-- Value of a digit string read left to right, starting from `acc`; `none` on a non-digit. -/
def parseDigits : Bytes → Nat → Option Nat
  | [], acc => some acc
  | b :: bs, acc => if isDigit b then parseDigits bs (acc * 10 + digitVal b) else none

/-- Unsigned decimal literal: one or more digits (leading zeros allowed, as in Go). -/
def parseDec (bs : Bytes) : Option Nat :=
  match bs with
  | [] => none
  | _ => parseDigits bs 0

/-- `strconv.FormatInt(i, 10)`. -/
def showInt (i : Int) : Bytes :=
  if i < 0 then 45 :: showDec i.natAbs else showDec i.toNat

/-- `strconv.ParseInt(s, 10, 64)`: optional sign, digits, range check. `none` = error. -/
def parseInt64 (bs : Bytes) : Option Int :=
  match bs with
  | [] => none
  | 43 :: rest => (parseDec rest).bind fun n => if n < 2 ^ 63 then some (n : Int) else none
  | 45 :: rest => (parseDec rest).bind fun n => if n ≤ 2 ^ 63 then some (-(n : Int)) else none
  | _ => (parseDec bs).bind fun n => if n < 2 ^ 63 then some (n : Int) else none

/-- `strconv.ParseUint(s, 10, 32)`: digits only (no sign), value below 2^32. -/
def parseUint32 (bs : Bytes) : Option Nat :=
  (parseDec bs).bind fun n => if n < 2 ^ 32 then some n else none

/-! ## Hexadecimal -/

/-- Upper-case hex digit for `d < 16` (`%02X`). -/
def hexByte (d : Nat) : UInt8 := if d < 10 then UInt8.ofNat (48 + d) else UInt8.ofNat (55 + d)

/-- Hex digit value as `strconv.ParseUint(_, 16, _)` accepts it (both cases). -/
def hexVal (b : UInt8) : Option Nat :=
  let n := b.toNat
  if 48 ≤ n && n ≤ 57 then some (n - 48)
  else if 65 ≤ n && n ≤ 70 then some (n - 55)
  else if 97 ≤ n && n ≤ 102 then some (n - 87)
  else none

/-! ## Big-endian uint32 (envelope prefix) -/

def be32 (n : Nat) : Bytes :=
  [UInt8.ofNat (n / 16777216 % 256), UInt8.ofNat (n / 65536 % 256), UInt8.ofNat (n / 256 % 256), UInt8.ofNat (n % 256)]

def fromBe32 (a b c d : UInt8) : Nat :=
  a.toNat * 16777216 + b.toNat * 65536 + c.toNat * 256 + d.toNat

/-! ## Misc list helpers -/

def startsWith (p s : Bytes) : Bool := p.isPrefixOf s

/-- Hex rendering used by the line protocol (lower case). -/
def toHex (bs : Bytes) : String :=
  let hexChar (d : Nat) : Char := if d < 10 then Char.ofNat (48 + d) else Char.ofNat (87 + d)
  String.ofList (bs.flatMap fun b => [hexChar (b.toNat / 16), hexChar (b.toNat % 16)])

def fromHexChars : List Char → Option Bytes
  | [] => some []
  | [_] => none
  | a :: b :: rest =>
    match hexVal (UInt8.ofNat a.toNat), hexVal (UInt8.ofNat b.toNat), fromHexChars rest with
    | some x, some y, some r => if a.toNat < 128 && b.toNat < 128 then some (UInt8.ofNat (x * 16 + y) :: r) else none
    | _, _, _ => none

def fromHex (s : String) : Option Bytes := fromHexChars s.toList

end ConnectModel
