/-
  ConnectModel.Dispatch — handler.go `ServeHTTP` guards, the per-protocol content-type sets
  (`NewHandler` of protocol_connect.go / protocol_grpc.go), `sortedAcceptPostValue`, the codec
  lookup in `NewConn`, and protobuf_util.go `extractProtoPath`.
-/
import ConnectModel.Basic
import ConnectModel.Gen.Tables

namespace ConnectModel

inductive StreamKind where
  | unary | client | server | bidi
  deriving DecidableEq, Repr

inductive Proto where
  | connect | grpc | grpcWeb
  deriving DecidableEq, Repr

structure HandlerCfg where
  kind : StreamKind
  codecs : List Bytes          -- registered codec names (keys of a Go map: pairwise distinct)
  handleGRPC : Bool
  handleGRPCWeb : Bool

/-- `protocolConnect.NewHandler`: content types served -/
def connectTypes (cfg : HandlerCfg) : List Bytes :=
  cfg.codecs.map fun n =>
    (if cfg.kind = .unary then Gen.connectUnaryContentTypePrefix else Gen.connectStreamingContentTypePrefix) ++ n

/-- `protocolGRPC.NewHandler`: prefix+name for every codec, plus the bare type if "proto" is registered -/
def grpcTypes (web : Bool) (cfg : HandlerCfg) : List Bytes :=
  cfg.codecs.map (fun n => (if web then Gen.grpcWebContentTypePrefix else Gen.grpcContentTypePrefix) ++ n) ++
  (if Gen.codecNameProto ∈ cfg.codecs then [if web then Gen.grpcWebContentTypeDefault else Gen.grpcContentTypeDefault] else [])

/-- `newProtocolHandlers`: Connect always, then gRPC, then gRPC-Web if enabled -/
def protocolHandlers (cfg : HandlerCfg) : List (Proto × List Bytes) :=
  [(.connect, connectTypes cfg)] ++
  (if cfg.handleGRPC then [(.grpc, grpcTypes false cfg)] else []) ++
  (if cfg.handleGRPCWeb then [(.grpcWeb, grpcTypes true cfg)] else [])

/-- the loop over `h.protocolHandlers` in `ServeHTTP` -/
def selectProtocol (handlers : List (Proto × List Bytes)) (ct : Bytes) : Option Proto :=
  match handlers with
  | [] => none
  | (p, types) :: rest => if ct ∈ types then some p else selectProtocol rest ct

/-- bytewise lexicographic `<` on strings (Go string comparison) -/
def bytesLt : Bytes → Bytes → Bool
  | [], [] => false
  | [], _ :: _ => true
  | _ :: _, [] => false
  | a :: as, b :: bs => if a.toNat < b.toNat then true else if a.toNat > b.toNat then false else bytesLt as bs

/-- insertion into a sorted duplicate-free list -/
def insertSorted (x : Bytes) : List Bytes → List Bytes
  | [] => [x]
  | y :: ys => if x = y then y :: ys else if bytesLt x y then x :: y :: ys else y :: insertSorted x ys

/-- `sortedAcceptPostValue`: the union of all served types, as a set, sorted -/
def acceptPost (cfg : HandlerCfg) : List Bytes :=
  ((protocolHandlers cfg).flatMap (·.2)).foldr insertSorted []

/-- `strings.TrimPrefix` -/
def trimPrefix (pfx s : Bytes) : Bytes := if pfx.isPrefixOf s then s.drop pfx.length else s

/-- the codec name `NewConn` looks up for the selected protocol -/
def codecNameFor (cfg : HandlerCfg) (p : Proto) (ct : Bytes) : Bytes :=
  match p with
  | .connect =>
    trimPrefix (if cfg.kind = .unary then Gen.connectUnaryContentTypePrefix else Gen.connectStreamingContentTypePrefix) ct
  | .grpc => if ct = Gen.grpcContentTypeDefault then Gen.codecNameProto else trimPrefix Gen.grpcContentTypePrefix ct
  | .grpcWeb => if ct = Gen.grpcWebContentTypeDefault then Gen.codecNameProto else trimPrefix Gen.grpcWebContentTypePrefix ct

inductive Dispatch where
  | httpVersionNotSupported                    -- 505, nothing else
  | methodNotAllowed                           -- 405, Allow: POST
  | unsupportedMediaType (acceptPost : List Bytes)   -- 415, Accept-Post
  | serve (p : Proto) (codec : Bytes)          -- protocol handler selected; user code may run
  deriving DecidableEq, Repr

def methodPost : Bytes := [80, 79, 83, 84]

/-- `Handler.ServeHTTP` up to the selection of the protocol handler -/
def dispatch (cfg : HandlerCfg) (protoMajor : Nat) (method ct : Bytes) : Dispatch :=
  if cfg.kind = .bidi ∧ protoMajor < 2 then .httpVersionNotSupported
  else if method ≠ methodPost then .methodNotAllowed
  else match selectProtocol (protocolHandlers cfg) ct with
    | none => .unsupportedMediaType (acceptPost cfg)
    | some p => .serve p (codecNameFor cfg p ct)

/-! ## extractProtoPath -/

/-- `strings.Split(url, "/")` -/
def splitSlash : Bytes → List Bytes
  | [] => [[]]
  | c :: cs =>
    if c.toNat = 47 then [] :: splitSlash cs
    else match splitSlash cs with
      | h :: t => (c :: h) :: t
      | [] => [[c]]

/-- the last two segments (or the only one and "") -/
def lastTwo : List Bytes → Bytes × Bytes
  | [] => ([], [])
  | [a] => (a, [])
  | [a, b] => (a, b)
  | _ :: rest => lastTwo rest

def slash : Bytes := [47]

/-- `extractProtoPath` -/
def extractProtoPath (url : Bytes) : Bytes :=
  let (pkg, method) := lastTwo (splitSlash url)
  if pkg = [] then slash
  else if method = [] then slash ++ pkg
  else slash ++ pkg ++ slash ++ method

/-- `strings.TrimRight(baseURL, "/")` of the generated client constructor -/
def trimRightSlash (s : Bytes) : Bytes := (s.reverse.dropWhile (fun c => c.toNat = 47)).reverse

end ConnectModel
