/-
  ConnectModel.Envelope — envelope.go: `envelopeWriter.{Marshal,Write,write}` and
  `envelopeReader.{Read,Unmarshal}`, plus compression.go's `Decompress` limit logic.

  The reader is written once, *generically over the byte source* (`rd n st` = "obtain exactly
  `n` bytes or report why not", i.e. `io.ReadFull` / `io.CopyN`), and instantiated twice: with
  `readExact` over a chunked `Script` (what the code does) and with `takeExact` over the flat
  bytes (the specification view). C03 is the theorem that the two instantiations agree.
-/
import ConnectModel.Reader
import ConnectModel.Gen.Tables

namespace ConnectModel

/-! ## codec and compression parameters -/

/-- a `Codec` as the envelope layer sees it (`Val` = application messages) -/
structure Codec (Val : Type) where
  marshal : Val → Bytes
  unmarshal : Bytes → Option Val          -- `none` = Unmarshal returned an error

/-- what a (streaming) decompressor produces for an input: the bytes it yields before it stops,
    and whether it stopped cleanly (`false` = it reported an error after those bytes) -/
structure DecompressOut where
  out : Bytes
  clean : Bool

/-- a registered compression algorithm -/
structure Compressor where
  compress : Bytes → Bytes
  decompress : Bytes → DecompressOut

/-! ## errors as the envelope layer produces them -/

/-- the observable part of a `*connect.Error` at this layer -/
structure EnvErr where
  code : Nat
  wrapsEOF : Bool          -- `errors.Is(err, io.EOF)`: callers treat it as end of stream
  deriving DecidableEq, Repr

def codeUnknown : Nat := 2
def codeInvalidArgument : Nat := 3
def codeInternal : Nat := 13

/-- `asError(err)` else `errorf(code, "...: %w", err)` for a raw reader error that is not EOF -/
def wrapReaderErr (fallbackCode : Nat) : RErr → EnvErr
  | .coded c w => { code := c, wrapsEOF := w }
  | .eof => { code := fallbackCode, wrapsEOF := true }
  | _ => { code := fallbackCode, wrapsEOF := false }

/-! ## reading programs

  The reader is a *program over an abstract byte source*: it only ever asks the source for
  "exactly `n` bytes, or why not" (`io.ReadFull` / `io.CopyN`) and continues with the answer.
  `Prog.run` interprets such a program over any source. -/

inductive Prog (α : Type) where
  | done : α → Prog α
  | read : Nat → (Bytes → Option RErr → Prog α) → Prog α

def Prog.run {σ α : Type} (rd : Nat → σ → Bytes × Option RErr × σ) : Prog α → σ → α × σ
  | .done a, st => (a, st)
  | .read n k, st => (k (rd n st).1 (rd n st).2.1).run rd (rd n st).2.2

def Prog.bind {α β : Type} : Prog α → (α → Prog β) → Prog β
  | .done a, f => f a
  | .read n k, f => .read n fun b e => (k b e).bind f

/-! ## envelopeReader.Read -/

inductive ReadOutcome where
  | frame (flags : UInt8) (data : Bytes)
  | fail (e : EnvErr)
  deriving DecidableEq, Repr

/-- result of one `envelopeReader.Read`, with the ghost counter `grown` = capacity requested
    from the pooled buffer (`env.Data.Grow(size)`) -/
structure ReadResult where
  outcome : ReadOutcome
  grown : Nat
  deriving DecidableEq, Repr

/-- the `for remaining > 0 { io.CopyN(...) }` loop of `Read` (fuel = loop iterations; after an
    EOF the next `CopyN` returns 0 bytes, so 3 always suffices) -/
def payloadLoop : Nat → Nat → Bytes → Prog ReadOutcome
  | 0, _, _ => .done (.fail { code := codeUnknown, wrapsEOF := false })   -- not reached
  | fuel + 1, remaining, acc =>
    if remaining = 0 then .done (.frame 0 acc)
    else .read remaining fun b e =>
      match e with
      | some err =>
        if !err.isEOF then
          -- `asError(err)` or errorf(CodeUnknown, "read enveloped message: %w", err)
          .done (.fail (wrapReaderErr codeUnknown err))
        else if b.length = 0 then
          -- "promised %d bytes in enveloped message, got %d bytes" (no %w)
          .done (.fail { code := codeInvalidArgument, wrapsEOF := false })
        else payloadLoop fuel (remaining - b.length) (acc ++ b)
      | none => payloadLoop fuel (remaining - b.length) (acc ++ b)

/-- after the 5 prefix bytes arrived -/
def envReadBody (max : Nat) (pfx : Bytes) : Prog ReadResult :=
  match pfx with
  | [fl, a, b, c, d] =>
    let size := fromBe32 a b c d
    if size = 0 then .done { outcome := .frame fl [], grown := 0 }
    else if max > 0 ∧ size > max then
      -- io.CopyN(io.Discard, r.reader, size); only a non-EOF error changes the report
      .read size fun _ derr =>
        match derr with
        | some e =>
          if e.isEOF then .done { outcome := .fail { code := codeInvalidArgument, wrapsEOF := false }, grown := 0 }
          else
            -- fix F19: an error that already is a *connect.Error keeps its code
            match e with
            | .coded c w => .done { outcome := .fail { code := c, wrapsEOF := w }, grown := 0 }
            | _ => .done { outcome := .fail { code := codeUnknown, wrapsEOF := false }, grown := 0 }
        | none => .done { outcome := .fail { code := codeInvalidArgument, wrapsEOF := false }, grown := 0 }
    else
      (payloadLoop 3 size []).bind fun o =>
        match o with
        | .frame _ data => .done { outcome := .frame fl data, grown := size }
        | .fail e => .done { outcome := .fail e, grown := size }
  | _ => .done { outcome := .fail { code := codeInternal, wrapsEOF := false }, grown := 0 }  -- not reached

/-- `envelopeReader.Read(env)` with `readMaxBytes = max` (`0` = unlimited). -/
def envRead (max : Nat) : Prog ReadResult :=
  .read 5 fun pfx perr =>                                  -- io.ReadFull(r.reader, prefixes[:])
    match perr with
    | some err =>
      if err.isEOF && pfx.length = 0 then
        -- clean end of stream: NewError(CodeUnknown, err) — wraps io.EOF
        .done { outcome := .fail { code := codeUnknown, wrapsEOF := true }, grown := 0 }
      else
        match err with
        | .coded c w => .done { outcome := .fail { code := c, wrapsEOF := w }, grown := 0 }
        | _ =>
          -- io.ReadFull turned a partial prefix + EOF into ErrUnexpectedEOF; any EOF-like error
          -- left is replaced by ErrUnexpectedEOF: never looks like a clean end
          .done { outcome := .fail { code := codeInvalidArgument, wrapsEOF := false }, grown := 0 }
    | none => envReadBody max pfx

/-! ## compressionPool.Decompress with the read limit -/

inductive DecompressResult where
  | ok (data : Bytes)
  | fail                      -- always CodeInvalidArgument
  deriving DecidableEq, Repr

/-- `Decompress(dst, src, readMaxBytes)`: `dst.ReadFrom(io.LimitReader(decompressor, max+1))`,
    then the size check. Also returns the ghost count of bytes buffered in `dst`. -/
def decompressLimited (c : Compressor) (max : Nat) (data : Bytes) : DecompressResult × Nat :=
  let d := c.decompress data
  if max > 0 then
    if d.out.length ≥ max + 1 then (.fail, max + 1)        -- bytesRead > max: "message size … is larger than configured max"
    else if d.clean then (.ok d.out, d.out.length)
    else (.fail, d.out.length)                              -- "decompress: %w"
  else
    if d.clean then (.ok d.out, d.out.length) else (.fail, d.out.length)

/-! ## envelopeReader.Unmarshal -/

inductive RecvOutcome (Val : Type) where
  | msg (v : Option Val)                    -- `none`: zero-length shortcut — holder left untouched (fresh ⇒ zero value)
  | special (flags : UInt8) (data : Bytes)  -- errSpecialEnvelope; `last` = (flags, data)
  | fail (e : EnvErr)

structure RecvResult (Val : Type) where
  outcome : RecvOutcome Val
  buffered : Nat          -- ghost: bytes of pooled buffer space this message occupied

def isCompressed (fl : UInt8) : Bool := fl.toNat % 2 = 1        -- IsSet(flagEnvelopeCompressed)

structure ReaderCfg (Val : Type) where
  codec : Codec Val
  pool : Option Compressor         -- r.compressionPool
  max : Nat                        -- r.readMaxBytes (0 = unlimited)

/-- the part of `Unmarshal` after `Read` returned -/
def unmarshalFrame {Val : Type} (cfg : ReaderCfg Val) (r : ReadResult) : RecvResult Val :=
  match r.outcome with
  | .fail e => { outcome := .fail e, buffered := r.grown }
  | .frame fl data =>
    if (fl.toNat = 0 ∨ fl.toNat = Gen.flagCompressed) ∧ data.length = 0 then
      { outcome := .msg none, buffered := r.grown }
    else if data.length > 0 ∧ isCompressed fl then
      match cfg.pool with
      | none =>                                   -- "sent compressed message without …-Encoding header"
        { outcome := .fail { code := codeInvalidArgument, wrapsEOF := false }, buffered := r.grown }
      | some c =>
        match decompressLimited c cfg.max data with
        | (.fail, n) => { outcome := .fail { code := codeInvalidArgument, wrapsEOF := false }, buffered := r.grown + n }
        | (.ok d, n) =>
          if fl.toNat ≠ 0 ∧ fl.toNat ≠ Gen.flagCompressed then
            { outcome := .special fl d, buffered := r.grown + n }
          else
            match cfg.codec.unmarshal d with
            | some v => { outcome := .msg (some v), buffered := r.grown + n }
            | none => { outcome := .fail { code := codeInvalidArgument, wrapsEOF := false }, buffered := r.grown + n }
    else
      if fl.toNat ≠ 0 ∧ fl.toNat ≠ Gen.flagCompressed then
        { outcome := .special fl data, buffered := r.grown }
      else
        match cfg.codec.unmarshal data with
        | some v => { outcome := .msg (some v), buffered := r.grown }
        | none => { outcome := .fail { code := codeInvalidArgument, wrapsEOF := false }, buffered := r.grown }

/-- `envelopeReader.Unmarshal(message)` -/
def envUnmarshal {Val : Type} (cfg : ReaderCfg Val) : Prog (RecvResult Val) :=
  (envRead cfg.max).bind fun r => .done (unmarshalFrame cfg r)

/-! ## envelopeWriter -/

structure WriterCfg (Val : Type) where
  codec : Codec Val
  pool : Option Compressor          -- w.compressionPool
  minBytes : Int                    -- w.compressMinBytes

def envPrefix (fl : UInt8) (len : Nat) : Bytes := fl :: be32 len

/-- `envelopeWriter.Write(env)` followed by `write`: the bytes put on the wire. -/
def envWrite (pool : Option Compressor) (minBytes : Int) (fl : UInt8) (data : Bytes) : Bytes :=
  match pool with
  | none => envPrefix fl data.length ++ data
  | some c =>
    if isCompressed fl ∨ (data.length : Int) < minBytes then envPrefix fl data.length ++ data
    else
      let z := c.compress data
      envPrefix (UInt8.ofNat (fl.toNat ||| Gen.flagCompressed)) z.length ++ z

/-- `envelopeWriter.Marshal(message)` -/
def envMarshal {Val : Type} (cfg : WriterCfg Val) (v : Val) : Bytes :=
  envWrite cfg.pool cfg.minBytes 0 (cfg.codec.marshal v)

/-! ## receiving a whole direction: call `Unmarshal` until it fails -/

/-- what the application sees from one `Receive` -/
inductive Yield (Val : Type) where
  | msg (v : Option Val)
  | endSpecial (flags : UInt8) (data : Bytes)
  | fail (e : EnvErr)

/-- `Receive` in a loop until the first non-message result (fuel = an upper bound on the number
    of frames; `flat.length / 5 + 2` always suffices). Returns the yields in order, together with
    the largest per-message buffer use. -/
def recvAll {Val : Type} (cfg : ReaderCfg Val) : Nat → Prog (List (Yield Val) × Nat)
  | 0 => .done ([], 0)
  | fuel + 1 =>
    (envUnmarshal cfg).bind fun r =>
      match r.outcome with
      | .msg v => (recvAll cfg fuel).bind fun (ys, peak) => .done (.msg v :: ys, Nat.max r.buffered peak)
      | .special fl d => .done ([.endSpecial fl d], r.buffered)
      | .fail e => .done ([.fail e], r.buffered)

end ConnectModel
