/-
  ConnectModel.Header — net/http's `Header` multimap as the library uses it: a Go map from
  canonical keys to value lists. `mergeHeaders` (header.go), `http.CanonicalHeaderKey`, the
  `Trailer-` prefix mapping of unary Connect, and the gRPC-Web trailer block.
-/
import ConnectModel.Basic
import ConnectModel.Gen.Tables

namespace ConnectModel

/-- a Go `http.Header`: association list with pairwise distinct keys -/
abbrev Header := List (Bytes × List Bytes)

def Header.vals (h : Header) (k : Bytes) : List Bytes :=
  match h with
  | [] => []
  | (k', vs) :: rest => if k = k' then vs else Header.vals rest k

/-- `h.Get(k)` for a canonical `k`: first value or "" -/
def Header.get (h : Header) (k : Bytes) : Bytes := ((h.vals k).head?).getD []

/-- `h[k] = vs` -/
def Header.put (h : Header) (k : Bytes) (vs : List Bytes) : Header :=
  match h with
  | [] => [(k, vs)]
  | (k', vs') :: rest => if k = k' then (k, vs) :: rest else (k', vs') :: Header.put rest k vs

def Header.set (h : Header) (k v : Bytes) : Header := h.put k [v]
def Header.add (h : Header) (k v : Bytes) : Header := h.put k (h.vals k ++ [v])
def Header.del (h : Header) (k : Bytes) : Header := h.filter fun p => p.1 ≠ k

/-- `mergeHeaders(into, from)`: `into[k] = append(into[k], vals...)` for every key of `from` -/
def mergeHeaders (into frm : Header) : Header :=
  frm.foldl (fun acc p => acc.put p.1 (acc.vals p.1 ++ p.2)) into

/-- `setHeaders(into, from)` (fix F24): `into[k] = vals` for every key of `from` — unlike
    `mergeHeaders` it may be repeated. It is what the Connect and gRPC clients use to expose the
    response trailers, which a repeated `Receive` after the end of the stream reads again. -/
def setHeaders (into frm : Header) : Header :=
  frm.foldl (fun acc p => acc.put p.1 p.2) into

/-! ### http.CanonicalHeaderKey -/

def isTokenChar (c : UInt8) : Bool :=
  let n := c.toNat
  (48 ≤ n && n ≤ 57) || (65 ≤ n && n ≤ 90) || (97 ≤ n && n ≤ 122) ||
  n = 33 || n = 35 || n = 36 || n = 37 || n = 38 || n = 39 || n = 42 || n = 43 || n = 45 || n = 46 ||
  n = 94 || n = 95 || n = 96 || n = 124 || n = 126

def toUpper (c : UInt8) : UInt8 := if 97 ≤ c.toNat && c.toNat ≤ 122 then UInt8.ofNat (c.toNat - 32) else c
def toLower (c : UInt8) : UInt8 := if 65 ≤ c.toNat && c.toNat ≤ 90 then UInt8.ofNat (c.toNat + 32) else c

def canonAux : Bytes → Bool → Bytes
  | [], _ => []
  | c :: cs, upper => (if upper then toUpper c else toLower c) :: canonAux cs (c.toNat = 45)

/-- `textproto.CanonicalMIMEHeaderKey`: keys with a non-token byte are returned unchanged -/
def canonicalKey (k : Bytes) : Bytes := if k.all isTokenChar then canonAux k true else k

/-- canonicalise every key of a map coming from JSON (fix 76303df): values of keys that
    collide are appended -/
def canonicalizeKeys (h : Header) : Header :=
  h.foldl (fun acc p => acc.put (canonicalKey p.1) (acc.vals (canonicalKey p.1) ++ p.2)) []

/-! ### values in an HTTP/1 header block (`http.Header.Write` + `textproto` parsing) -/

def isOWS (c : UInt8) : Bool := c.toNat = 32 || c.toNat = 9

/-- `headerNewlineToSpace` then `textproto.TrimString`: what survives of a value written into the
    gRPC-Web trailer block and parsed back -/
def sanitizeValue (v : Bytes) : Bytes :=
  let v1 := v.map fun c => if c.toNat = 10 || c.toNat = 13 then (32 : UInt8) else c
  ((v1.dropWhile isOWS).reverse.dropWhile isOWS).reverse

def sanitizeBlock (h : Header) : Header := h.map fun p => (p.1, p.2.map sanitizeValue)

/-! ### the `Trailer-` prefix of unary Connect -/

def hasPrefix (pfx s : Bytes) : Bool := pfx.isPrefixOf s

/-- handler side: `header["Trailer-"+k] = v` for every trailer -/
def addTrailerPrefixed (header trailer : Header) : Header :=
  trailer.foldl (fun acc p => acc.put (Gen.connectUnaryTrailerPrefix ++ p.1) p.2) header

/-- client side: split the response headers into headers and (un-prefixed) trailers -/
def splitTrailerPrefixed (respHeader : Header) : Header × Header :=
  respHeader.foldl (fun (acc : Header × Header) p =>
    if hasPrefix Gen.connectUnaryTrailerPrefix p.1
    then (acc.1, acc.2.put (p.1.drop Gen.connectUnaryTrailerPrefix.length) p.2)
    else (acc.1.put p.1 p.2, acc.2)) ([], [])

end ConnectModel
