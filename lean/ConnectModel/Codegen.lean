/-
  ConnectModel.Codegen — cmd/protoc-gen-connect-go/main.go: the strings the generator derives
  from a service descriptor (procedure paths, mount prefix, client field identifiers) and the
  constructor it picks per streaming kind.
-/
import ConnectModel.Basic
import ConnectModel.Header
import ConnectModel.Dispatch
import ConnectModel.Gen.Tables

namespace ConnectModel

structure MethodDesc where
  name : Bytes              -- method.Desc.Name(), as written in the .proto
  goName : Bytes            -- method.GoName (protogen: CamelCase, upper-case initial)
  clientStreaming : Bool
  serverStreaming : Bool

structure ServiceDesc where
  pkg : Bytes               -- file package ("" if the file has none)
  name : Bytes              -- service.Desc.Name()
  methods : List MethodDesc

/-- `service.Desc.FullName()` -/
def ServiceDesc.fullName (s : ServiceDesc) : Bytes := if s.pkg = [] then s.name else s.pkg ++ [46] ++ s.name

/-- `procedureName(method)` = "/" + FullName + "/" + Name -/
def procedureName (s : ServiceDesc) (m : MethodDesc) : Bytes := [47] ++ s.fullName ++ [47] ++ m.name

/-- the prefix `NewXHandler` returns: "/" + reflectionName + "/" -/
def mountPrefix (s : ServiceDesc) : Bytes := [47] ++ s.fullName ++ [47]

/-- `strings.ToLower(s[:1]) + s[1:]`, with an underscore in front of Go keywords -/
def unexport (s : Bytes) : Bytes :=
  match s with
  | [] => []
  | c :: rest =>
    let l := toLower c :: rest
    if l ∈ Gen.unexportKeywords then [95] ++ l else l

inductive RpcKind where
  | unary | clientStream | serverStream | bidi
  deriving DecidableEq, Repr

/-- the `switch` over (IsStreamingClient, IsStreamingServer) used for the handler constructor
    and for the client method -/
def rpcKind (m : MethodDesc) : RpcKind :=
  match m.clientStreaming, m.serverStreaming with
  | true, false => .clientStream
  | false, true => .serverStream
  | true, true => .bidi
  | false, false => .unary

/-- what the generated client constructor appends to the (right-trimmed) base URL -/
def clientURLSuffix (s : ServiceDesc) (m : MethodDesc) : Bytes := procedureName s m
/-- the pattern passed to `mux.Handle` -/
def muxPattern (s : ServiceDesc) (m : MethodDesc) : Bytes := procedureName s m
/-- the procedure passed to `connect.New*Handler` -/
def handlerProcedure (s : ServiceDesc) (m : MethodDesc) : Bytes := procedureName s m

/-- Go's 25 keywords (https://go.dev/ref/spec#Keywords), as byte strings -/
def goKeywords : List Bytes :=
  [[98, 114, 101, 97, 107] /- break -/,
   [99, 97, 115, 101] /- case -/,
   [99, 104, 97, 110] /- chan -/,
   [99, 111, 110, 115, 116] /- const -/,
   [99, 111, 110, 116, 105, 110, 117, 101] /- continue -/,
   [100, 101, 102, 97, 117, 108, 116] /- default -/,
   [100, 101, 102, 101, 114] /- defer -/,
   [101, 108, 115, 101] /- else -/,
   [102, 97, 108, 108, 116, 104, 114, 111, 117, 103, 104] /- fallthrough -/,
   [102, 111, 114] /- for -/,
   [102, 117, 110, 99] /- func -/,
   [103, 111] /- go -/,
   [103, 111, 116, 111] /- goto -/,
   [105, 102] /- if -/,
   [105, 109, 112, 111, 114, 116] /- import -/,
   [105, 110, 116, 101, 114, 102, 97, 99, 101] /- interface -/,
   [109, 97, 112] /- map -/,
   [112, 97, 99, 107, 97, 103, 101] /- package -/,
   [114, 97, 110, 103, 101] /- range -/,
   [114, 101, 116, 117, 114, 110] /- return -/,
   [115, 101, 108, 101, 99, 116] /- select -/,
   [115, 116, 114, 117, 99, 116] /- struct -/,
   [115, 119, 105, 116, 99, 104] /- switch -/,
   [116, 121, 112, 101] /- type -/,
   [118, 97, 114] /- var -/]

end ConnectModel
