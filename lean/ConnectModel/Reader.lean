/-
  ConnectModel.Reader — the transport as the library sees it: an `io.Reader` that delivers the
  peer's bytes under an *arbitrary segmentation* and then ends cleanly or with a failure.

  `Script` is the implementation-level view (a list of chunks; one `Read` returns at most one
  chunk, possibly split); `Src` is the specification-level view (just the bytes and how the
  stream ends). Every reading loop of the library (`io.ReadFull`, `io.CopyN`, `ReadFrom`) is
  modelled *through `read1`*, so that "decoding does not depend on segmentation" (C03) is a
  theorem about these loops, not a modelling assumption.
-/
import ConnectModel.Basic

namespace ConnectModel

/-- errors an `io.Reader` of the transport may return -/
inductive RErr where
  | eof                                   -- io.EOF
  | unexpectedEOF                         -- io.ErrUnexpectedEOF (body shorter than announced)
  | other                                 -- any other uncoded transport error (reset, broken pipe…)
  | coded (code : Nat) (wrapsEOF : Bool)  -- an error that already is a *connect.Error (duplexHTTPCall.Read)
  deriving DecidableEq, Repr

/-- `errors.Is(err, io.EOF)` -/
def RErr.isEOF : RErr → Bool
  | .eof => true
  | .coded _ w => w
  | _ => false

/-- implementation-level transport: chunks as the transport hands them out -/
structure Script where
  chunks : List Bytes      -- each non-empty (`Script.wf`)
  tail : RErr              -- what `Read` returns once the chunks are exhausted (sticky)
  withData : Bool          -- the read that returns the last bytes also returns `tail`
  deriving Repr

def Script.wf (s : Script) : Prop := ∀ c ∈ s.chunks, c ≠ []

def Script.flat (s : Script) : Bytes := s.chunks.flatten

/-- One `Read(p)` with `len(p) = n` (`n > 0`): at most one chunk, split if it does not fit. -/
def read1 (s : Script) (n : Nat) : Bytes × Option RErr × Script :=
  match s.chunks with
  | [] => ([], some s.tail, s)
  | c :: rest =>
    if c.length ≤ n then
      (c, if rest.isEmpty && s.withData then some s.tail else none, { s with chunks := rest })
    else
      (c.take n, none, { s with chunks := c.drop n :: rest })

/-- The common core of `io.ReadFull(r, buf[:n])` and `io.CopyN(dst, r, n)`: keep reading until
    `n` bytes have arrived or a read reports an error. Returns the bytes obtained, the raw error
    if fewer than `n` arrived, and the remaining transport. `fuel` bounds the number of reads;
    `n + 1` always suffices for well-formed scripts (each read yields at least one byte). -/
def readLoop : Nat → Script → Nat → Bytes → Bytes × Option RErr × Script
  | 0, s, _, acc => (acc, some .other, s)        -- unreachable for fuel ≥ n + 1 on wf scripts
  | fuel + 1, s, n, acc =>
    if n = 0 then (acc, none, s)
    else
      let (b, e, s') := read1 s n
      if b.length ≥ n then (acc ++ b, none, s')          -- enough: a simultaneous error is dropped
      else match e with
        | some err => (acc ++ b, some err, s')
        | none => readLoop fuel s' (n - b.length) (acc ++ b)

def readExact (n : Nat) (s : Script) : Bytes × Option RErr × Script := readLoop (n + 1) s n []

/-- specification-level transport: only the bytes and the way the stream ends -/
structure Src where
  flat : Bytes
  tail : RErr
  deriving Repr, DecidableEq

def Script.abs (s : Script) : Src := { flat := s.flat, tail := s.tail }

/-- `readExact` as seen at the specification level -/
def takeExact (n : Nat) (src : Src) : Bytes × Option RErr × Src :=
  if n ≤ src.flat.length then (src.flat.take n, none, { src with flat := src.flat.drop n })
  else (src.flat, some src.tail, { src with flat := [] })

/-- `bytes.Buffer.ReadFrom(io.LimitReader(r, limit))` / `ReadFrom(r)` (`limit = none`): read to
    EOF (or to the limit); EOF is not an error for `ReadFrom`. -/
def readAllLimited (limit : Option Nat) (src : Src) : Bytes × Option RErr × Src :=
  match limit with
  | some l =>
    if l ≤ src.flat.length then (src.flat.take l, none, { src with flat := src.flat.drop l })
    else (src.flat, if src.tail.isEOF then none else some src.tail, { src with flat := [] })
  | none => (src.flat, if src.tail.isEOF then none else some src.tail, { src with flat := [] })

end ConnectModel

namespace ConnectModel

/-! ## draining what is left of a body (`drainUpTo`, fix F43) -/

inductive DrainResult where
  | atEnd                 -- the body ended within the budget
  | more                  -- more than the budget was left
  | failed (e : RErr)     -- a read failed
  deriving DecidableEq, Repr

/-- `drainUpTo(reader, limit)`: `io.Copy(io.Discard, &io.LimitedReader{R: reader, N: limit})`,
    and - when the budget was used up exactly - one more read, which settles whether anything is
    left. (`io.Copy` and the probe compare with `io.EOF` itself: an error that merely wraps it is
    an error.) -/
def drain (limit : Nat) (s : Script) : DrainResult :=
  let (_, e, s') := readExact limit s
  match e with
  | some .eof => .atEnd
  | some err => .failed err
  | none =>
    let (pb, pe, _) := read1 s' 1
    if pb ≠ [] then .more
    else match pe with
      | some .eof => .atEnd
      | some err => .failed err
      | none => .more        -- not reached on a well-formed script: a read returns data or an error

/-- the same at the specification level: only the number of bytes left and how the stream ends -/
def drainSpec (limit : Nat) (src : Src) : DrainResult :=
  if src.flat.length ≤ limit then (if src.tail = .eof then .atEnd else .failed src.tail) else .more

/-- the pinned `discard`: `io.Copy` over the `LimitedReader` alone. What matters to the gRPC
    client is whether a read of the body reported `io.EOF` - that is when net/http fills in the
    trailers. -/
def copyLimitedSawEOF : Nat → Script → Nat → Bool
  | 0, _, _ => false
  | fuel + 1, s, budget =>
    if budget = 0 then false
    else
      let (b, e, s') := read1 s budget
      match e with
      | some .eof => true
      | some _ => false
      | none => copyLimitedSawEOF fuel s' (budget - b.length)

def drainSawEOFPinned (limit : Nat) (s : Script) : Bool := copyLimitedSawEOF (limit + 1) s limit

end ConnectModel

namespace ConnectModel

/-! ### which reads report the end (`ResponseEnded`, the amended F43) -/

/-- `readLoop` (the bytes aside) that also says whether one of its reads returned no data
    together with `io.EOF` - the reads that set `duplexHTTPCall.responseEnded` -/
def readLoopSaw : Nat → Script → Nat → Bool × Option RErr × Script
  | 0, s, _ => (false, some .other, s)
  | fuel + 1, s, n =>
    if n = 0 then (false, none, s)
    else
      let (b, e, s') := read1 s n
      let saw := b.isEmpty && e == some .eof
      if b.length ≥ n then (saw, none, s')
      else match e with
        | some err => (saw, some err, s')
        | none => readLoopSaw fuel s' (n - b.length)

/-- did a read of the drain report the end with no data? -/
def drainSaw (limit : Nat) (s : Script) : Bool :=
  let (saw, e, s') := readLoopSaw (limit + 1) s limit
  match e with
  | some _ => saw
  | none =>
    let (pb, pe, _) := read1 s' 1
    saw || (pb.isEmpty && pe == some .eof)

/-- the gRPC client looks at the HTTP trailers after a failed Receive iff the body had reported
    its end before, or the drain reached it (or one of the drain's reads reported it) -/
def trailersConsulted (endedBefore : Bool) (limit : Nat) (s : Script) : Bool :=
  endedBefore || decide (drain limit s = .atEnd) || drainSaw limit s

end ConnectModel
