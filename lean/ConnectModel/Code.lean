/-
  ConnectModel.Code — code.go (`Code.String`, `MarshalText`, `UnmarshalText`) and the
  code<->HTTP status tables of protocol_connect.go / protocol_grpc.go, defined *over* the
  tables regenerated from the Go source (`Gen.Tables`).
-/
import ConnectModel.Basic
import ConnectModel.Gen.Tables

namespace ConnectModel

/-- "code_" -/
def codePrefix : Bytes := [99, 111, 100, 101, 95]

def lookupNat (t : List (Nat × α)) (k : Nat) : Option α :=
  match t with
  | [] => none
  | (k', v) :: rest => if k = k' then some v else lookupNat rest k

def lookupBytes (t : List (Bytes × α)) (k : Bytes) : Option α :=
  match t with
  | [] => none
  | (k', v) :: rest => if k = k' then some v else lookupBytes rest k

/-- `Code.String()` for a `uint32` code value. -/
def codeString (c : Nat) : Bytes :=
  match lookupNat Gen.codeNames c with
  | some s => s
  | none => codePrefix ++ showDec c

/-- `Code.UnmarshalText`; `none` is the `invalid code` error. The result is the `uint32`
    the Go conversion `Code(int64)` produces (it wraps). -/
def codeUnmarshalText (data : Bytes) : Option Nat :=
  match lookupBytes Gen.textToCode data with
  | some c => some c
  | none =>
    if codePrefix.isPrefixOf data then
      match parseInt64 (data.drop 5) with
      | some code =>
        if code < (Gen.minCode : Int) ∨ code > (Gen.maxCode : Int) then
          some (code % (2 ^ 32 : Int)).toNat
        else none
      | none => none
    else none

/-- `connectCodeToHTTP`. -/
def codeToHTTP (c : Nat) : Nat := (lookupNat Gen.codeToHTTP c).getD Gen.codeToHTTPDefault

/-- `connectHTTPToCode`. -/
def connectHTTPToCode (status : Nat) : Nat :=
  (lookupNat Gen.connectHTTPToCode status).getD Gen.connectHTTPToCodeDefault

/-- `grpcHTTPToCode`. -/
def grpcHTTPToCode (status : Nat) : Nat :=
  (lookupNat Gen.grpcHTTPToCode status).getD Gen.grpcHTTPToCodeDefault

end ConnectModel
