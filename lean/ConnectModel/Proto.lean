/-
  ConnectModel.Proto — what a handler puts on the wire (protocol_connect.go / protocol_grpc.go,
  handler side) and what a client makes of a response (client side), at the level of
  *structured* HTTP exchanges: status, header multimap, body items, HTTP trailers.

  JSON / protobuf encodings of the error record, the end-of-stream message and the status
  message are parameters (the model carries the structured record; the harness canonicalises
  the real bytes with encoding/json, protojson and proto). Envelopes, header maps, percent-
  and base64-encoding are byte-exact.
-/
import ConnectModel.Envelope
import ConnectModel.Header
import ConnectModel.Code
import ConnectModel.Percent
import ConnectModel.Base64
import ConnectModel.Dispatch
import ConnectModel.Negotiate

namespace ConnectModel

/-- the observable content of a `*connect.Error` -/
structure CErr where
  code : Nat
  msg : Bytes
  details : List Bytes          -- opaque: one entry per Any-wrapped detail message
  md : Header
  deriving DecidableEq, Repr

/-- errors a handler implementation may return -/
inductive GoErr where
  | coded (e : CErr)            -- a *connect.Error (possibly wrapped)
  | plain (text : Bytes)        -- any other error value; `text` = err.Error()
  | canceled                    -- context.Canceled
  | deadline                    -- context.DeadlineExceeded
  deriving DecidableEq, Repr

def textCanceled : Bytes := [99, 111, 110, 116, 101, 120, 116, 32, 99, 97, 110, 99, 101, 108, 101, 100]
def textDeadline : Bytes := [99, 111, 110, 116, 101, 120, 116, 32, 100, 101, 97, 100, 108, 105, 110, 101, 32, 101, 120, 99, 101, 101, 100, 101, 100]

def codeCanceled : Nat := 1
def codeDeadlineExceeded : Nat := 4
def codeUnimplemented : Nat := 12

/-- `wrapIfContextError` (the `toWire` translation of errorTranslatingHandlerConnCloser.Close) -/
def toWire : GoErr → GoErr
  | .canceled => .coded { code := codeCanceled, msg := textCanceled, details := [], md := [] }
  | .deadline => .coded { code := codeDeadlineExceeded, msg := textDeadline, details := [], md := [] }
  | e => e

/-- code, message, details as they go on the wire, plus the metadata to merge -/
structure WireErr where
  code : Nat
  msg : Bytes
  details : List Bytes
  deriving DecidableEq, Repr

def wireOf : GoErr → WireErr × Header
  | .coded e => ({ code := e.code, msg := e.msg, details := e.details }, e.md)
  | .plain t => ({ code := codeUnknown, msg := t, details := [] }, [])
  | .canceled => ({ code := codeUnknown, msg := textCanceled, details := [] }, [])     -- not reached after toWire
  | .deadline => ({ code := codeUnknown, msg := textDeadline, details := [] }, [])

/-- what the user code of a handler does, at the `StreamingHandlerConn` level -/
structure HProg where
  header : Header          -- written to ResponseHeader() before the first Send
  trailer : Header         -- written to ResponseTrailer() before returning
  sends : List Bytes       -- payloads passed to Send (codec output)
  result : Option GoErr    -- the implementation's return value

/-- what `NewConn` fixed for this call -/
structure HConn where
  proto : Proto
  kind : StreamKind
  contentType : Bytes      -- request Content-Type (echoed)
  names : Bytes            -- CommaSeparatedNames of the handler's pools
  respCompression : Bytes  -- negotiated response compression
  pool : Option Compressor -- pools.Get(respCompression)
  minBytes : Int

inductive BodyItem where
  | frame (flags : UInt8) (payload : Bytes)                         -- enveloped message, payload as on the wire
  | endStream (err : Option WireErr) (md : Header)                -- Connect end-of-stream envelope (flag 0x02)
  | webTrailer (block : Header)                                     -- gRPC-Web trailer envelope (flag 0x80)
  | raw (data : Bytes)                                              -- unary Connect body (as on the wire)
  | errorJSON (err : WireErr)                                       -- unary Connect error body
  | errorJSONz (err : WireErr)                                      -- the same, compressed with the response's Content-Encoding (peers may do that)
  deriving DecidableEq, Repr

structure Resp where
  status : Nat
  header : Header
  body : List BodyItem
  trailer : Header
  deriving DecidableEq, Repr

def applicationJSON : Bytes := Gen.connectUnaryContentTypeJSON

/-- an envelope for a message, as `envelopeWriter.Marshal` writes it -/
def msgFrame (c : HConn) (payload : Bytes) : BodyItem :=
  match c.pool with
  | none => .frame 0 payload
  | some z => if (payload.length : Int) < c.minBytes then .frame 0 payload else .frame 1 (z.compress payload)

/-! ## Connect, unary -/

def serveConnectUnary (c : HConn) (p : HProg) : Resp :=
  let h0 : Header := [(Gen.hdrContentType, [c.contentType]), (Gen.hdrConnectUnaryAcceptEncoding, [c.names])]
  match p.result with
  | none =>
    -- success: Send(msg): wroteBody; writeResponseHeader(nil); Marshal
    let h1 := addTrailerPrefixed (mergeHeaders h0 p.header) p.trailer
    match p.sends with
    | m :: _ =>
      (match c.pool with
       | none => { status := 200, header := h1, body := [.raw m], trailer := [] }
       | some z =>
         if (m.length : Int) < c.minBytes then { status := 200, header := h1, body := [.raw m], trailer := [] }
         else { status := 200, header := h1.set Gen.hdrConnectUnaryEncoding c.respCompression,
                body := [.raw (z.compress m)], trailer := [] })
    | [] => { status := 200, header := h1, body := [], trailer := [] }   -- Close(nil) without Send
  | some e =>
    -- Close(err): writeResponseHeader(err) merges err.md, then trailers; JSON body
    let (w, md) := wireOf (toWire e)
    let h1 := addTrailerPrefixed (mergeHeaders (mergeHeaders h0 p.header) md) p.trailer
    { status := codeToHTTP w.code, header := h1.set Gen.hdrContentType applicationJSON,
      body := [.errorJSON w], trailer := [] }

/-! ## Connect, streaming -/

def serveConnectStream (c : HConn) (p : HProg) : Resp :=
  let h0 : Header := [(Gen.hdrContentType, [c.contentType])] ++
    (if c.respCompression = Gen.compressionIdentity then [] else [(Gen.hdrConnectStreamEncoding, [c.respCompression])]) ++
    [(Gen.hdrConnectStreamAcceptEncoding, [c.names])]
  let frames := p.sends.map (msgFrame c)
  let fin : BodyItem :=
    match p.result with
    | none => .endStream none p.trailer
    | some e =>
      let (w, md) := wireOf (toWire e)
      .endStream (some w) (mergeHeaders p.trailer md)
  { status := 200, header := mergeHeaders h0 p.header, body := frames ++ [fin], trailer := [] }

/-! ## gRPC and gRPC-Web -/

/-- the value of `Grpc-Status-Details-Bin`: base64 of the binary `Status` message; the protobuf
    encoding is a parameter -/
def detailsBin (encStatus : WireErr → Bytes) (w : WireErr) : Bytes := encodeBinaryHeader (encStatus w)

/-- `grpcErrorToTrailer` on a copy of the user's trailers -/
def grpcTrailers (encStatus : WireErr → Bytes) (userTrailer : Header) (result : Option GoErr) : Header :=
  match result with
  | none => ((mergeHeaders [] userTrailer).set Gen.hdrGrpcStatus [48]).set Gen.hdrGrpcMessage []
  | some e =>
    let (w, md) := wireOf (toWire e)
    (((mergeHeaders (mergeHeaders [] userTrailer) md).set Gen.hdrGrpcStatus (showDec w.code)).set
      Gen.hdrGrpcMessage (percentEncode w.msg)).set Gen.hdrGrpcDetails (detailsBin encStatus w)

def serveGrpc (encStatus : WireErr → Bytes) (web : Bool) (c : HConn) (p : HProg) : Resp :=
  let h0 : Header := [(Gen.hdrContentType, [c.contentType]), (Gen.hdrGrpcAcceptEncoding, [c.names])] ++
    (if c.respCompression = Gen.compressionIdentity then [] else [(Gen.hdrGrpcEncoding, [c.respCompression])])
  let h1 := mergeHeaders h0 p.header
  let t := grpcTrailers encStatus p.trailer p.result
  let frames := p.sends.map (msgFrame c)
  if web then
    if p.sends = [] then { status := 200, header := mergeHeaders h1 t, body := [], trailer := [] }   -- trailers-only
    else { status := 200, header := h1, body := frames ++ [.webTrailer (sanitizeBlock t)], trailer := [] }
  else { status := 200, header := h1, body := frames, trailer := t }

def serve (encStatus : WireErr → Bytes) (c : HConn) (p : HProg) : Resp :=
  match c.proto with
  | .connect => if c.kind = .unary then serveConnectUnary c p else serveConnectStream c p
  | .grpc => serveGrpc encStatus false c p
  | .grpcWeb => serveGrpc encStatus true c p

/-! ## errors whose details cannot be put on the wire (fix F38 and the paths next to it) -/

/-- the state of the details of the `*connect.Error` a handler returned: every one can be written;
    one of them is an `Any` of a type this binary does not know, which protojson cannot render
    (the binary protobuf form of the gRPC `Status` is not affected); one of them cannot be
    converted to an `Any` at all (`detailsAsAny` fails) -/
inductive DetailState where
  | good | unrenderable | unencodable
  deriving DecidableEq, Repr

/-- a text the model does not know: the library's own description of an internal failure. No
    header value the model computes can be this one (`percentEncode` emits printable ASCII). -/
def unmodelledText : Bytes := [0, 42, 0]

def stripDetails : Option GoErr → Option GoErr
  | some (.coded e) => some (.coded { e with details := [] })
  | r => r

/-- `grpcErrorToTrailer` when `grpcStatusFromError` fails: status internal, the failure's text,
    nothing else (the error's metadata is not merged, no `Grpc-Status-Details-Bin`) -/
def grpcTrailersUnencodable (userTrailer : Header) : Header :=
  ((mergeHeaders [] userTrailer).set Gen.hdrGrpcStatus (showDec codeInternal)).set Gen.hdrGrpcMessage unmodelledText

/-- `serveGrpc` with the trailers given -/
def serveGrpcWith (t : Header) (web : Bool) (c : HConn) (p : HProg) : Resp :=
  let h0 : Header := [(Gen.hdrContentType, [c.contentType]), (Gen.hdrGrpcAcceptEncoding, [c.names])] ++
    (if c.respCompression = Gen.compressionIdentity then [] else [(Gen.hdrGrpcEncoding, [c.respCompression])])
  let h1 := mergeHeaders h0 p.header
  let frames := p.sends.map (msgFrame c)
  if web then
    if p.sends = [] then { status := 200, header := mergeHeaders h1 t, body := [], trailer := [] }
    else { status := 200, header := h1, body := frames ++ [.webTrailer (sanitizeBlock t)], trailer := [] }
  else { status := 200, header := h1, body := frames, trailer := t }

def carriesDetails : Option GoErr → Bool
  | some (.coded _) => true
  | _ => false

/-- what the handler side writes when the error's details are in state `ds`. Only a coded error
    has details; with good details this is `serve`. -/
def serveD (ds : DetailState) (encStatus : WireErr → Bytes) (c : HConn) (p : HProg) : Resp :=
  if !carriesDetails p.result then serve encStatus c p
  else match ds with
    | .good => serve encStatus c p
    | .unrenderable =>
      (match c.proto with
       | .connect => serve encStatus c { p with result := stripDetails p.result }   -- fix F38: written without details
       | _ => serve encStatus c p)                                                  -- binary Status: nothing to render
    | .unencodable =>
      (match c.proto with
       | .connect =>
         if c.kind = .unary then { serveConnectUnary c p with body := [] }           -- status and headers are out, the body is not
         else { serveConnectStream c p with body := p.sends.map (msgFrame c) }       -- no end-of-stream message
       | .grpc => serveGrpcWith (grpcTrailersUnencodable p.trailer) false c p
       | .grpcWeb => serveGrpcWith (grpcTrailersUnencodable p.trailer) true c p)

/-- the tree as pinned (before F38): a detail that cannot be rendered made the whole JSON
    marshalling fail, exactly like one that cannot be encoded -/
def serveDPinned (ds : DetailState) (encStatus : WireErr → Bytes) (c : HConn) (p : HProg) : Resp :=
  match ds, c.proto with
  | .unrenderable, .connect => serveD .unencodable encStatus c p
  | _, _ => serveD ds encStatus c p

/-! ## client side -/

/-- what the application sees from one call -/
structure ClientObs where
  msgs : List Bytes
  result : Option CErr        -- `none`: the call completed successfully
  header : Header
  trailer : Header
  deriving DecidableEq, Repr

/-- `grpcErrorFromTrailer` on a trailer (or header) map. `decStatus` decodes the binary Status
    (`none` = invalid protobuf). Result: `none` = OK; `some (inl e)` = server error;
    `some (inr code)` = protocol error constructed locally. -/
inductive TrailerVerdict where
  | ok
  | missing                      -- errTrailersWithoutGRPCStatus (CodeInternal)
  | serverErr (w : WireErr)
  | protocolErr                  -- CodeInternal, locally constructed
  deriving DecidableEq, Repr

def grpcErrorFromTrailer (decStatus : Bytes → Option WireErr) (t : Header) : TrailerVerdict :=
  let codeHeader := t.get Gen.hdrGrpcStatus
  if codeHeader = [] then .missing
  else match parseUint32 codeHeader with
    | none => .protocolErr
    | some code =>
      if code = 0 then .ok
      else
        let msg := percentDecode (t.get Gen.hdrGrpcMessage)
        let bin := t.get Gen.hdrGrpcDetails
        if bin = [] then .serverErr { code := code, msg := msg, details := [] }
        else match decodeBinaryHeader bin with
          | none => .protocolErr
          | some raw =>
            match decStatus raw with
            | none => .protocolErr
            | some st => if st.code = 0 then .protocolErr else .serverErr st   -- prefer the protobuf data

end ConnectModel

namespace ConnectModel

/-! ## client side: receiving the body -/

structure CCfg where
  proto : Proto
  kind : StreamKind
  accepts : List Bytes           -- names of the client's compression pools
  pool : Compressor              -- the algorithm behind every accepted name (toy: one algorithm)
  max : Nat                      -- read limit (0 = none)

inductive Terminal where
  | cleanEOF                                   -- body ended at a frame boundary
  | endStream (err : Option WireErr) (md : Header)
  | webTrailer (block : Header)
  | fail (code : Nat)                          -- a locally produced error (decode, flags, limits)
  deriving DecidableEq, Repr

/-- a streaming body that ends inside an envelope: `d` = the bytes of the unfinished envelope (a
    proper, non-empty prefix of one: 1-4 bytes of its 5-byte prefix, or the prefix and less payload
    than it promises), after which the transport reports a clean end. `envelopeReader.Read` then
    fails with invalid_argument in every case ("incomplete envelope", "promised N bytes, got M",
    or the size refusal whose discard ran into the end) - `C04.cut_tail_prefix_is_envRead` ties
    the prefix case to `envRead`; never a clean end. -/
def recvCutTail (d : Bytes) : Terminal :=
  if d.isEmpty then .cleanEOF else .fail codeInvalidArgument

/-- walk the body items as `Receive` in a loop does; `enc` = the pool selected by the response's
    encoding header (`none` = identity / absent) -/
def recvItems (cfg : CCfg) (enc : Option Compressor) : List BodyItem → List Bytes × Terminal
  | [] => ([], .cleanEOF)
  | .frame fl p :: rest =>
    if fl.toNat = 0 ∨ fl.toNat = 1 then
      if p.length = 0 then
        let r := recvItems cfg enc rest; (([] : Bytes) :: r.1, r.2)
      else if cfg.max > 0 ∧ p.length > cfg.max then ([], .fail codeInvalidArgument)
      else if fl.toNat = 1 then
        match enc with
        | none => ([], .fail codeInvalidArgument)
        | some z =>
          match decompressLimited z cfg.max p with
          | (.ok d, _) => let r := recvItems cfg enc rest; (d :: r.1, r.2)
          | (.fail, _) => ([], .fail codeInvalidArgument)
      else let r := recvItems cfg enc rest; (p :: r.1, r.2)
    else ([], .fail codeInternal)                 -- "invalid envelope flags" (frames here are plain messages)
  | .endStream e m :: _ =>
    if cfg.proto = .connect then ([], .endStream e m) else ([], .fail codeInternal)
  | .webTrailer b :: _ =>
    if cfg.proto = .grpcWeb then ([], .webTrailer (sanitizeBlock b)) else ([], .fail codeInternal)   -- textproto trims values
  | .raw d :: rest =>
    -- bytes that are not a whole envelope, at the very end of a streaming body whose transport
    -- then reports a clean end: what `envelopeReader.Read` makes of them (never a clean end)
    if rest.isEmpty then ([], recvCutTail d) else ([], .fail codeInternal)
  | .errorJSON _ :: _ => ([], .fail codeInternal)
  | .errorJSONz _ :: _ => ([], .fail codeInternal)

def encodingPool (cfg : CCfg) (name : Bytes) : Option Compressor :=
  if name = [] ∨ name = Gen.compressionIdentity then none
  else if name ∈ cfg.accepts then some cfg.pool else none

def encodingKnown (cfg : CCfg) (name : Bytes) : Bool :=
  name = [] || name = Gen.compressionIdentity || decide (name ∈ cfg.accepts)

/-- a locally constructed error: its text is not modelled (`[42]` = "*", printed as a wildcard) -/
def localErr (code : Nat) : CErr := { code := code, msg := [42], details := [], md := [] }

def fixCode (c : Nat) (fallback : Nat) : Nat := if c = 0 then fallback else c

/-! ### Connect streaming client -/

def clientConnectStream (cfg : CCfg) (r : Resp) : ClientObs :=
  if r.status ≠ 200 then
    { msgs := [], result := some (localErr (connectHTTPToCode r.status)), header := [], trailer := [] }
  else
    let encName := r.header.get Gen.hdrConnectStreamEncoding
    if !encodingKnown cfg encName then
      { msgs := [], result := some (localErr codeInternal), header := [], trailer := [] }
    else
      let header := mergeHeaders [] r.header
      let (msgs, term) := recvItems cfg (encodingPool cfg encName) r.body
      match term with
      | .endStream e md =>
        let trailer := mergeHeaders [] (canonicalizeKeys md)
        (match e with
         | none => { msgs := msgs, result := none, header := header, trailer := trailer }
         | some w =>
           { msgs := msgs,
             result := some { code := fixCode w.code codeUnknown, msg := w.msg, details := w.details,
                              md := mergeHeaders (mergeHeaders [] header) trailer },
             header := header, trailer := trailer })
      | .cleanEOF => { msgs := msgs, result := some (localErr codeInternal), header := header, trailer := [] }
      | .fail c => { msgs := msgs, result := some (localErr c), header := header, trailer := [] }
      | .webTrailer _ => { msgs := msgs, result := some (localErr codeInternal), header := header, trailer := [] }

/-! ### Connect unary client -/

def clientConnectUnary (cfg : CCfg) (statusText : Bytes) (r : Resp) : ClientObs :=
  let (header, trailer) := splitTrailerPrefixed r.header
  let encName := r.header.get Gen.hdrConnectUnaryEncoding
  if !encodingKnown cfg encName then
    -- an encoding this client cannot read: on a 200 that is a protocol error; on any other status
    -- the HTTP status is all there is to go by (fix F30)
    if r.status ≠ 200 then
      { msgs := [], result := some { code := connectHTTPToCode r.status, msg := statusText, details := [], md := [] },
        header := header, trailer := trailer }
    else
      { msgs := [], result := some (localErr codeInternal), header := header, trailer := trailer }
  else if r.status ≠ 200 then
    match r.body with
    | [.errorJSON w] =>
      { msgs := [],
        result := some { code := fixCode w.code (connectHTTPToCode r.status), msg := w.msg, details := w.details,
                         md := mergeHeaders (mergeHeaders [] header) trailer },
        header := header, trailer := trailer }
    | [.errorJSONz w] =>
      -- the body is decompressed with the pool named by Content-Encoding before it is parsed
      if (encodingPool cfg encName).isSome then
        { msgs := [],
          result := some { code := fixCode w.code (connectHTTPToCode r.status), msg := w.msg, details := w.details,
                           md := mergeHeaders (mergeHeaders [] header) trailer },
          header := header, trailer := trailer }
      else
        { msgs := [], result := some { code := connectHTTPToCode r.status, msg := statusText, details := [], md := [] },
          header := header, trailer := trailer }
    | _ =>
      { msgs := [], result := some { code := connectHTTPToCode r.status, msg := statusText, details := [], md := [] },
        header := header, trailer := trailer }
  else
    match r.body with
    | [.raw d] =>
      if cfg.max > 0 ∧ d.length > cfg.max then
        { msgs := [], result := some (localErr codeInvalidArgument), header := header, trailer := trailer }
      else
        (match encodingPool cfg encName with
         | some z =>
           if d.length = 0 then { msgs := [[]], result := none, header := header, trailer := trailer }
           else match decompressLimited z cfg.max d with
             | (.ok m, _) => { msgs := [m], result := none, header := header, trailer := trailer }
             | (.fail, _) => { msgs := [], result := some (localErr codeInvalidArgument), header := header, trailer := trailer }
         | none => { msgs := [d], result := none, header := header, trailer := trailer })
    | [] => { msgs := [[]], result := none, header := header, trailer := trailer }
    | _ => { msgs := [], result := some (localErr codeInternal), header := header, trailer := trailer }

/-! ### gRPC / gRPC-Web client -/

def clientGrpc (decStatus : Bytes → Option WireErr) (cfg : CCfg) (r : Resp) : ClientObs :=
  let web := cfg.proto = .grpcWeb
  if r.status ≠ 200 then
    { msgs := [], result := some (localErr (grpcHTTPToCode r.status)), header := [], trailer := [] }
  else
    let encName := r.header.get Gen.hdrGrpcEncoding
    if !encodingKnown cfg encName then
      { msgs := [], result := some (localErr codeInternal), header := [], trailer := [] }
    else
      -- trailers-only: error information in the HTTP headers
      let headerVerdict := grpcErrorFromTrailer decStatus r.header
      let trailersOnly (e : CErr) : ClientObs :=
        let ct := r.header.get Gen.hdrContentType
        let h : Header := if ct = [] then [] else [(Gen.hdrContentType, [ct])]
        let t := (mergeHeaders [] r.header).del Gen.hdrContentType
        { msgs := [], result := some { e with md := mergeHeaders (mergeHeaders [] h) t }, header := h, trailer := t }
      match headerVerdict with
      | .serverErr w => trailersOnly { code := w.code, msg := w.msg, details := w.details, md := [] }
      | .protocolErr => trailersOnly (localErr codeInternal)
      | _ =>
        let header := mergeHeaders [] r.header
        let (msgs, term) := recvItems cfg (encodingPool cfg encName) r.body
        if header.get Gen.hdrGrpcStatus ≠ [] then
          -- "trailers-only" OK response: the unmarshal error is returned as is
          match term with
          | .cleanEOF => { msgs := msgs, result := none, header := header, trailer := [] }
          | .webTrailer _ => { msgs := msgs, result := none, header := header, trailer := [] }
          | .fail c => { msgs := msgs, result := some (localErr c), header := header, trailer := [] }
          | .endStream _ _ => { msgs := msgs, result := some (localErr codeInternal), header := header, trailer := [] }
        else
          let (rawTrailer, eofLike, failCode) : Header × Bool × Nat :=
            match term with
            | .cleanEOF => (if web then [] else r.trailer, true, 0)
            | .webTrailer b => (b, true, 0)
            | .fail c => (if web then [] else r.trailer, false, c)
            | .endStream _ _ => (if web then [] else r.trailer, false, codeInternal)
          let trailer := mergeHeaders [] rawTrailer
          let md := mergeHeaders (mergeHeaders [] header) trailer
          match grpcErrorFromTrailer decStatus trailer with
          | .serverErr w =>
            { msgs := msgs, result := some { code := w.code, msg := w.msg, details := w.details, md := md },
              header := header, trailer := trailer }
          | .protocolErr => { msgs := msgs, result := some { (localErr codeInternal) with md := md }, header := header, trailer := trailer }
          | .missing =>
            if eofLike then { msgs := msgs, result := some { (localErr codeInternal) with md := md }, header := header, trailer := trailer }
            else { msgs := msgs, result := some (localErr failCode), header := header, trailer := trailer }
          | .ok =>
            if eofLike then { msgs := msgs, result := none, header := header, trailer := trailer }
            else { msgs := msgs, result := some (localErr failCode), header := header, trailer := trailer }

/-- `receiveUnaryResponse` on top of a stream observation (kinds unary and client-stream):
    exactly one message, then the end -/
def unaryWrap (o : ClientObs) : ClientObs :=
  match o.msgs, o.result with
  | [], some e => { o with msgs := [] }                         -- first Receive returned the error
  | [], none => { o with result := some (localErr codeUnknown) }  -- first Receive returned EOF: "unknown: EOF"
  | [_], none => o
  | [_], some _ =>   -- the second Receive failed with a coded error: that error is the call's (fix F17;
                     -- every error a conn's Receive returns is coded)
    { o with msgs := [] }
  | _ :: _ :: _, _ => { o with msgs := [], result := some (localErr codeUnknown) }  -- "unary stream has multiple messages"

/-! ### the unary Connect request of a message the codec refused (fix F34) -/

/-- what the handler side is given by a unary Connect call whose request message could (`some m`)
    or could not (`none`) be encoded: a body, or an aborted request. After the fix a refused
    message aborts the request; before, the request was closed normally and its empty body was
    read as the zero message. -/
inductive UnaryRequestOnWire where
  | body (b : Bytes)
  | aborted
  deriving DecidableEq, Repr

def unaryRequestOnWire (encoded : Option Bytes) : UnaryRequestOnWire :=
  match encoded with
  | some b => .body b
  | none => .aborted

def unaryRequestOnWirePinned (encoded : Option Bytes) : UnaryRequestOnWire :=
  match encoded with
  | some b => .body b
  | none => .body []

def clientDecode (decStatus : Bytes → Option WireErr) (cfg : CCfg) (statusText : Bytes) (r : Resp) : ClientObs :=
  let streamObs :=
    match cfg.proto with
    | .connect => if cfg.kind = .unary then clientConnectUnary cfg statusText r else clientConnectStream cfg r
    | _ => clientGrpc decStatus cfg r
  match cfg.proto, cfg.kind with
  | .connect, .unary => streamObs
  | _, .unary => unaryWrap streamObs
  | _, .client => unaryWrap streamObs
  | _, _ => streamObs

end ConnectModel
