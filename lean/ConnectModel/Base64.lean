/-
  ConnectModel.Base64 — EncodeBinaryHeader / DecodeBinaryHeader (header.go) over a byte-exact
  model of encoding/base64's Std and RawStd codecs (strict mode off, as Go's defaults).
-/
import ConnectModel.Basic

namespace ConnectModel

/-- the standard alphabet: index → character -/
def b64Char (n : Nat) : UInt8 :=
  if n < 26 then UInt8.ofNat (65 + n)
  else if n < 52 then UInt8.ofNat (71 + n)      -- 'a' = 97 = 71 + 26
  else if n < 62 then UInt8.ofNat (n - 4)       -- '0' = 48 = 52 - 4
  else if n = 62 then 43 else 47                -- '+', '/'

/-- character → index, `none` for bytes outside the alphabet -/
def b64Val (c : UInt8) : Option Nat :=
  let n := c.toNat
  if 65 ≤ n && n ≤ 90 then some (n - 65)
  else if 97 ≤ n && n ≤ 122 then some (n - 71)
  else if 48 ≤ n && n ≤ 57 then some (n + 4)
  else if n = 43 then some 62
  else if n = 47 then some 63
  else none

/-- `base64.RawStdEncoding.EncodeToString` (no padding). -/
def b64EncodeRaw : Bytes → Bytes
  | [] => []
  | [a] => [b64Char (a.toNat / 4), b64Char (a.toNat % 4 * 16)]
  | [a, b] => [b64Char (a.toNat / 4), b64Char (a.toNat % 4 * 16 + b.toNat / 16), b64Char (b.toNat % 16 * 4)]
  | a :: b :: c :: rest =>
    b64Char (a.toNat / 4) :: b64Char (a.toNat % 4 * 16 + b.toNat / 16) ::
    b64Char (b.toNat % 16 * 4 + c.toNat / 64) :: b64Char (c.toNat % 64) :: b64EncodeRaw rest

/-- `base64.StdEncoding.EncodeToString` (padded) — what a conforming peer may send. -/
def b64EncodeStd : Bytes → Bytes
  | [] => []
  | [a] => [b64Char (a.toNat / 4), b64Char (a.toNat % 4 * 16), 61, 61]
  | [a, b] => [b64Char (a.toNat / 4), b64Char (a.toNat % 4 * 16 + b.toNat / 16), b64Char (b.toNat % 16 * 4), 61]
  | a :: b :: c :: rest =>
    b64Char (a.toNat / 4) :: b64Char (a.toNat % 4 * 16 + b.toNat / 16) ::
    b64Char (b.toNat % 16 * 4 + c.toNat / 64) :: b64Char (c.toNat % 64) :: b64EncodeStd rest

/-- Go's decoder drops '\r' and '\n' anywhere in the input. -/
def dropNewlines (s : Bytes) : Bytes := s.filter fun c => !(c.toNat == 10 || c.toNat == 13)

/-- Decode quanta without padding (RawStd): groups of 4, then a tail of 0, 2 or 3 characters.
    Non-strict: leftover bits of the tail are ignored. `none` = CorruptInputError. -/
def b64DecodeRawCore : Bytes → Option Bytes
  | [] => some []
  | [_] => none
  | [a, b] =>
    match b64Val a, b64Val b with
    | some x, some y => some [UInt8.ofNat (x * 4 + y / 16)]
    | _, _ => none
  | [a, b, c] =>
    match b64Val a, b64Val b, b64Val c with
    | some x, some y, some z => some [UInt8.ofNat (x * 4 + y / 16), UInt8.ofNat (y % 16 * 16 + z / 4)]
    | _, _, _ => none
  | a :: b :: c :: d :: rest =>
    match b64Val a, b64Val b, b64Val c, b64Val d, b64DecodeRawCore rest with
    | some x, some y, some z, some w, some r =>
      some (UInt8.ofNat (x * 4 + y / 16) :: UInt8.ofNat (y % 16 * 16 + z / 4) :: UInt8.ofNat (z % 4 * 64 + w) :: r)
    | _, _, _, _, _ => none

/-- Padded decoding (Std): full groups of 4 alphabet characters; the *last* group may be
    `xx==` or `xxx=`; padding anywhere else, or a short group, is corrupt input. -/
def b64DecodeStdCore : Bytes → Option Bytes
  | [] => some []
  | [a, b, c, d] =>
    if c.toNat == 61 then
      if d.toNat == 61 then
        match b64Val a, b64Val b with
        | some x, some y => some [UInt8.ofNat (x * 4 + y / 16)]
        | _, _ => none
      else none
    else if d.toNat == 61 then
      match b64Val a, b64Val b, b64Val c with
      | some x, some y, some z => some [UInt8.ofNat (x * 4 + y / 16), UInt8.ofNat (y % 16 * 16 + z / 4)]
      | _, _, _ => none
    else
      match b64Val a, b64Val b, b64Val c, b64Val d with
      | some x, some y, some z, some w =>
        some [UInt8.ofNat (x * 4 + y / 16), UInt8.ofNat (y % 16 * 16 + z / 4), UInt8.ofNat (z % 4 * 64 + w)]
      | _, _, _, _ => none
  | a :: b :: c :: d :: rest =>
    match b64Val a, b64Val b, b64Val c, b64Val d, b64DecodeStdCore rest with
    | some x, some y, some z, some w, some r =>
      some (UInt8.ofNat (x * 4 + y / 16) :: UInt8.ofNat (y % 16 * 16 + z / 4) :: UInt8.ofNat (z % 4 * 64 + w) :: r)
    | _, _, _, _, _ => none
  | _ => none

/-- `EncodeBinaryHeader` -/
def encodeBinaryHeader (data : Bytes) : Bytes := b64EncodeRaw data

/-- `DecodeBinaryHeader`: the decoder is selected on the *raw* length (before newline removal),
    as the Go code does. -/
def decodeBinaryHeader (data : Bytes) : Option Bytes :=
  if data.length % 4 ≠ 0 then b64DecodeRawCore (dropNewlines data)
  else b64DecodeStdCore (dropNewlines data)

end ConnectModel
