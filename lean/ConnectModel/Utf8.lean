/-
  ConnectModel.Utf8 — unicode/utf8.Valid and strings.ToValidUTF8(s, "�") as the library
  uses them since fix F23 (error messages that go into a gRPC status or a Connect error JSON).
  `runeLen` follows utf8.DecodeRune's table (first-byte classes, accepted ranges of the second
  byte, continuation bytes): 0 = not the start of a well-formed rune.
-/
import ConnectModel.Basic

namespace ConnectModel

def isCont (b : UInt8) : Bool := 0x80 ≤ b.toNat && b.toNat ≤ 0xBF

/-- the accepted range of the second byte depends on the first (utf8.go's `acceptRanges`) -/
def secondOK (b0 b1 : Nat) : Bool :=
  (if b0 = 0xE0 then 0xA0 else if b0 = 0xF0 then 0x90 else 0x80) ≤ b1 &&
  b1 ≤ (if b0 = 0xED then 0x9F else if b0 = 0xF4 then 0x8F else 0xBF)

/-- length (1..4) of the well-formed rune at the head of `bs`, or 0 -/
def runeLen : Bytes → Nat
  | [] => 0
  | b0 :: rest =>
    if b0.toNat < 0x80 then 1
    else if 0xC2 ≤ b0.toNat && b0.toNat ≤ 0xDF then
      (match rest with
       | b1 :: _ => if isCont b1 then 2 else 0
       | _ => 0)
    else if 0xE0 ≤ b0.toNat && b0.toNat ≤ 0xEF then
      (match rest with
       | b1 :: b2 :: _ => if secondOK b0.toNat b1.toNat && isCont b2 then 3 else 0
       | _ => 0)
    else if 0xF0 ≤ b0.toNat && b0.toNat ≤ 0xF4 then
      (match rest with
       | b1 :: b2 :: b3 :: _ => if secondOK b0.toNat b1.toNat && isCont b2 && isCont b3 then 4 else 0
       | _ => 0)
    else 0

/-- `utf8.Valid` (fuel = length of the input suffices) -/
def utf8ValidAux : Nat → Bytes → Bool
  | _, [] => true
  | 0, _ :: _ => false
  | fuel + 1, bs =>
    let k := runeLen bs
    if k = 0 then false else utf8ValidAux fuel (bs.drop k)

def utf8Valid (bs : Bytes) : Bool := utf8ValidAux bs.length bs

/-- U+FFFD in UTF-8 -/
def replacementChar : Bytes := [0xEF, 0xBF, 0xBD]

/-- `strings.ToValidUTF8(s, "�")`: well-formed runes are copied, every *run* of bytes that
    start no well-formed rune becomes one U+FFFD (`inBad`: the previous byte was such a byte) -/
def toValidAux : Nat → Bytes → Bool → Bytes
  | _, [], _ => []
  | 0, _ :: _, _ => []
  | fuel + 1, b :: rest, inBad =>
    let k := runeLen (b :: rest)
    if k = 0 then
      (if inBad then [] else replacementChar) ++ toValidAux fuel rest true
    else
      (b :: rest).take k ++ toValidAux fuel ((b :: rest).drop k) false

def toValidUTF8 (bs : Bytes) : Bytes := toValidAux bs.length bs false

/-! ### error messages on the wire (fix F23) -/

/-- the message of an error as `grpcStatusFromError` / `connectWireError.MarshalJSON` serialize it -/
def wireErrorMessage (m : Bytes) : Bytes := toValidUTF8 m

/-- `proto.Marshal` of a `string` field and `protojson` accept exactly valid UTF-8 (the Protobuf
    runtime's rule; trusted, sampled by the probes that send such messages) -/
def marshalAcceptsMessage (m : Bytes) : Bool := utf8Valid m

end ConnectModel
