/-
  ConnectModel.HandlerSide — what a handler's user code observes from an arbitrary request:
  the guards of `ServeHTTP` (Dispatch), timeout parsing, compression negotiation, and then
  `Receive` in a loop over the request body (envelopes) or the single unary body.
-/
import ConnectModel.Envelope
import ConnectModel.Dispatch
import ConnectModel.Negotiate
import ConnectModel.Timeout
import ConnectModel.Proto

namespace ConnectModel

/-- how the request stream ends from the handler's point of view -/
inductive HEnd where
  | eof                    -- an error wrapping io.EOF: clean end of the request stream
  | fail (code : Nat)
  deriving DecidableEq, Repr

/-- parsers the library delegates to (encoding/json, net/textproto): parameters of the model -/
structure SpecialParsers where
  jsonOK : Bytes → Bool          -- the end-of-stream payload unmarshals as connectEndStreamMessage
  trailerOK : Bytes → Bool       -- the gRPC-Web trailer payload parses as a MIME header block, or
                                 -- fails with an error that wraps io.EOF (the empty block):
                                 -- either way `Receive` reports the end of the request stream

/-- `connectStreamingUnmarshaler.Unmarshal` / `grpcUnmarshaler.Unmarshal` on a special envelope -/
def specialEnvelope (p : Proto) (sp : SpecialParsers) (fl : UInt8) (data : Bytes) : HEnd :=
  match p with
  | .connect =>
    if fl.toNat / 2 % 2 = 1 then (if sp.jsonOK data then .eof else .fail codeInternal)
    else .fail codeInternal                               -- "invalid envelope flags"
  | .grpc => .fail codeInternal                            -- plain gRPC defines no special envelope
  | .grpcWeb =>
    if fl.toNat / 128 % 2 = 1 then (if sp.trailerOK data then .eof else .fail codeInternal)
    else .fail codeInternal

/-- messages yielded to user code by `Receive` until it fails, and how it fails -/
def handlerYields (p : Proto) (sp : SpecialParsers) : List (Yield Bytes) → List Bytes × HEnd
  | [] => ([], .fail codeInternal)                         -- not reached: recvAll always ends with a non-message
  | .msg v :: rest => let r := handlerYields p sp rest; (v.getD [] :: r.1, r.2)
  | .endSpecial fl d :: _ => ([], specialEnvelope p sp fl d)
  | .fail e :: _ => ([], if e.wrapsEOF then .eof else .fail e.code)

/-- a streaming handler (client-stream / bidi) that calls `Receive` until it fails -/
def handlerRecvStream (p : Proto) (sp : SpecialParsers) (cfg : ReaderCfg Bytes) (src : Src) : List Bytes × HEnd :=
  handlerYields p sp ((recvAll cfg (src.flat.length / 5 + 2)).run takeExact src).1.1

/-- what `receiveUnaryRequest` (fix F18) makes of an enveloped request side that is to hold a
    single message (unary over gRPC / gRPC-Web, server streaming over all three protocols), given
    what `Receive` would yield until it fails: `.inl v` = user code runs and gets `v`;
    `.inr code` = the call fails with `code` and user code does not run. The second `Receive`
    must report the clean end: a second message is `unimplemented`, a failure is that failure. -/
def singleRequest : List Bytes × HEnd → Sum Bytes Nat
  | ([], .eof) => .inr codeUnknown                 -- NewError(CodeUnknown, io.EOF) goes on the wire
  | ([], .fail c) => .inr c
  | ([v], .eof) => .inl v
  | ([_], .fail c) => .inr c
  | (_ :: _ :: _, _) => .inr codeUnimplemented     -- "unary request has multiple messages"

/-- the same before fix F18: one `Receive`, the rest of the request side is never looked at -/
def singleRequestPinned : List Bytes × HEnd → Sum Bytes Nat
  | ([], .eof) => .inr codeUnknown
  | ([], .fail c) => .inr c
  | (v :: _, _) => .inl v

/-- the single `Receive` of a unary Connect handler: the whole body is the message
    (`connectUnaryUnmarshaler.UnmarshalFunc`) -/
def handlerRecvUnaryConnect (cfg : ReaderCfg Bytes) (src : Src) : Option Bytes × HEnd :=
  let limit := if cfg.max > 0 then some (cfg.max + 1) else none
  let (data, err, _) := readAllLimited limit src
  match err with
  | some e => (none, .fail (wrapReaderErr codeUnknown e).code)
  | none =>
    if cfg.max > 0 ∧ data.length > cfg.max then (none, .fail codeInvalidArgument)
    else
      let decoded : Option Bytes :=
        if data.length > 0 then
          match cfg.pool with
          | some z =>
            match decompressLimited z cfg.max data with
            | (.ok d, _) => some d
            | (.fail, _) => none
          | none => some data
        else some data
      match decoded with
      | none => (none, .fail codeInvalidArgument)
      | some d =>
        match cfg.codec.unmarshal d with
        | some v => (some v, .eof)
        | none => (none, .fail codeInvalidArgument)

/-- decisions taken before user code may run (after the three guards of `Dispatch`) -/
inductive PreCheck where
  | reject (code : Nat)          -- the call is closed with this error; user code does not run
  | run (requestPool : Bool)     -- user code runs; whether the request side has a decompressor
  deriving DecidableEq, Repr

/-- `SetTimeout` + `NewConn`'s negotiation: negotiation failure is reported first (the conn is
    closed with it inside `NewConn`), then an invalid timeout -/
def preCheck (p : Proto) (reg : List Bytes) (sent accept timeoutHeader : Bytes) : PreCheck :=
  match negotiate reg sent accept with
  | .unimplemented _ => .reject codeUnimplemented
  | .ok req _ =>
    let t := match p with
      | .connect => connectParseTimeout timeoutHeader
      | _ => grpcParseTimeout timeoutHeader
    match t with
    | .invalid => .reject codeInvalidArgument
    | _ => .run (req ≠ Gen.compressionIdentity)

/-- `context.WithTimeout` with a duration ≤ 0 yields a context that is already done
    (`DeadlineExceeded`) when the handler is entered. -/
def handlerParseTimeout (p : Proto) (timeoutHeader : Bytes) : TimeoutParse :=
  match p with
  | .connect => connectParseTimeout timeoutHeader
  | _ => grpcParseTimeout timeoutHeader

def expiredOnArrival (p : Proto) (timeoutHeader : Bytes) : Bool :=
  match handlerParseTimeout p timeoutHeader with
  | .ok nanos => decide (nanos ≤ 0)
  | _ => false

/-- `NewUnaryHandler`'s gate (`if err := ctx.Err(); err != nil { return nil, err }` in front of
    the user function, after the request message was received): `none` = the user function
    runs, `some code` = it does not and the call fails with that code. -/
def unaryGate (p : Proto) (timeoutHeader : Bytes) : Option Nat :=
  if expiredOnArrival p timeoutHeader then some codeDeadlineExceeded else none

/-! ## the deadline the handler's context gets

  `SetTimeout` derives the handler's context with `context.WithTimeout(request.Context(), d)`.
  `context.WithTimeout` (Go runtime, trusted) never moves a deadline later: the child's deadline
  is the earlier of the parent's and `now + d`. Times are nanoseconds on one clock. -/

/-- `context.WithTimeout(parent, d)` at time `now`: the child's deadline -/
def withTimeoutDeadline (parent : Option Int) (now d : Int) : Int :=
  match parent with
  | none => now + d
  | some p => if p < now + d then p else now + d

/-- the deadline of the context handed to user code: `none` = no deadline. (A rejected timeout
    never gets that far: `TimeoutParse.invalid` is answered before a context is derived.) -/
def handlerDeadline (server : Option Int) (now : Int) (parse : TimeoutParse) : Option Int :=
  match parse with
  | .ok d => some (withTimeoutDeadline server now d)
  | _ => server

end ConnectModel
