/-
  ConnectModel.Options — option.go / interceptor.go: how `WithInterceptors`, grouped and nested
  option values fold into `config.Interceptor`, and how a chain wraps a function.

  `Opt` is the option *tree* a user writes; `Icpt` is the runtime interceptor value the config
  ends up holding; `wrap` mirrors the three `Wrap*` loops of `chain` for an abstract function
  space `F` (so one theorem serves WrapUnary, WrapStreamingClient and WrapStreamingHandler).
-/
namespace ConnectModel

abbrev IcptId := Nat

/-- an option value as written by the user -/
inductive Opt where
  | interceptors (is : List (Option IcptId))   -- WithInterceptors(a, nil, b, ...)
  | group (os : List Opt)                      -- WithOptions / WithClientOptions / WithHandlerOptions
  | other                                      -- any option that does not touch interceptors

/-- runtime interceptor values: a user interceptor, or a `*chain` holding its members in the
    order `newChain` stores them (reversed, nils dropped) -/
inductive Icpt where
  | atom (i : IcptId)
  | chain (members : List Icpt)

/-- `newChain`: walk the slice from the end, skip nil, append. -/
def newChain (xs : List (Option Icpt)) : Icpt := .chain (xs.reverse.filterMap id)

/-- `interceptorsOption.chainWith(current)` — the three branches as in option.go. -/
def chainWith (o : List (Option IcptId)) (current : Option Icpt) : Option Icpt :=
  match o, current with
  | [], cur => cur
  | [x], none => x.map Icpt.atom                       -- returns o.Interceptors[0] itself (may be nil)
  | o, none => some (newChain (o.map (·.map Icpt.atom)))
  | o, some c => some (newChain (some c :: o.map (·.map Icpt.atom)))

mutual
/-- `applyToClient` / `applyToHandler` restricted to the `Interceptor` field of the config. -/
def applyOpt : Opt → Option Icpt → Option Icpt
  | .interceptors is, cur => chainWith is cur
  | .group os, cur => applyOpts os cur
  | .other, cur => cur
def applyOpts : List Opt → Option Icpt → Option Icpt
  | [], cur => cur
  | o :: os, cur => applyOpts os (applyOpt o cur)
end

mutual
/-- `interceptor.Wrap*(next)`; for a chain: `for _, i := range c.interceptors { next = i.Wrap(next) }` -/
def Icpt.wrap {F : Type} (w : IcptId → F → F) : Icpt → F → F
  | .atom i, next => w i next
  | .chain ms, next => Icpt.wrapList w ms next
def Icpt.wrapList {F : Type} (w : IcptId → F → F) : List Icpt → F → F
  | [], next => next
  | m :: ms, next => Icpt.wrapList w ms (m.wrap w next)
end

/-- `if interceptor := config.Interceptor; interceptor != nil { f = interceptor.Wrap(f) }` -/
def wrapConfig {F : Type} (w : IcptId → F → F) (cfg : Option Icpt) (next : F) : F :=
  match cfg with
  | none => next
  | some i => i.wrap w next

mutual
/-- declaration order of the non-nil interceptors of an option tree -/
def Opt.flatten : Opt → List IcptId
  | .interceptors is => is.filterMap id
  | .group os => Opt.flattenList os
  | .other => []
def Opt.flattenList : List Opt → List IcptId
  | [] => []
  | o :: os => o.flatten ++ Opt.flattenList os
end

/-- the effective nesting order, outermost first, as the *model of the code* computes it:
    wrap the log-collecting function space `List IcptId` -/
def effectiveOrder (opts : List Opt) : List IcptId :=
  wrapConfig (F := List IcptId) (fun i rest => i :: rest) (applyOpts opts none) []

/-! ## scalar options: `WithReadMaxBytes` (the same shape serves every "last one wins" option)

  `readMaxBytesOption.applyToClient/Handler` assigns its value to the config field; options are
  applied in the order given, groups (`WithOptions`) in place. -/

inductive SOpt where
  | readMax (n : Nat)           -- WithReadMaxBytes(n); 0 = no limit
  | group (os : List SOpt)
  | other

mutual
def SOpt.apply : SOpt → Nat → Nat
  | .readMax n, _ => n
  | .group os, cur => SOpt.applyList os cur
  | .other, cur => cur
def SOpt.applyList : List SOpt → Nat → Nat
  | [], cur => cur
  | o :: os, cur => SOpt.applyList os (o.apply cur)
end

mutual
/-- the values given, in declaration order -/
def SOpt.values : SOpt → List Nat
  | .readMax n => [n]
  | .group os => SOpt.valuesList os
  | .other => []
def SOpt.valuesList : List SOpt → List Nat
  | [] => []
  | o :: os => o.values ++ SOpt.valuesList os
end

/-- is a message of `size` bytes within the limit `n` (0 = none)? -/
def withinLimit (n size : Nat) : Bool := n == 0 || decide (size ≤ n)

end ConnectModel
