/-
  ConnectModel.Pool — buffer_pool.go / compression.go pools as an ownership discipline:
  a pooled object is either in the pool or held by exactly one call; `Get` hands out a cleared
  object, `Put` clears it. Two views:
  * `PoolTrace`: what the verif observer records (Get / Put of concrete buffers) — accepted iff
    no buffer is handed out twice without a Put in between and none is put twice;
  * `Store`: calls writing to / reading from buffers they hold — the semantics in which
    "each call's result is what the same call would produce alone" is stated.
-/
import ConnectModel.Basic

namespace ConnectModel

abbrev BufId := Nat
abbrev CallId := Nat

/-! ## observed Get / Put traces -/

inductive PoolEv where
  | get (b : BufId)
  | put (b : BufId)
  deriving DecidableEq, Repr

structure PoolTrace where
  out : List BufId          -- handed out, not yet returned
  inPool : List BufId       -- returned and available
  deriving Repr

/-- one observed event; `none` = the discipline is broken -/
def poolStep (s : PoolTrace) : PoolEv → Option PoolTrace
  | .get b =>
    if b ∈ s.out then none                                   -- handed out twice
    else some { out := b :: s.out, inPool := s.inPool.erase b }
  | .put b =>
    if b ∈ s.inPool then none                                -- returned twice
    else some { out := s.out.erase b, inPool := b :: s.inPool }   -- adopting a fresh buffer is fine (bytes.NewBuffer(raw))

def poolRun : PoolTrace → List PoolEv → Nat → Option Nat      -- index of the first rejected event
  | _, [], _ => none
  | s, e :: rest, i =>
    match poolStep s e with
    | none => some i
    | some s' => poolRun s' rest (i + 1)

/-! ## calls using buffers they hold -/

inductive BufEv where
  | get (c : CallId) (b : BufId)
  | write (c : CallId) (b : BufId) (d : Bytes)
  | read (c : CallId) (b : BufId)
  | put (c : CallId) (b : BufId)
  deriving DecidableEq, Repr

def BufEv.call : BufEv → CallId
  | .get c _ => c | .write c _ _ => c | .read c _ => c | .put c _ => c

/-- held buffers with their owner and contents (buffers in the pool are empty: `Put` resets) -/
abbrev Store := BufId → Option (CallId × Bytes)

def Store.find (s : Store) (b : BufId) : Option (CallId × Bytes) := s b

def Store.set (s : Store) (b : BufId) (c : CallId) (d : Bytes) : Store := fun x => if x = b then some (c, d) else s x

def Store.remove (s : Store) (b : BufId) : Store := fun x => if x = b then none else s x

def Store.empty : Store := fun _ => none

/-- one event under the discipline: a call may only touch buffers it holds; `none` = violation.
    The second component is what a `read` observes. -/
def bufStep (s : Store) : BufEv → Option (Store × Option (CallId × Bytes))
  | .get c b =>
    match s.find b with
    | some _ => none                                          -- someone holds it
    | none => some (s.set b c [], none)
  | .write c b d =>
    match s.find b with
    | some (c', old) => if c' = c then some (s.set b c (old ++ d), none) else none
    | none => none
  | .read c b =>
    match s.find b with
    | some (c', d) => if c' = c then some (s, some (c, d)) else none
    | none => none
  | .put c b =>
    match s.find b with
    | some (c', _) => if c' = c then some (s.remove b, none) else none
    | none => none

/-- run a history; returns the final store and the log of reads -/
def bufRun : Store → List BufEv → Option (Store × List (CallId × Bytes))
  | s, [] => some (s, [])
  | s, e :: rest =>
    match bufStep s e with
    | none => none
    | some (s', r) =>
      match bufRun s' rest with
      | none => none
      | some (sf, log) => some (sf, (match r with | some x => [x] | none => []) ++ log)

end ConnectModel
