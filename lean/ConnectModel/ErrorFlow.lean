/-
  ConnectModel.ErrorFlow — error.go: Go error values as chains (`errors.Is` / `errors.As`),
  `asError`, `wrapIfContextError`, `wrapIfUncoded`, `wrapIfRSTError`, and the layers a body-read
  or request error passes through on its way to the caller of a client API
  (duplex_http_call.go → envelope.go → protocol conn → errorTranslatingClientConn).
-/
import ConnectModel.Basic
import ConnectModel.Gen.Tables
import ConnectModel.Envelope

namespace ConnectModel

inductive CtxKind where
  | canceled | deadline
  deriving DecidableEq, Repr

def ctxCode : CtxKind → Nat
  | .canceled => 1
  | .deadline => 4

/-- Go error values, as far as `errors.Is`, `errors.As` and the RST text matching see them -/
inductive GoError where
  | ctx (k : CtxKind)                         -- context.Canceled / context.DeadlineExceeded
  | eof                                       -- io.EOF
  | unexpectedEOF
  | rst (name : Bytes)                        -- "stream error: stream ID n; NAME; received from peer"
  | opaque                                    -- any other leaf error
  | wrap (inner : GoError)                    -- fmt.Errorf("...: %w", inner), *url.Error, …
  | coded (code : Nat) (inner : GoError)      -- *connect.Error{code, err: inner}
  deriving DecidableEq, Repr

/-- `errors.Is(err, context.Canceled / DeadlineExceeded)` -/
def GoError.isCtx (k : CtxKind) : GoError → Bool
  | .ctx k' => k = k'
  | .wrap i => i.isCtx k
  | .coded _ i => i.isCtx k
  | _ => false

/-- `errors.Is(err, io.EOF)` -/
def GoError.isEOF : GoError → Bool
  | .eof => true
  | .wrap i => i.isEOF
  | .coded _ i => i.isEOF
  | _ => false

/-- `asError`: the first *connect.Error in the chain -/
def GoError.asError : GoError → Option Nat
  | .coded c _ => some c
  | .wrap i => i.asError
  | _ => none

/-- `CodeOf(err)` -/
def GoError.codeOf (e : GoError) : Nat := e.asError.getD codeUnknown

/-- `wrapIfContextError` -/
def wrapIfContextError (e : GoError) : GoError :=
  match e.asError with
  | some _ => e
  | none =>
    if e.isCtx .canceled then .coded 1 e
    else if e.isCtx .deadline then .coded 4 e
    else e

/-- `wrapIfUncoded` -/
def wrapIfUncoded (e : GoError) : GoError :=
  let m := wrapIfContextError e
  match m.asError with
  | some _ => m
  | none => .coded codeUnknown m

def lookupRST (t : List (Bytes × Nat)) (name : Bytes) : Option Nat :=
  match t with
  | [] => none
  | (n, c) :: rest => if name = n then some c else lookupRST rest name

/-- the leaf `wrapIfRSTError` looks at (after unwrapping one *url.Error) -/
def GoError.rstName : GoError → Option Bytes
  | .rst n => some n
  | .wrap (.rst n) => some n
  | _ => none

/-- `wrapIfRSTError` -/
def wrapIfRSTError (e : GoError) : GoError :=
  match e.asError with
  | some _ => e
  | none =>
    match e.rstName with
    | some n => (match lookupRST Gen.rstToCode n with
                 | some c => .coded c e
                 | none => e)
    | none => e

/-- `duplexHTTPCall.Read`: the error a failing response-body read yields
    (`wrapIfContextError(wrapIfRSTError(err))`, fix 7ec8af8) -/
def duplexReadError (bodyErr : GoError) : GoError := wrapIfContextError (wrapIfRSTError bodyErr)

/-- `duplexHTTPCall.Read` with the call's stored error taken into account (fix F7): a failing
    body read that is not the end of the body reports the error the call already failed with —
    e.g. the context error that the context watcher stored before closing the request pipe
    under the transport, whatever the transport then says (closed pipe, stream reset, …). -/
def duplexReadErrorStored (stored : Option GoError) (bodyErr : GoError) : GoError :=
  if bodyErr.isEOF then duplexReadError bodyErr
  else match stored with
    | some s => s
    | none => duplexReadError bodyErr

/-- `duplexHTTPCall.CloseRead` when draining or closing the response body fails (fix F13): as in
    `Read`, the error the call already failed with wins; `errorTranslatingClientConn` then
    applies `wrapIfUncoded` -/
def duplexCloseReadError (stored : Option GoError) (bodyErr : GoError) : GoError :=
  match stored with
  | some s => s
  | none => wrapIfRSTError bodyErr

def clientCloseResponseError (stored : Option GoError) (bodyErr : GoError) : GoError :=
  wrapIfUncoded (duplexCloseReadError stored bodyErr)

/-- `duplexHTTPCall.makeRequest` on a failing `Do`: context, (h2c / gRPC hints), RST, else unavailable -/
def doError (e : GoError) : GoError :=
  let e1 := wrapIfRSTError (wrapIfContextError e)
  match e1.asError with
  | some _ => e1
  | none => .coded 14 e1

/-- `wrapIfContextDone(ctx, err)` (fix F16): an uncoded error of a call whose context has ended
    (`done = some k`: `ctx.Err()` is Canceled / DeadlineExceeded) is coded by the context's state,
    whatever the error looks like — net/http reports `context.Cause(ctx)`, which for contexts made
    with `WithCancelCause` / `WithTimeoutCause` wraps neither sentinel. -/
def wrapIfContextDone (done : Option CtxKind) (e : GoError) : GoError :=
  match e.asError with
  | some _ => e
  | none =>
    match done with
    | some k => .coded (ctxCode k) e
    | none => e

/-- `duplexHTTPCall.Read` after fix F16: `done` is the state of the call's context when the body
    read has failed -/
def duplexReadErrorDone (stored : Option GoError) (done : Option CtxKind) (bodyErr : GoError) : GoError :=
  if bodyErr.isEOF then duplexReadError bodyErr
  else match stored with
    | some s => s
    | none => duplexReadError (wrapIfContextDone done (wrapIfContextError bodyErr))

/-- `duplexHTTPCall.makeRequest` on a failing `Do` after fix F16 -/
def doErrorDone (done : Option CtxKind) (e : GoError) : GoError :=
  let e1 := wrapIfRSTError (wrapIfContextDone done (wrapIfContextError e))
  match e1.asError with
  | some _ => e1
  | none => .coded 14 e1

/-- `duplexHTTPCall.CloseRead` after fixes F26 / F27: the context is watched until the drain is
    over (so its error may have been stored), and otherwise the state of the context classifies
    what the failing drain reports -/
def duplexCloseReadErrorDone (stored : Option GoError) (done : Option CtxKind) (bodyErr : GoError) : GoError :=
  match stored with
  | some s => s
  | none => wrapIfRSTError (wrapIfContextDone done (wrapIfContextError bodyErr))

def clientCloseResponseErrorDone (stored : Option GoError) (done : Option CtxKind) (bodyErr : GoError) : GoError :=
  wrapIfUncoded (duplexCloseReadErrorDone stored done bodyErr)

/-- the call's error when response validation fails (`makeRequest`, fix F25): validation may read
    the response body (unary Connect errors); if the context has ended by then, its error is the
    call's error, not whatever validation made of a body it could not finish reading -/
def validationError (done : Option CtxKind) (validation : GoError) : GoError :=
  match done with
  | some k => wrapIfContextError (.ctx k)
  | none => validation

/-- `SetError`: the first error is stored, context errors coded -/
def setError (stored : Option GoError) (e : GoError) : Option GoError :=
  match stored with
  | some s => some s
  | none => some (wrapIfContextError e)

/-- `envelopeReader.Read` on a reader error met while reading the *prefix* with `n` bytes read -/
def envelopePrefixError (n : Nat) (e : GoError) : GoError :=
  if e.isEOF && n = 0 then .coded codeUnknown e
  else match e.asError with
    | some _ => e
    | none => .coded codeInvalidArgument (.wrap (if e.isEOF then .unexpectedEOF else e))

/-- … and while reading the *payload* (non-EOF errors; fix 7ec8af8 keeps coded errors) -/
def envelopePayloadError (e : GoError) : GoError :=
  match e.asError with
  | some _ => e
  | none => .coded codeUnknown (.wrap e)

/-- … and while *discarding* the payload of a message that is over the read limit
    (`io.CopyN(io.Discard, …)`): running out of body is still "too large"; any other failure is
    reported — after fix F19 with the code it already has -/
def envelopeDiscardError (e : GoError) : GoError :=
  if e.isEOF then .coded codeInvalidArgument .opaque
  else match e.asError with
    | some _ => e
    | none => .coded codeUnknown (.wrap e)

/-- the discard path as it was before fix F19: `errorf(CodeUnknown, "read enveloped message: %w", err)` -/
def envelopeDiscardErrorPinned (e : GoError) : GoError :=
  if e.isEOF then .coded codeInvalidArgument .opaque else .coded codeUnknown (.wrap e)

/-- `connectUnaryUnmarshaler.UnmarshalFunc` when discarding the rest of an over-limit body fails
    with `e` (`io.Copy` never reports io.EOF); after fix F19 a coded error keeps its code -/
def unaryDiscardError (e : GoError) : GoError :=
  match e.asError with
  | some _ => e
  | none => .coded codeInvalidArgument (.wrap e)

def unaryDiscardErrorPinned (e : GoError) : GoError := .coded codeInvalidArgument (.wrap e)

/-- the error `Send` returns when the *prefix* write fails with `e` (`envelopeWriter.write`:
    an already coded error is returned as is) -/
def envelopeWritePrefixError (e : GoError) : GoError :=
  match e.asError with
  | some _ => e
  | none => .coded codeUnknown (.wrap e)

/-- … and when the *payload* write (`io.Copy(w.writer, env.Data)`) fails with `e`
    (after fix 1c4dc89 an already coded error is kept here too) -/
def envelopeWritePayloadError (e : GoError) : GoError :=
  match e.asError with
  | some _ => e
  | none => .coded codeUnknown (.wrap e)

/-- the payload path as it was at the pinned commit (kept for the history lemma F11):
    `errorf(CodeUnknown, "write message: %w", err)` without the `asError` check -/
def envelopeWritePayloadErrorPinned (e : GoError) : GoError := .coded codeUnknown (.wrap e)

/-- `duplexHTTPCall.Write` when the context is already done -/
def duplexWriteCtxError (k : CtxKind) : GoError := wrapIfContextError (.ctx k)

/-- `duplexHTTPCall.Write` on a call whose context is done, with the call's stored error taken
    into account: the context's error is what is *returned*, whatever ended the call earlier (the
    peer's error, the clean end of the response); it is also offered to `SetError`, which keeps
    the first. Result: (returned error, stored error afterwards). -/
def duplexWriteDone (stored : Option GoError) (k : CtxKind) : GoError × Option GoError :=
  (duplexWriteCtxError k, setError stored (.ctx k))

/-- what a protocol conn's `Receive` returns for an envelope-level error `e` when the response
    carries no server error (Connect streaming after fix 5db0304; gRPC with empty trailers):
    an EOF-like error without terminator becomes an internal protocol error, anything else is
    returned as is (and stored) -/
def clientReceiveError (e : GoError) : GoError :=
  if e.isEOF then .coded codeInternal .unexpectedEOF else e

end ConnectModel
