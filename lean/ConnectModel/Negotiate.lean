/-
  ConnectModel.Negotiate — compression.go `newReadOnlyCompressionPools` (advertised order),
  protocol.go `negotiateCompression`, and which encoding header a handler sets.
-/
import ConnectModel.Basic
import ConnectModel.Gen.Tables
import ConnectModel.Dispatch

namespace ConnectModel

/-- keep the first occurrence of each name -/
def dedupKeepFirst : List Bytes → List Bytes → List Bytes
  | [], _ => []
  | x :: xs, seen => if x ∈ seen then dedupKeepFirst xs seen else x :: dedupKeepFirst xs (x :: seen)

/-- `newReadOnlyCompressionPools(nameToPool, reversedNames)`: walk the registration slice from
    the end, skipping names already seen: most recently registered first. `reg` is the slice
    `config.CompressionNames` in registration order (duplicates possible). -/
def advertisedNames (reg : List Bytes) : List Bytes := dedupKeepFirst reg.reverse []

/-- `strings.Join(names, ",")` -/
def joinComma : List Bytes → Bytes
  | [] => []
  | [x] => x
  | x :: xs => x ++ [44] ++ joinComma xs

/-- `pools.Contains(name)`: key present in the name → pool map -/
def poolsContain (reg : List Bytes) (name : Bytes) : Bool := decide (name ∈ reg)

def isCommaOrSpace (c : UInt8) : Bool := c.toNat = 44 || c.toNat = 32

/-- `strings.FieldsFunc(accept, isCommaOrSpace)` -/
def fieldsAux : Bytes → Bytes → List Bytes
  | [], cur => if cur = [] then [] else [cur.reverse]
  | c :: cs, cur =>
    if isCommaOrSpace c then (if cur = [] then fieldsAux cs [] else cur.reverse :: fieldsAux cs [])
    else fieldsAux cs (c :: cur)

def acceptFields (accept : Bytes) : List Bytes := fieldsAux accept []

inductive Negotiated where
  | ok (request response : Bytes)
  | unimplemented (supported : Bytes)       -- CodeUnimplemented; message lists the supported names
  deriving DecidableEq, Repr

/-- `negotiateCompression(available, sent, accept)`: `requestCompression` is identity unless the
    client sent a supported non-identity name (an unsupported one is the unimplemented error);
    `responseCompression` starts as the request's and, only while it is identity and `accept` is
    non-empty, becomes the first accept entry the handler supports. -/
def negotiate (reg : List Bytes) (sent accept : Bytes) : Negotiated :=
  if sent ≠ [] ∧ sent ≠ Gen.compressionIdentity then
    if poolsContain reg sent then .ok sent sent
    else .unimplemented (joinComma (advertisedNames reg))
  else if accept ≠ [] then
    match (acceptFields accept).find? (poolsContain reg) with
    | some name => .ok Gen.compressionIdentity name
    | none => .ok Gen.compressionIdentity Gen.compressionIdentity
  else .ok Gen.compressionIdentity Gen.compressionIdentity

/-- which response header names the chosen algorithm at connection set-up:
    streaming Connect and gRPC(-Web) set it iff the choice is not identity; unary Connect sets
    `Content-Encoding` only when it actually compresses the body (`Unary.Marshal`). -/
def handlerEncodingHeaderAtSetup (p : Proto) (kind : StreamKind) (response : Bytes) : Option (Bytes × Bytes) :=
  if response = Gen.compressionIdentity then none
  else match p with
    | .connect => if kind = .unary then none else some (Gen.hdrConnectStreamEncoding, response)
    | _ => some (Gen.hdrGrpcEncoding, response)

/-- the request header a handler reads the client's preference list from -/
def acceptHeaderFor (p : Proto) (kind : StreamKind) : Bytes :=
  match p with
  | .connect => if kind = .unary then Gen.hdrConnectUnaryAcceptEncoding else Gen.hdrConnectStreamAcceptEncoding
  | _ => Gen.hdrGrpcAcceptEncoding

/-- the request header naming the request's own compression -/
def sentHeaderFor (p : Proto) (kind : StreamKind) : Bytes :=
  match p with
  | .connect => if kind = .unary then Gen.hdrConnectUnaryEncoding else Gen.hdrConnectStreamEncoding
  | _ => Gen.hdrGrpcEncoding

/-! ### registering an algorithm (`compressionOption.applyTo…`, fix F22) -/

/-- `WithCompression(name, newDecompressor, newCompressor)` applied to the list of registered
    names: an empty name or a nil constructor makes the option a no-op (as documented); after the
    fix `newCompressionPool` returns nil then, which is what `applyToHandler` tests. -/
def registerCompression (reg : List Bytes) (name : Bytes) (hasDecompressor hasCompressor : Bool) : List Bytes :=
  if name = [] ∨ !hasDecompressor ∨ !hasCompressor then reg else reg ++ [name]

/-- before the fix the pool was never nil: only the empty name was skipped -/
def registerCompressionPinned (reg : List Bytes) (name : Bytes) (_hasDecompressor _hasCompressor : Bool) : List Bytes :=
  if name = [] then reg else reg ++ [name]

end ConnectModel
