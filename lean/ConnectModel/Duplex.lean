/-
  ConnectModel.Duplex — duplex_http_call.go and the client conns' use of it, as a state machine
  of one client call at the API level: the sticky error cell (`SetError` / `getError`), what
  `Receive` does with it, what `Send` returns once the peer has closed the request body, and
  the request goroutine / response-ready hand-over as a small transition system.
-/
import ConnectModel.ErrorFlow
import ConnectModel.Proto

namespace ConnectModel

/-! ## receiving: the sticky error -/

/-- the response body as `Receive` meets it, one item per envelope / terminator -/
inductive RItem where
  | ok (m : Bytes)          -- a message that decodes
  | bad (code : Nat)        -- an envelope that fails locally (undecodable, oversize, undefined flags …)
  | endOK                   -- terminator reporting success
  | endErr (code : Nat)     -- terminator reporting a server error
  deriving DecidableEq, Repr

inductive RecvClass where
  | msg (m : Bytes)
  | eof                     -- error wrapping io.EOF: clean end
  | fail (code : Nat)
  deriving DecidableEq, Repr

/-- `d.err` (first error wins) together with what is left of the body -/
structure RState where
  stored : Option (Nat × Bool)      -- (code, wrapsEOF) of the stored error
  items : List RItem
  deriving DecidableEq, Repr

/-- one `Receive`: `duplexHTTPCall.Read` returns the stored error before touching the body;
    every failing `Receive` stores its error (`SetError`), a missing terminator is an error -/
def receiveStep (s : RState) : RecvClass × RState :=
  match s.stored with
  | some (c, true) => (.eof, s)
  | some (c, false) => (.fail c, s)
  | none =>
    match s.items with
    | [] => (.fail codeInternal, { s with stored := some (codeInternal, false) })     -- no terminator
    | .ok m :: rest => (.msg m, { s with items := rest })
    | .bad c :: rest => (.fail c, { stored := some (c, false), items := rest })
    | .endOK :: rest => (.eof, { stored := some (codeUnknown, true), items := rest })
    | .endErr c :: rest => (.fail c, { stored := some (c, false), items := rest })

/-- the pinned tree, for a response with `Grpc-Status` among its headers: the branch of
    `grpcClientConn.Receive` that returns the error of such a response did not record it -/
def receiveStepTrailersOnlyPinned (s : RState) : RecvClass × RState :=
  match s.stored with
  | some (_, true) => (.eof, s)
  | some (c, false) => (.fail c, s)
  | none =>
    match s.items with
    | [] => (.eof, s)
    | .ok m :: rest => (.msg m, { s with items := rest })
    | .bad c :: rest => (.fail c, { s with items := rest })          -- not stored
    | .endOK :: rest => (.eof, { s with items := rest })
    | .endErr c :: rest => (.fail c, { stored := some (c, false), items := rest })

def receiveManyTrailersOnlyPinned : Nat → RState → List RecvClass
  | 0, _ => []
  | n + 1, s => (receiveStepTrailersOnlyPinned s).1 :: receiveManyTrailersOnlyPinned n (receiveStepTrailersOnlyPinned s).2

/-- `n` consecutive `Receive` calls -/
def receiveMany : Nat → RState → List RecvClass
  | 0, _ => []
  | n + 1, s => (receiveStep s).1 :: receiveMany n (receiveStep s).2

def RecvClass.isMsg : RecvClass → Bool
  | .msg _ => true
  | _ => false

/-- how the items of a structured response body look to `Receive` (via the client model of
    `Proto`): each envelope on its own, then — for gRPC — the HTTP trailers -/
def classifyItem (dec : Bytes → Option WireErr) (undecodable : Bytes → Bool) (cfg : CCfg) (enc : Option Compressor)
    (it : BodyItem) : RItem :=
  match recvItems cfg enc [it] with
  | ([m], .cleanEOF) => if undecodable m then .bad codeInvalidArgument else .ok m
  | (_, .fail c) => .bad c
  | (_, .endStream none _) => .endOK
  | (_, .endStream (some w) _) => .endErr (fixCode w.code codeUnknown)
  | (_, .webTrailer b) =>
    (match grpcErrorFromTrailer dec (mergeHeaders [] b) with
     | .ok => .endOK
     | .serverErr w => .endErr w.code
     | _ => .endErr codeInternal)
  | _ => .bad codeInternal

/-- a response that carries `Grpc-Status` among its *headers* (what gRPC calls trailers-only):
    an error there fails the call at once; with status 0 `Receive` hands out whatever reading
    the body that nevertheless follows gives - messages, failures, and the end of the body or a
    trailer frame as the clean end (the HTTP trailers and the frame's content are not looked
    at) - and every failure is recorded like any other (fix F42) -/
def toRItemsTrailersOnly (dec : Bytes → Option WireErr) (undecodable : Bytes → Bool) (cfg : CCfg) (enc : Option Compressor)
    (r : Resp) : List RItem :=
  match grpcErrorFromTrailer dec r.header with
  | .serverErr w => [.endErr w.code]
  | .protocolErr => [.endErr codeInternal]
  | _ =>
    r.body.map (fun it =>
      match it with
      | .webTrailer _ => if cfg.proto = .grpcWeb then .endOK else classifyItem dec undecodable cfg enc it
      | _ => classifyItem dec undecodable cfg enc it) ++ [.endOK]

def toRItems (dec : Bytes → Option WireErr) (undecodable : Bytes → Bool) (cfg : CCfg) (enc : Option Compressor)
    (r : Resp) : List RItem :=
  if cfg.proto ≠ .connect ∧ (mergeHeaders [] r.header).get Gen.hdrGrpcStatus ≠ [] then
    toRItemsTrailersOnly dec undecodable cfg enc r
  else
  let items := r.body.map (classifyItem dec undecodable cfg enc)
  match cfg.proto with
  | .grpc =>
    -- plain gRPC: when an envelope fails locally the client drains the body and reads the HTTP
    -- trailers; a server error found there wins over the local failure
    let override (c : Nat) (it : RItem) : RItem := match it with
      | .bad _ => .endErr c
      | x => x
    (match grpcErrorFromTrailer dec (mergeHeaders [] r.trailer) with
     | .ok => items ++ [.endOK]
     | .serverErr w => items.map (override w.code) ++ [.endErr w.code]
     | .protocolErr => items.map (override codeInternal) ++ [.endErr codeInternal]
     | .missing => items)
  | _ => items

/-! ## the typed wrapper `ServerStreamForClient` (client_stream.go)

  `Receive() bool`, `Err() error`, `Close() error` over one conn: the wrapper keeps the error of
  the first failing `Receive` in `receiveErr`, answers later `Receive`s from it without touching
  the conn, and `Err()` hides exactly the errors that wrap `io.EOF`. `Close` closes the response
  side of the conn and leaves `receiveErr` alone. -/

inductive SOp where
  | receive | err | close
  deriving DecidableEq, Repr

inductive SOut where
  | recv (m : Option Bytes)          -- `some m`: Receive() = true and Msg() = m; `none`: false
  | err (code : Option Nat)          -- Err(): nil or the code
  | closed
  deriving DecidableEq, Repr

structure SState where
  conn : RState
  receiveErr : Option (Nat × Bool)   -- (code, wrapsEOF)
  deriving DecidableEq, Repr

def SState.start (items : List RItem) : SState := { conn := { stored := none, items := items }, receiveErr := none }

def sstep (s : SState) : SOp → SOut × SState
  | .receive =>
    match s.receiveErr with
    | some _ => (.recv none, s)
    | none =>
      match receiveStep s.conn with
      | (.msg m, c) => (.recv (some m), { s with conn := c })
      | (.eof, c) => (.recv none, { conn := c, receiveErr := some (codeUnknown, true) })
      | (.fail code, c) => (.recv none, { conn := c, receiveErr := some (code, false) })
  | .err =>
    (match s.receiveErr with
     | some (code, false) => .err (some code)
     | _ => .err none, s)
  | .close => (.closed, s)

def srun : SState → List SOp → List SOut × SState
  | s, [] => ([], s)
  | s, op :: rest =>
    let (o, s1) := sstep s op
    let (os, s2) := srun s1 rest
    (o :: os, s2)

/-! ## sending once the peer is gone -/

inductive PipeState where
  | open            -- the transport is still reading the request body
  | closedByUs      -- CloseRequest
  | closedByPeer    -- the transport closed the reader: handler finished, error, or SetError
  deriving DecidableEq, Repr

/-- `duplexHTTPCall.Write` after `ensureRequestMade`: the context check, then the pipe write;
    `io.ErrClosedPipe` is reported as `io.EOF` -/
def duplexWrite (ctxDone : Option CtxKind) (pipe : PipeState) : Option GoError :=
  match ctxDone with
  | some k => some (duplexWriteCtxError k)
  | none =>
    match pipe with
    | .open => none
    | .closedByUs => some .eof          -- write on a closed pipe: ErrClosedPipe → io.EOF
    | .closedByPeer => some .eof

/-- `Send`: prefix write, then payload write (the pipe can be closed between the two) -/
def sendResult (ctx1 ctx2 : Option CtxKind) (pipe1 pipe2 : PipeState) : Option GoError :=
  match duplexWrite ctx1 pipe1 with
  | some e => some (wrapIfUncoded (envelopeWritePrefixError e))
  | none =>
    match duplexWrite ctx2 pipe2 with
    | some e => some (wrapIfUncoded (envelopeWritePayloadError e))
    | none => none

/-! ## the request goroutine and the response-ready hand-over (interleavings) -/

/-- control state of one call: who has done what -/
structure DState where
  started : Bool                 -- sendRequestOnce fired
  requestDone : Bool             -- makeRequest returned: responseReady is closed
  responseSet : Bool             -- d.response was assigned
  err : Option Nat               -- d.err
  readerBlocked : Bool           -- an API call is inside BlockUntilResponseReady
  readsOfResponse : Nat          -- reads of d.response performed by API calls
  racyReads : Nat                -- … performed before responseReady was closed
  deriving DecidableEq, Repr

inductive DAction where
  | ensureRequestMade            -- Write / CloseWrite: sendRequestOnce.Do(go makeRequest)
  | doReturns (ok : Bool)        -- goroutine: httpClient.Do returned (response or error)
  | validate (ok : Bool)         -- goroutine: validateResponse
  | closeReady                   -- goroutine: deferred close(responseReady)
  | apiBlock                     -- API: BlockUntilResponseReady entered
  | apiProceed                   -- API: receive from responseReady succeeded; reads d.response
  | setError (code : Nat)        -- anyone: SetError
  deriving DecidableEq, Repr

def DState.init : DState :=
  { started := false, requestDone := false, responseSet := false, err := none, readerBlocked := false,
    readsOfResponse := 0, racyReads := 0 }

/-- which actions are possible in which states, and their effect -/
def dstep (s : DState) : DAction → Option DState
  | .ensureRequestMade => some { s with started := true }          -- Once: a second call changes nothing
  | .doReturns ok =>
    if s.started ∧ ¬ s.requestDone ∧ ¬ s.responseSet then
      some (if ok then { s with responseSet := true } else { s with err := s.err.orElse fun _ => some 14 })
    else none
  | .validate ok =>
    if s.started ∧ s.responseSet ∧ ¬ s.requestDone then
      some (if ok then s else { s with err := s.err.orElse fun _ => some 13 })
    else none
  | .closeReady => if s.started ∧ ¬ s.requestDone then some { s with requestDone := true } else none
  | .apiBlock => some { s with readerBlocked := true }
  | .apiProceed =>
    if s.requestDone then some { s with readerBlocked := false, readsOfResponse := s.readsOfResponse + 1 }
    else none                                                        -- blocked until the channel is closed
  | .setError c => some { s with err := s.err.orElse fun _ => some c }

def drun : DState → List DAction → Option DState
  | s, [] => some s
  | s, a :: rest => (dstep s a).bind fun s' => drun s' rest

/-! ## observed traces of the library's synchronisation points

  The `verif` build calls a hook at twelve points of `duplex_http_call.go`; the harness records
  the global order in which one call passes them (under injected delays). A recorded trace is
  replayed on the transition system above: each point is the *completion* of the action in front
  of it (`d.ensureRequestMade(); yield("write.ctxcheck")`, `BlockUntilResponseReady(); yield("read.ready")`,
  `yield("request.closeready"); close(responseReady)`). -/

inductive Ev where
  | writeCtx | writePipe | writeDone | closeWrite          -- API goroutine, request side
  | readReady | readBody | readDone | closeRead            -- API goroutine, response side
  | setErrorClosePipe                                      -- any goroutine
  | requestDo | requestDone | requestCloseReady            -- request goroutine
  deriving DecidableEq, Repr

def Ev.isResponseUse : Ev → Bool
  | .readReady | .readBody | .readDone | .closeRead => true
  | _ => false

/-- the actions of the transition system an observed point stands for -/
def Ev.actions : Ev → List DAction
  | .writeCtx | .closeWrite => [.ensureRequestMade]
  | .requestDo => [.ensureRequestMade]            -- the goroutine exists: `sendRequestOnce` fired
  | .requestDone => [.doReturns true]
  | .requestCloseReady => [.closeReady]
  | .readReady | .readBody | .readDone | .closeRead => [.apiProceed]
  | .writePipe | .writeDone | .setErrorClosePipe => []

def traceRun (s : DState) : List Ev → Option DState
  | [] => some s
  | e :: rest => (drun s e.actions).bind fun s' => traceRun s' rest

/-- first rejected position of a trace (for the driver's answer) -/
def traceReject (s : DState) : List Ev → Nat → Option Nat
  | [], _ => none
  | e :: rest, i =>
    match drun s e.actions with
    | none => some i
    | some s' => traceReject s' rest (i + 1)

end ConnectModel
