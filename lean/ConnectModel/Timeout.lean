/-
  ConnectModel.Timeout — grpcEncodeTimeout / grpcParseTimeout (protocol_grpc.go) and the
  Connect-Timeout-Ms encode (connectClient.NewConn) / parse (connectHandler.SetTimeout).
  Durations are `Int` nanoseconds; int64 limits are explicit guards.
-/
import ConnectModel.Basic
import ConnectModel.Gen.Tables

namespace ConnectModel

/-- `grpcEncodeTimeout`'s loop over the unit table: first unit whose quotient prints in fewer
    than `grpcMaxTimeoutChars` characters. `none` = the unreachable `errNoTimeout` exit. -/
def grpcEncodeLoop (d : Nat) : List (Nat × Nat) → Option Bytes
  | [] => none
  | (size, ch) :: rest =>
    let digits := showDec (d / size)
    if digits.length < Gen.grpcMaxTimeoutChars then some (digits ++ [UInt8.ofNat ch])
    else grpcEncodeLoop d rest

/-- `grpcEncodeTimeout(d)`: "0n" for non-positive durations. -/
def grpcEncodeTimeout (d : Int) : Option Bytes :=
  if d ≤ 0 then some [48, 110] else grpcEncodeLoop d.toNat Gen.grpcTimeoutUnits

inductive TimeoutParse where
  | noTimeout           -- errNoTimeout: header absent, or effectively unbounded
  | invalid             -- protocol error → invalid_argument
  | ok (nanos : Int)
  deriving DecidableEq, Repr

def lookupUnit (ch : UInt8) : List (Nat × Nat) → Option Nat
  | [] => none
  | (size, c) :: rest => if ch.toNat = c then some size else lookupUnit ch rest

/-- `grpcParseTimeout` -/
def grpcParseTimeout (s : Bytes) : TimeoutParse :=
  match s.getLast? with
  | none => .noTimeout
  | some last =>
    match lookupUnit last Gen.grpcTimeoutUnits with
    | none => .invalid
    | some unit =>
      match parseInt64 s.dropLast with
      | none => .invalid
      | some num =>
        if num < 0 then .invalid
        else if num > 99999999 then .invalid
        else if unit = 3600000000000 ∧ num > (Gen.grpcTimeoutMaxHours : Int) then .noTimeout
        else .ok (num * (unit : Int))

/-- `connectHandler.SetTimeout` on the header value ("" = header absent). -/
def connectParseTimeout (s : Bytes) : TimeoutParse :=
  if s = [] then .noTimeout
  else if s.length > 10 then .invalid
  else match parseInt64 s with
    | none => .invalid
    | some millis => .ok (millis * 1000000)

/-- `connectClient.NewConn`: `millis := int64(time.Until(deadline) / time.Millisecond)`; header
    only if `millis > 0` and it prints in at most 10 characters. -/
def connectEncodeTimeout (d : Int) : Option Bytes :=
  let millis := Int.tdiv d 1000000
  if millis > 0 then
    let enc := showDec millis.toNat
    if enc.length ≤ 10 then some enc else none
  else none

/-- Is the header a real client sent consistent with `connectEncodeTimeout d` for some remaining
    time `lo ≤ d ≤ hi`? (The implementation reads the clock itself, so the harness can only bound
    `d`; `connectEncodeTimeout` is monotone, so checking the two ends is exact.) -/
def connectEncodeConsistent (lo hi : Int) (hdr : Option Bytes) : Bool :=
  match hdr with
  | none => connectEncodeTimeout lo == none || connectEncodeTimeout hi == none
  | some h =>
    match parseDec h with
    | none => false
    | some m =>
      h == showDec m && decide (0 < m) && decide (h.length ≤ 10) &&
      decide (Int.tdiv lo 1000000 ≤ (m : Int)) && decide ((m : Int) ≤ Int.tdiv hi 1000000)

/-! ### when the timeout is computed (fix F20)

  A streaming call is created at `created` under a context with deadline `dl`; its HTTP request
  goes out at `sent ≥ created`, with the first `Send` or `CloseRequest`. Times are nanoseconds on
  one clock. After the fix the header is computed from the time remaining when the request goes
  out (`duplexHTTPCall.onRequestSend`); the pinned tree computed it in `NewConn`. -/

def headerRemaining (dl _created sent : Int) : Int := dl - sent
def headerRemainingPinned (dl created _sent : Int) : Int := dl - created

/-- the handler's deadline (absolute), if the request arrives the moment it is sent: what the
    peer's timeout header makes of the remaining time the client encoded -/
def peerDeadline (encode : Int → Option Bytes) (parse : Bytes → TimeoutParse) (remaining sent : Int) : Option Int :=
  match encode remaining with
  | none => none
  | some h =>
    match parse h with
    | .ok v => some (sent + v)
    | _ => none

end ConnectModel
