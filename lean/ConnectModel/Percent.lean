/-
  ConnectModel.Percent — grpcPercentEncode / grpcPercentDecode (protocol_grpc.go),
  byte-exact, including the fast paths and the `utf8.RuneError` branch of the decoder.
-/
import ConnectModel.Basic

namespace ConnectModel

/-- bytes that must be escaped: `c < ' ' || c > '~' || c == '%'` -/
def needsEscape (c : UInt8) : Bool := c.toNat < 32 || c.toNat > 126 || c.toNat == 37

/-- `fmt.Sprintf("%%%02X", c)` -/
def escapeByte (c : UInt8) : Bytes := [37, hexByte (c.toNat / 16), hexByte (c.toNat % 16)]

/-- the slow path's loop; the fast path (no byte needs escaping) returns the input, which is
    the same value, so `grpcPercentEncode` is this function. -/
def percentEncode : Bytes → Bytes
  | [] => []
  | c :: rest => if needsEscape c then escapeByte c ++ percentEncode rest else c :: percentEncode rest

/-- UTF-8 encoding of U+FFFD, what `WriteRune(utf8.RuneError)` appends. -/
def runeError : Bytes := [0xEF, 0xBF, 0xBD]

/-- `strconv.ParseUint(two, 16, 8)` on exactly two bytes. -/
def parseHex2 (a b : UInt8) : Option UInt8 :=
  match hexVal a, hexVal b with
  | some x, some y => some (UInt8.ofNat (x * 16 + y))
  | _, _ => none

/-- The decoder loop. `c != '%' || i+2 >= len` copies the byte; otherwise two more bytes are
    consumed. (The fast path only skips the loop when it would copy everything.) -/
def percentDecode : Bytes → Bytes
  | [] => []
  | [c] => [c]
  | [c, d] => c :: percentDecode [d]
  | c :: a :: b :: rest =>
    if c.toNat == 37 then
      match parseHex2 a b with
      | some v => v :: percentDecode rest
      | none => runeError ++ percentDecode rest
    else c :: percentDecode (a :: b :: rest)

end ConnectModel
