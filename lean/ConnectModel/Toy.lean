/-
  ConnectModel.Toy — the concrete codec and compression algorithm the correspondence harness
  plugs into the real library (through the public `Codec`, `Compressor`, `Decompressor`
  interfaces), mirrored here so that model and implementation can be run on the same inputs.
-/
import ConnectModel.Envelope
namespace ConnectModel

/-- "raw" codec: messages are byte strings; payloads starting with 0xEE are rejected by Unmarshal -/
def rawCodec : Codec Bytes :=
  { marshal := id
    unmarshal := fun d => match d with
      | 0xEE :: _ => none
      | _ => some d }

/-- run-length encoding: runs of 1..255 equal bytes as `[count, byte]` -/
def rleCompressAux : Bytes → Option (UInt8 × Nat) → Bytes
  | [], none => []
  | [], some (b, n) => [UInt8.ofNat n, b]
  | x :: xs, none => rleCompressAux xs (some (x, 1))
  | x :: xs, some (b, n) =>
    if x = b ∧ n < 255 then rleCompressAux xs (some (b, n + 1))
    else UInt8.ofNat n :: b :: rleCompressAux xs (some (x, 1))

def rleCompress (b : Bytes) : Bytes := rleCompressAux b none

/-- streaming decoder: expands leading well-formed pairs; a zero count or a dangling byte stops
    it with an error after the output produced so far -/
def rleDecompress : Bytes → DecompressOut
  | [] => { out := [], clean := true }
  | [_] => { out := [], clean := false }
  | n :: b :: rest =>
    if n.toNat = 0 then { out := [], clean := false }
    else
      let r := rleDecompress rest
      { out := List.replicate n.toNat b ++ r.out, clean := r.clean }

def rleCompressor : Compressor := { compress := rleCompress, decompress := rleDecompress }

end ConnectModel
