/-
  ConnectModel.Recover — recover.go: the two wrappers of `recoverHandlerInterceptor`, written
  with an explicit model of Go's panic / defer / recover for one function frame.
-/
import ConnectModel.Options
import ConnectModel.Basic
namespace ConnectModel

/-- values a handler may panic with, as far as recover.go distinguishes them -/
inductive PanicVal where
  | nil            -- panic(nil) (module `go 1.18`: recover() then returns nil)
  | abort          -- http.ErrAbortHandler
  | other (x : Nat)
  deriving DecidableEq, Repr

/-- result of running a Go function body: it returned, or it is panicking -/
inductive Outcome (α : Type) where
  | ret (a : α)
  | panic (v : PanicVal)
  deriving Repr

/-- what the recovering wrapper produces: the (possibly replaced) outcome plus the list of
    values the user's recovery function was called with -/
structure RecoverResult (α : Type) where
  outcome : Outcome α
  handleCalls : List PanicVal

/-- One frame with the deferred closure of recover.go:
    ```
    panicked := true
    defer func() { if panicked { r := recover(); if r == http.ErrAbortHandler { panic(r) }; retErr = handle(r) } }()
    res, err := next(...); panicked = false; return res, err
    ```
    `body` is the outcome of `next`; `onRecovered v` is the value returned when `handle v` ran. -/
def recoverFrame {α : Type} (body : Outcome α) (onRecovered : PanicVal → α) : RecoverResult α :=
  match body with
  | .ret a =>                       -- panicked = false: the deferred closure does nothing
    { outcome := .ret a, handleCalls := [] }
  | .panic v =>                     -- panicked = true: r := recover() yields v and stops the panic
    if v = .abort then
      { outcome := .panic .abort, handleCalls := [] }     -- panic(r): re-raised untouched
    else
      { outcome := .ret (onRecovered v), handleCalls := [v] }

/-- `WrapUnary`: on the client side (`req.Spec().IsClient`) the wrapper is the identity. -/
def recoverWrapUnary {α : Type} (isClient : Bool) (body : Outcome α) (onRecovered : PanicVal → α) :
    RecoverResult α :=
  if isClient then { outcome := body, handleCalls := [] } else recoverFrame body onRecovered

/-- `WrapStreamingHandler` -/
def recoverWrapStreamingHandler {α : Type} (body : Outcome α) (onRecovered : PanicVal → α) :
    RecoverResult α :=
  recoverFrame body onRecovered

/-! ### what the recovery function is told about the call (fix F21) -/

/-- the call as the wrappers know it: procedure, stream type, request headers -/
structure CallInfo where
  procedure : Bytes
  streamType : Nat
  header : List (Bytes × List Bytes)
  deriving DecidableEq, Repr

/-- `WrapUnary`: `handle(ctx, req.Spec(), req.Header(), r)` -/
def handleArgsUnary (call : CallInfo) : CallInfo := call
/-- `WrapStreamingHandler` after fix F21: `handle(ctx, conn.Spec(), conn.RequestHeader(), r)` -/
def handleArgsStreaming (call : CallInfo) : CallInfo := call
/-- … and before: `handle(ctx, Spec{}, nil, r)` -/
def handleArgsStreamingPinned (_ : CallInfo) : CallInfo := { procedure := [], streamType := 0, header := [] }

/-! ### a chain of interceptors, some of which panic themselves, with recover frames among them -/

/-- one layer of the handler's interceptor chain, as far as panics are concerned -/
inductive Layer where
  | pass                        -- an interceptor that calls `next` and returns what it returned
  | panicBefore (v : PanicVal)  -- ... that panics before calling `next`
  | panicAfter (v : PanicVal)   -- ... that calls `next` and panics once `next` has returned
  | recover (id : Nat)          -- a `WithRecover` frame whose recovery function is number `id`
  deriving DecidableEq, Repr

/-- Runs the chain outermost layer first around `body` (the handler's own outcome): the outcome
    that leaves the outermost layer, plus the recovery calls `(frame, value)` in the order they
    happen. A panic travelling up through a layer that is not a recover frame is untouched (Go
    unwinds the frame); `panicAfter` only gets to panic when `next` returned. -/
def runChain {α : Type} (onRecovered : Nat → PanicVal → α) :
    List Layer → Outcome α → Outcome α × List (Nat × PanicVal)
  | [], body => (body, [])
  | .pass :: rest, body => runChain onRecovered rest body
  | .panicBefore v :: _, _ => (.panic v, [])
  | .panicAfter v :: rest, body =>
    match runChain onRecovered rest body with
    | (.ret _, calls) => (.panic v, calls)
    | (.panic w, calls) => (.panic w, calls)
  | .recover id :: rest, body =>
    let inner := runChain onRecovered rest body
    let r := recoverFrame inner.1 (onRecovered id)
    (r.outcome, inner.2 ++ r.handleCalls.map (fun v => (id, v)))

def Layer.isRecover : Layer → Bool
  | .recover _ => true
  | _ => false

def Layer.isPass : Layer → Bool
  | .pass => true
  | _ => false

end ConnectModel
