/-
  Line-protocol driver: one operation per input line, one canonical answer per output line.
  Runs the *executable model definitions* (the same ones the theorems are about).
-/
import ConnectModel.Utf8
import ConnectModel
import Driver.ProtoOps
open ConnectModel

def hexArg (s : String) : Option Bytes := if s == "-" then some [] else fromHex s
def hexOut (b : Bytes) : String := if b.isEmpty then "-" else toHex b

def optBytes : Option Bytes → String
  | some b => "ok " ++ hexOut b
  | none => "err"

/-- key=value arguments -/
def kv (args : List String) (k : String) : Option String :=
  args.findSome? fun a => if a.startsWith (k ++ "=") then some ((a.drop (k.length + 1)).toString) else none

def parseTail (s : String) : Option RErr :=
  match s.splitOn ":" with
  | ["eof"] => some .eof
  | ["ueof"] => some .unexpectedEOF
  | ["err"] => some .other
  | ["coded", c, w] => c.toNat?.map fun n => .coded n (w == "1")
  | _ => none

def showYield : Yield Bytes → String
  | .msg none => "m:-"
  | .msg (some v) => "m:" ++ hexOut v
  | .endSpecial fl d => s!"s:{fl.toNat}:{hexOut d}"
  | .fail e => s!"e:{e.code}:{if e.wrapsEOF then 1 else 0}"

def envRecvOp (args : List String) : String :=
  match kv args "comp", (kv args "max").bind String.toNat?, (kv args "tail").bind parseTail, (kv args "flat").bind hexArg with
  | some comp, some max, some tail, some flat =>
    -- strict=1: a codec that, like JSON, has no encoding of any value in zero bytes
    let codec : Codec Bytes := if kv args "strict" == some "1" then
        { rawCodec with unmarshal := fun d => if d.isEmpty then none else rawCodec.unmarshal d }
      else rawCodec
    let cfg : ReaderCfg Bytes := { codec := codec, pool := if comp == "1" then some rleCompressor else none, max := max }
    let fuel := flat.length / 5 + 2
    let r := ((recvAll cfg fuel).run takeExact { flat := flat, tail := tail }).1
    " ".intercalate (r.1.map showYield)
  | _, _, _, _ => "bad-op"

/-- cut `flat` at the given offsets (ascending, inside the string) -/
def segmentAt (flat : Bytes) (cuts : List Nat) : List Bytes :=
  let rec go (rest : Bytes) (pos : Nat) : List Nat → List Bytes
    | [] => if rest.isEmpty then [] else [rest]
    | c :: cs =>
      let n := c - pos
      if n = 0 ∨ n ≥ rest.length then go rest pos cs
      else rest.take n :: go (rest.drop n) c cs
  go flat 0 cuts

def showRErr : RErr → String
  | .eof => "eof" | .unexpectedEOF => "ueof" | .other => "err"
  | .coded c w => s!"coded:{c}:{if w then 1 else 0}"

/-- `env.drain limit=N tail=T flat=HEX seg=CUTS wd=B`: `drainUpTo` on that transport, at the
    implementation level (the reads the script allows) -/
def envDrainOp (args : List String) : String :=
  match (kv args "limit").bind String.toNat?, (kv args "tail").bind parseTail, (kv args "flat").bind hexArg, kv args "seg", kv args "wd" with
  | some limit, some tail, some flat, some seg, some wd =>
    let cuts := if seg == "-" then [] else (seg.splitOn ",").filterMap String.toNat?
    let s : Script := { chunks := segmentAt flat cuts, tail := tail, withData := wd == "1" }
    let saw := if drainSaw limit s then " saw=1" else " saw=0"
    (match drain limit s with
    | .atEnd => "atEnd"
    | .more => "more"
    | .failed e => "failed:" ++ showRErr e) ++ saw
  | _, _, _, _, _ => "bad-op"

def envWriteOp (args : List String) : String :=
  match kv args "comp", (kv args "min").bind String.toInt?, kv args "msgs", kv args "extra" with
  | some comp, some min, some msgs, some extra =>
    let pool := if comp == "1" then some rleCompressor else none
    let cfg : WriterCfg Bytes := { codec := rawCodec, pool := pool, minBytes := min }
    let ms := if msgs == "" then some [] else (msgs.splitOn ",").mapM hexArg
    let ex : Option (Option (UInt8 × Bytes)) :=
      if extra == "none" then some none
      else match extra.splitOn ":" with
        | [f, d] => match f.toNat?, hexArg d with
          | some fl, some dd => some (some (UInt8.ofNat fl, dd))
          | _, _ => none
        | _ => none
    match ms, ex with
    | some ms, some ex =>
      let wire := (ms.map (envMarshal cfg)).flatten ++ (match ex with
        | some (fl, d) => envWrite pool min fl d
        | none => [])
      hexOut wire
    | _, _ => "bad-op"
  | _, _, _, _ => "bad-op"

/-- option trees in prefix form: `I n e1 … en` (`-` = nil), `G n o1 … on` (also `GC`, `GH`), `O` -/
def parseOpts : Nat → Nat → List String → Option (List Opt × List String)
  | _, 0, toks => some ([], toks)
  | 0, _, _ => none
  | fuel + 1, k + 1, toks =>
    match toks with
    | "O" :: rest =>
      (parseOpts fuel k rest).map fun (os, r) => (Opt.other :: os, r)
    | "I" :: n :: rest =>
      match n.toNat? with
      | some cnt =>
        let ids := (rest.take cnt).map fun t => if t == "-" then none else t.toNat?
        if (rest.take cnt).length = cnt then
          (parseOpts fuel k (rest.drop cnt)).map fun (os, r) => (Opt.interceptors ids :: os, r)
        else none
      | none => none
    | g :: n :: rest =>
      if g == "G" || g == "GC" || g == "GH" then
        match n.toNat? with
        | some cnt =>
          match parseOpts fuel cnt rest with
          | some (children, r) => (parseOpts fuel k r).map fun (os, r') => (Opt.group children :: os, r')
          | none => none
        | none => none
      else none
    | _ => none

def idList (l : List Nat) : String := if l.isEmpty then "-" else ",".intercalate (l.map toString)

def icptOp (args : List String) : String :=
  match args with
  | _side :: _kind :: n :: toks =>
    match n.toNat? with
    | some cnt =>
      match parseOpts (toks.length + 2) cnt toks with
      | some (opts, []) =>
        let order := effectiveOrder opts
        s!"in={idList order} out={idList order.reverse}"
      | _ => "bad-op"
    | none => "bad-op"
  | _ => "bad-op"

def recoverOp (args : List String) : String :=
  -- recover <unary|stream> <client 0|1> <panic: none|nil|abort|other>
  match args with
  | kind :: isClient :: pv :: _ =>
    let body : Outcome Nat := match pv with
      | "none" => .ret 0
      | "fail" => .ret 8          -- returned an ordinary error (resource_exhausted), no panic
      | "nil" => .panic .nil
      | "abort" => .panic .abort
      | _ => .panic (.other 1)
    let r := if kind == "unary" then recoverWrapUnary (isClient == "1") body (fun _ => 99)
             else recoverWrapStreamingHandler body (fun _ => 99)
    let calls := " ".intercalate (r.handleCalls.map fun v => match v with
      | .nil => "nil" | .abort => "abort" | .other _ => "other")
    let out := match r.outcome with
      | .ret 99 => "recovered"
      | .ret 8 => "error:resource_exhausted"
      | .ret _ => "returned"
      | .panic .abort => "panic-abort"
      | .panic .nil => "panic-nil"
      | .panic (.other _) => "panic-other"
    s!"calls=[{calls}] outcome={out}"
  | _ => "bad-op"

def chainOp (args : List String) : String :=
  -- rchain kind=.. proto=.. body=<none|fail|nil|abort|other> <layer>... (outermost first)
  let pval (s : String) : PanicVal := match s with
    | "nil" => .nil | "abort" => .abort | _ => .other 1
  let body : Option (Outcome Nat) := args.findSome? fun t =>
    if t.startsWith "body=" then
      some (match (t.drop 5).toString with
        | "none" => .ret 0 | "fail" => .ret 8 | v => .panic (pval v))
    else none
  -- frames are numbered 1.. outermost first
  let step (acc : List Layer × Nat) (t : String) : List Layer × Nat :=
    if t == "p" then (acc.1 ++ [.pass], acc.2)
    else if t == "r" then (acc.1 ++ [.recover (acc.2 + 1)], acc.2 + 1)
    else if t.startsWith "b:" then (acc.1 ++ [.panicBefore (pval (t.drop 2).toString)], acc.2)
    else if t.startsWith "a:" then (acc.1 ++ [.panicAfter (pval (t.drop 2).toString)], acc.2)
    else acc
  let layers := (args.foldl step ([], 0)).1
  match body with
  | none => "bad-op"
  | some b =>
    let r := runChain (fun id _ => 90 + id) layers b
    let pv (v : PanicVal) : String := match v with
      | .nil => "nil" | .abort => "abort" | .other _ => "other"
    let calls := " ".intercalate (r.2.map fun c => s!"{c.1}:{pv c.2}")
    let out := match r.1 with
      | .ret 0 => "returned"
      | .ret 8 => "error:resource_exhausted"
      | .ret n => s!"recovered:{n - 90}"
      | .panic v => s!"panic-{pv v}"
    s!"calls=[{calls}] outcome={out}"

def parseKind (s : String) : StreamKind :=
  match s with
  | "unary" => .unary | "client" => .client | "server" => .server | _ => .bidi

def kindNum : StreamKind → Nat
  | .unary => 0 | .client => 1 | .server => 2 | .bidi => 3

def protoName : Proto → String
  | .connect => "connect" | .grpc => "grpc" | .grpcWeb => "grpcweb"

def parseProto (s : String) : Proto :=
  match s with
  | "connect" => .connect | "grpc" => .grpc | _ => .grpcWeb

def namesArg (s : String) : List Bytes := if s == "" then [] else (s.splitOn ",").map str

def bytesToString (b : Bytes) : String := String.ofList (b.map fun c => Char.ofNat c.toNat)

def dispOp (args : List String) : String :=
  match kv args "kind", kv args "codecs", (kv args "major").bind String.toNat?, (kv args "method").bind hexArg,
        (kv args "ct").bind hexArg, (kv args "procedure").bind hexArg with
  | some kind, some codecs, some major, some method, some ct, some proc =>
    -- `WithCodec` with a codec whose name is empty is a documented no-op: such a codec is never registered
    let cfg : HandlerCfg := { kind := parseKind kind, codecs := (namesArg codecs).filter (· ≠ []), handleGRPC := true, handleGRPCWeb := true }
    match dispatch cfg major method ct with
    | .httpVersionNotSupported => "505"
    | .methodNotAllowed => "405 allow=POST"
    | .unsupportedMediaType ap => "415 accept=" ++ hexOut ((ap.intersperse (str ", ")).flatten)
    | .serve p c => s!"run proto={protoName p} codec={bytesToString c} ran=1/1 spec={hexOut (extractProtoPath proc)}:{kindNum cfg.kind}"
  | _, _, _, _, _, _ => "bad-op"

def negOp (args : List String) : String :=
  match kv args "reg", (kv args "sent").bind hexArg, (kv args "accept").bind hexArg with
  | some reg, some sent, some accept =>
    let r := namesArg reg
    let names := bytesToString (joinComma (advertisedNames r))
    match negotiate r sent accept with
    | .ok _ resp => s!"ok resp={bytesToString resp} names={names}"
    | .unimplemented sup => s!"unimplemented names={bytesToString sup}"
  | _, _, _ => "bad-op"

def cminOp (args : List String) : String :=
  match kv args "pool", (kv args "min").bind String.toInt?, (kv args "size").bind String.toNat? with
  | some pool, some min, some size =>
    let data : Bytes := List.replicate size 65
    let wire := envWrite (if pool == "1" then some rleCompressor else none) min 0 data
    match wire with
    | fl :: _ => s!"compressed={fl.toNat % 2}"
    | [] => "bad-op"
  | _, _, _ => "bad-op"

def genOp (args : List String) : String :=
  match (kv args "pkg").bind hexArg, (kv args "svc").bind hexArg, (kv args "m").bind hexArg, (kv args "go").bind hexArg,
        kv args "cs", kv args "ss" with
  | some pkg, some svc, some m, some go, some cs, some ss =>
    let s : ServiceDesc := { pkg := pkg, name := svc, methods := [] }
    let md : MethodDesc := { name := m, goName := go, clientStreaming := cs == "1", serverStreaming := ss == "1" }
    let kind := match rpcKind md with
      | .unary => "unary" | .clientStream => "client" | .serverStream => "server" | .bidi => "bidi"
    s!"url={hexOut (clientURLSuffix s md)} mux={hexOut (muxPattern s md)} proc={hexOut (handlerProcedure s md)} prefix={hexOut (mountPrefix s)} field={hexOut (unexport go)} kind={kind}"
  | _, _, _, _, _, _ => "bad-op"

def parseGoError (s : String) : Option GoError :=
  match s.splitOn ":" with
  | ["canceled"] => some (.ctx .canceled)
  | ["deadline"] => some (.ctx .deadline)
  | ["url-canceled"] => some (.wrap (.ctx .canceled))
  | ["url-deadline"] => some (.wrap (.ctx .deadline))
  | ["wrapped-canceled"] => some (.wrap (.wrap (.ctx .canceled)))
  | ["opaque"] => some .opaque
  | ["cause"] => some .opaque
  | ["url-cause"] => some (.wrap .opaque)
  | ["closedpipe"] => some .opaque
  | ["eof"] => some .eof
  | ["ueof"] => some .unexpectedEOF
  | ["rst", n] => some (.rst (str n))
  | ["url-rst", n] => some (.wrap (.rst (str n)))
  | _ => none

def cflowOp (args : List String) : String :=
  match kv args "point", (kv args "err").bind parseGoError with
  | some point, some e =>
    -- `done=`: the call's context has ended (that way) by the time the transport reports `e`
    let done : Option CtxKind := match kv args "done" with
      | some "canceled" => some .canceled
      | some "deadline" => some .deadline
      | _ => none
    if point.startsWith "close" then
      -- CloseResponse drains the rest of the body; a clean end is success
      (if e.isEOF then "close=0" else s!"close={(clientCloseResponseErrorDone none done e).codeOf}")
    else
    let first : Option GoError :=
      match point.splitOn ":" with
      | ["do"] =>
        match setError none (doErrorDone done e) with
        | some stored => some (clientReceiveError (envelopePrefixError 0 stored))
        | none => none
      | ["prefix", n] => n.toNat?.map fun k => clientReceiveError (envelopePrefixError k (duplexReadErrorDone none done e))
      | ["payload", _] =>
        let r := duplexReadErrorDone none done e
        some (clientReceiveError (if r.isEOF then .coded codeInvalidArgument .opaque else envelopePayloadError r))
      | ["discard", _] => some (clientReceiveError (envelopeDiscardError (duplexReadErrorDone none done e)))
      | _ => none
    match first with
    | some f =>
      let f' := wrapIfUncoded f
      match setError none f' with
      | some stored =>
        let second := wrapIfUncoded (clientReceiveError (envelopePrefixError 0 stored))
        s!"first={f'.codeOf} second={second.codeOf}"
      | none => "bad-op"
    | none => "bad-op"
  | _, _ => "bad-op"

/-- `cwatch`: the context (kind `ctx=`) ends during a blocked body read; the watcher stores its
    error and closes the request pipe; then the body read fails with `err=` -/
def cwatchOp (args : List String) : String :=
  match kv args "point", (kv args "err").bind parseGoError, kv args "ctx" with
  | some point, some e, some ck =>
    let k : CtxKind := if ck == "deadline" then .deadline else .canceled
    let stored := setError none (.ctx k)
    let r := duplexReadErrorStored stored e
    let first : Option GoError :=
      match point.splitOn ":" with
      | ["prefix", n] => n.toNat?.map fun j => clientReceiveError (envelopePrefixError j r)
      | ["payload", _] => some (clientReceiveError (if r.isEOF then .coded codeInvalidArgument .opaque else envelopePayloadError r))
      | ["discard", _] => some (clientReceiveError (envelopeDiscardError r))
      | _ => none
    match first, stored with
    | some f, some st =>
      let f' := wrapIfUncoded f
      let second := wrapIfUncoded (clientReceiveError (envelopePrefixError 0 st))
      s!"first={f'.codeOf} second={second.codeOf}"
    | _, _ => "bad-op"
  | _, _, _ => "bad-op"

/-- `cwrite`: the call has `stored=` (a code, or "eof" for the clean end, or "none"); the context
    (kind `ctx=`) ends; `Send`. Answer: the code `Send` reports and the code a later `Receive`
    reports (the latter only for a stored error: how the clean end is remembered differs between
    the protocols and is not part of this op). -/
def cwriteOp (args : List String) : String :=
  match kv args "stored", kv args "ctx" with
  | some st, some ck =>
    let k : CtxKind := if ck == "deadline" then .deadline else .canceled
    let stored : Option (Option GoError) :=
      if st == "none" then some none
      else if st == "eof" then some (some (.coded codeUnknown .eof))
      else st.toNat?.map fun c => some (.coded c .opaque)
    match stored with
    | some sto =>
      let (w, after) := duplexWriteDone sto k
      let send := wrapIfUncoded (envelopeWritePrefixError w)
      match after with
      | some a => if st == "eof" then s!"send={send.codeOf}" else s!"send={send.codeOf} stored={a.codeOf}"
      | none => "bad-op"
    | none => "bad-op"
  | _, _ => "bad-op"

/-- `tbudget`: the server has put a deadline `budget=` ms from now on the request's context; the
    peer's timeout header is `hdr=` (hex): how many ms from now is the handler's deadline -/
def tbudgetOp (args : List String) : String :=
  match kv args "proto", (kv args "budget").bind String.toNat?, (kv args "hdr").bind hexArg with
  | some proto, some budget, some hdr =>
    let p : Proto := if proto == "connect" then .connect else if proto == "grpc" then .grpc else .grpcWeb
    match handlerParseTimeout p hdr with
    | .invalid => "rejected"
    | parse =>
      match handlerDeadline (some ((budget : Int) * 1000000)) 0 parse with
      | some dl => s!"ms={dl / 1000000}"
      | none => "none"
  | _, _, _ => "bad-op"

/-- `u8`: utf8.Valid and strings.ToValidUTF8(s, "\uFFFD") -/
def u8Op (args : List String) : String :=
  match args with
  | [h] =>
    match hexArg h with
    | some b => s!"valid={if utf8Valid b then 1 else 0} fixed={hexOut (toValidUTF8 b)}"
    | none => "bad-op"
  | _ => "bad-op"

/-- `tlate`: a streaming call created under a deadline `dl=` ms from its creation whose request
    goes out `wait=` ms later: is the deadline the peer derives later than the client's? -/
def tlateOp (args : List String) : String :=
  match kv args "proto", (kv args "dl").bind String.toNat?, (kv args "wait").bind String.toNat? with
  | some proto, some dl, some wait =>
    let dlNs : Int := (dl : Int) * 1000000
    let sent : Int := (wait : Int) * 1000000
    let rem := headerRemaining dlNs 0 sent
    let pd := if proto == "connect" then peerDeadline connectEncodeTimeout connectParseTimeout rem sent
              else peerDeadline grpcEncodeTimeout grpcParseTimeout rem sent
    match pd with
    | some d => if d ≤ dlNs then "not-longer" else "longer"
    | none => "no-deadline"
  | _, _, _ => "bad-op"

/-- `rlim`: `limits=` the values of the WithReadMaxBytes options in declaration order (`nested=1`:
    the first on its own, the rest in a group inside a group), a message of `size=` bytes -/
def rlimOp (args : List String) : String :=
  match kv args "limits", (kv args "size").bind String.toNat?, kv args "nested" with
  | some ls, some size, some nested =>
    match (ls.splitOn ",").mapM String.toNat? with
    | some (l :: rest) =>
      let opts : List SOpt :=
        if nested == "1" then [.group [.readMax l, .group (rest.map SOpt.readMax)]]
        else (l :: rest).map SOpt.readMax
      if withinLimit (SOpt.applyList opts 0) size then "accepted" else "rejected: invalid_argument"
    | _ => "bad-op"
  | _, _, _ => "bad-op"

def poolTraceOp (toks : List String) : String :=
  let evs : Option (List PoolEv) := toks.mapM fun t =>
    if t.startsWith "g" then ((t.drop 1).toString.toNat?).map PoolEv.get
    else if t.startsWith "p" then ((t.drop 1).toString.toNat?).map PoolEv.put
    else none
  match evs with
  | some es => match poolRun { out := [], inPool := [] } es 0 with
    | none => "accepted"
    | some i => s!"rejected:{i}"
  | none => "bad-op"

def parseEv (t : String) : Option Ev :=
  match t with
  | "write.ctxcheck" => some .writeCtx
  | "write.pipe" => some .writePipe
  | "write.done" => some .writeDone
  | "closewrite" => some .closeWrite
  | "read.ready" => some .readReady
  | "read.body" => some .readBody
  | "read.done" => some .readDone
  | "closeread" => some .closeRead
  | "seterror.closepipe" => some .setErrorClosePipe
  | "request.do" => some .requestDo
  | "request.done" => some .requestDone
  | "request.closeready" => some .requestCloseReady
  | _ => none

/-- `dtrace p1 p2 …`: is the observed order of synchronisation points a run of the model? -/
def dtraceOp (toks : List String) : String :=
  match toks.mapM parseEv with
  | some evs => match traceReject DState.init evs 0 with
    | none => "accepted"
    | some i => s!"rejected:{i}"
  | none => "bad-op"

def step (line : String) : String :=
  match (line.trimAscii.toString.splitOn " ") with
  | ["code.str", n] => match n.toNat? with
    | some k => hexOut (codeString k)
    | none => "bad-op"
  | ["code.parse", h] => match hexArg h with
    | some b => match codeUnmarshalText b with
      | some c => s!"ok {c}"
      | none => "err"
    | none => "bad-op"
  | ["code.http", n] => match n.toNat? with
    | some k => toString (codeToHTTP k)
    | none => "bad-op"
  | ["http.code.connect", n] => match n.toNat? with
    | some k => toString (connectHTTPToCode k)
    | none => "bad-op"
  | ["http.code.grpc", n] => match n.toNat? with
    | some k => toString (grpcHTTPToCode k)
    | none => "bad-op"
  | ["pct.enc", h] => match hexArg h with
    | some b => hexOut (percentEncode b)
    | none => "bad-op"
  | ["pct.dec", h] => match hexArg h with
    | some b => hexOut (percentDecode b)
    | none => "bad-op"
  | ["b64.enc", h] => match hexArg h with
    | some b => hexOut (encodeBinaryHeader b)
    | none => "bad-op"
  | ["b64.dec", h] => match hexArg h with
    | some b => optBytes (decodeBinaryHeader b)
    | none => "bad-op"
  | ["gtmo.enc", d] => match d.toInt? with
    | some k => match grpcEncodeTimeout k with
      | some b => "ok " ++ hexOut b
      | none => "none"
    | none => "bad-op"
  | ["gtmo.parse", h] => match hexArg h with
    | some b => match grpcParseTimeout b with
      | .ok n => s!"ok {n}"
      | .noTimeout => "none"
      | .invalid => "invalid"
    | none => "bad-op"
  | ["gtmo.serve", h] => match hexArg h with
    | some b => match grpcParseTimeout b with
      | .ok _ => "ran deadline"
      | .noTimeout => "ran none"
      | .invalid => "rejected invalid_argument norun"
    | none => "bad-op"
  | ["ctmo.serve", h] => match hexArg h with
    | some b => match connectParseTimeout b with
      | .ok n => s!"ran {n}"
      | .noTimeout => "ran none"
      | .invalid => "rejected invalid_argument norun"
    | none => "bad-op"
  | ["ctmo.enc", lo, hi, hdr] => match lo.toInt?, hi.toInt?, (if hdr == "none" then some none else (hexArg hdr).map some) with
    | some l, some h, some hd => if connectEncodeConsistent l h hd then "ok" else "bad"
    | _, _, _ => "bad-op"
  | "env.recv" :: args => envRecvOp args
  | "env.drain" :: args => envDrainOp args
  | "env.write" :: args => envWriteOp args
  | "serve" :: args => ProtoOps.serveOp args
  | "cdec" :: args => ProtoOps.cdecOp args
  | "hreq" :: args => ProtoOps.hreqOp args
  | "rseq" :: args => ProtoOps.rseqOp args
  | "sseq" :: args => ProtoOps.sseqOp args
  | "disp" :: args => dispOp args
  | ["path", h] => match hexArg h with
    | some b => hexOut (extractProtoPath b)
    | none => "bad-op"
  | ["cpath", h] => match hexArg h with
    | some b => hexOut (extractProtoPath b)
    | none => "bad-op"
  | "neg" :: args => negOp args
  | "cmin" :: args => cminOp args
  | "pool.trace" :: toks => poolTraceOp toks
  | "dtrace" :: toks => dtraceOp toks
  | "cflow" :: args => cflowOp args
  | "cwatch" :: args => cwatchOp args
  | "cwrite" :: args => cwriteOp args
  | "tlate" :: args => tlateOp args
  | "u8" :: args => u8Op args
  | "tbudget" :: args => tbudgetOp args
  | "rlim" :: args => rlimOp args
  | "gen" :: args => genOp args
  | "icpt" :: args => icptOp args
  | "recover" :: args => recoverOp args
  | "rchain" :: args => chainOp args
  | ["canary"] => "canary-model"
  | _ => "bad-op"

partial def loop (hin : IO.FS.Stream) (hout : IO.FS.Stream) : IO Unit := do
  let line ← hin.getLine
  if line.isEmpty then return ()
  hout.putStrLn (step line)
  loop hin hout

def main : IO Unit := do
  let hin ← IO.getStdin
  let hout ← IO.getStdout
  loop hin hout
