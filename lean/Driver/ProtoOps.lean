/-
  Text formats of the protocol-level ops (serve / cdec) and their evaluation on the model.
-/
import ConnectModel
open ConnectModel

namespace ProtoOps

def hexArg' (s : String) : Option Bytes := if s == "-" then some [] else fromHex s
def hexOut' (b : Bytes) : String := if b.isEmpty then "-" else toHex b

def kv' (args : List String) (k : String) : Option String :=
  args.findSome? fun a => if a.startsWith (k ++ "=") then some ((a.drop (k.length + 1)).toString) else none

/-! ### headers -/

def parseHeader (s : String) : Option Header :=
  if s == "-" then some []
  else (s.splitOn ";").mapM fun pair =>
    match pair.splitOn "=" with
    | [k, vs] =>
      match hexArg' k, (vs.splitOn "|").mapM hexArg' with
      | some kb, some vbs => some (kb, vbs)
      | _, _ => none
    | _ => none

def insertPair (p : Bytes × List Bytes) : List (Bytes × List Bytes) → List (Bytes × List Bytes)
  | [] => [p]
  | q :: qs => if bytesLt p.1 q.1 then p :: q :: qs else q :: insertPair p qs

def showHeader (h : Header) : String :=
  let live := h.filter fun p => !p.2.isEmpty
  let sorted := live.foldr insertPair []
  if sorted.isEmpty then "-"
  else ";".intercalate (sorted.map fun p => hexOut' p.1 ++ "=" ++
    "|".intercalate (p.2.map fun v => if v == unmodelledText then "?" else hexOut' v))

/-! ### wire errors -/

def showWireErr (w : WireErr) : String :=
  s!"{w.code}/{hexOut' w.msg}/" ++ (if w.details.isEmpty then "-" else "+".intercalate (w.details.map hexOut'))

def parseWireErr (s : String) : Option WireErr :=
  match s.splitOn "/" with
  | [c, m, d] =>
    match c.toNat?, hexArg' m, (if d == "-" then some [] else (d.splitOn "+").mapM hexArg') with
    | some code, some msg, some ds => some { code := code, msg := msg, details := ds }
    | _, _, _ => none
  | _ => none

/-- toy encoding of the Status message: the ASCII bytes of its text form -/
def encStatus (w : WireErr) : Bytes := (showWireErr w).toUTF8.toList
def decStatus (b : Bytes) : Option WireErr := parseWireErr (String.ofList (b.map fun c => Char.ofNat c.toNat))

/-! ### body items -/

def showItem : BodyItem → String
  | .frame fl p => s!"f:{fl.toNat}:{hexOut' p}"
  | .endStream e m => "end:" ++ (match e with | some w => showWireErr w | none => "-") ++ ":" ++ showHeader m
  | .webTrailer b => "web:" ++ showHeader b
  | .raw d => "raw:" ++ hexOut' d
  | .errorJSON w => "ej:" ++ showWireErr w
  | .errorJSONz w => "ejz:" ++ showWireErr w

def parseItem (s : String) : Option BodyItem :=
  match s.splitOn ":" with
  | ["f", fl, p] => match fl.toNat?, hexArg' p with
    | some f, some pb => some (.frame (UInt8.ofNat f) pb)
    | _, _ => none
  | ["end", e, m] =>
    match (if e == "-" then some none else (parseWireErr e).map some), parseHeader m with
    | some eo, some mh => some (.endStream eo mh)
    | _, _ => none
  | ["web", b] => (parseHeader b).map .webTrailer
  | ["raw", d] => (hexArg' d).map .raw
  | ["ej", e] => (parseWireErr e).map .errorJSON
  | ["ejz", e] => (parseWireErr e).map .errorJSONz
  | _ => none

def showBody (b : List BodyItem) : String := if b.isEmpty then "-" else ",".intercalate (b.map showItem)
def parseBody (s : String) : Option (List BodyItem) := if s == "-" then some [] else (s.splitOn ",").mapM parseItem

def showResp (r : Resp) : String :=
  s!"status={r.status} hdr={showHeader r.header} body={showBody r.body} trl={showHeader r.trailer}"

def parseGoErr (s : String) : Option (Option GoErr) :=
  if s == "none" then some none
  else if s == "canceled" then some (some .canceled)
  else if s == "deadline" then some (some .deadline)
  else if s.startsWith "plain:" then (hexArg' (s.drop 6).toString).map fun t => some (.plain t)
  -- an uncoded error that wraps io.EOF / an I/O timeout is an uncoded error
  else if s.startsWith "plaineof:" || s.startsWith "plaintmo:" then (hexArg' (s.drop 9).toString).map fun t => some (.plain t)
  else if s.startsWith "coded:" || s.startsWith "codedctx:" || s.startsWith "codedwrap:" || s.startsWith "codedeof:" || s.startsWith "codedjoin:" || s.startsWith "codedas:" ||
      s.startsWith "codedunenc:" || s.startsWith "codedunrend:" then
    -- codedctx: the coded error's cause is a context error; codedwrap: the coded error is wrapped
    -- once more (`errors.As` finds it): the model's handler sees the same coded error in all cases
    match ((s.drop ((s.splitOn ":").head!.length + 1)).toString).splitOn "@" with
    | [e, m] => match parseWireErr e, parseHeader m with
      | some w, some mh => some (some (.coded { code := w.code, msg := w.msg, details := w.details, md := mh }))
      | _, _ => none
    | _ => none
  else none

def parseKind' (s : String) : StreamKind :=
  match s with
  | "unary" => .unary | "client" => .client | "server" => .server | _ => .bidi
def parseProto' (s : String) : Proto :=
  match s with
  | "connect" => .connect | "grpc" => .grpc | _ => .grpcWeb

def serveOp (args : List String) : String :=
  match kv' args "proto", kv' args "kind", (kv' args "ct").bind hexArg', (kv' args "names").bind hexArg',
        (kv' args "resp").bind hexArg', kv' args "comp", (kv' args "min").bind String.toInt?,
        (kv' args "hdr").bind parseHeader, (kv' args "trl").bind parseHeader, kv' args "sends",
        (kv' args "result").bind parseGoErr with
  | some proto, some kind, some ct, some names, some resp, some comp, some min, some hdr, some trl, some sends, some result =>
    match (if sends == "none" then some [] else (sends.splitOn ",").mapM hexArg') with
    | some ss =>
      let c : HConn := { proto := parseProto' proto, kind := parseKind' kind, contentType := ct, names := names,
                         respCompression := resp, pool := if comp == "1" then some rleCompressor else none, minBytes := min }
      let p : HProg := { header := hdr, trailer := trl, sends := ss, result := result }
      -- codedunenc: one more detail, which cannot be converted to an Any; codedunrend: the last
      -- detail of the list is an Any of a type the binary does not know
      let ds : DetailState :=
        match kv' args "result" with
        | some r => if r.startsWith "codedunenc:" then .unencodable else if r.startsWith "codedunrend:" then .unrenderable else .good
        | none => .good
      showResp (serveD ds encStatus c p)
    | none => "bad-op"
  | _, _, _, _, _, _, _, _, _, _, _ => "bad-op"

/-- `hideHT`: the typed unary / client-stream API returns no response object on failure, so
    headers and trailers are not observable there. A locally produced error (`msg = [*]`) prints
    its message as the wildcard `?` (error texts are not part of any property). -/
def showObs (hideHT : Bool) (o : ClientObs) : String :=
  let msgs := if o.msgs.isEmpty then "none" else ",".intercalate (o.msgs.map hexOut')
  let res := match o.result with
    | none => "ok"
    | some e =>
      (if e.msg == [42] then s!"{e.code}/?/-" else showWireErr { code := e.code, msg := e.msg, details := e.details })
        ++ "@" ++ showHeader e.md
  if hideHT && o.result.isSome then s!"msgs={msgs} res={res} hdr=- trl=-"
  else s!"msgs={msgs} res={res} hdr={showHeader o.header} trl={showHeader o.trailer}"

def cdecOp (args : List String) : String :=
  match kv' args "proto", kv' args "kind", kv' args "accepts", (kv' args "max").bind String.toNat?,
        (kv' args "stext").bind hexArg', (kv' args "status").bind String.toNat?,
        (kv' args "hdr").bind parseHeader, (kv' args "body").bind parseBody, (kv' args "trl").bind parseHeader with
  | some proto, some kind, some accepts, some max, some stext, some status, some hdr, some body, some trl =>
    let cfg : CCfg := { proto := parseProto' proto, kind := parseKind' kind,
                        accepts := if accepts == "-" then [] else (accepts.splitOn ",").map fun s => s.toUTF8.toList,
                        pool := rleCompressor, max := max }
    showObs (kind == "unary" || kind == "client") (clientDecode decStatus cfg stext { status := status, header := hdr, body := body, trailer := trl })
  | _, _, _, _, _, _, _, _, _ => "bad-op"

def showRecvClass : RecvClass → String
  | .msg m => "ok:" ++ hexOut' m
  | .eof => "eof"
  | .fail c => s!"fail:{c}"

def rseqOp (args : List String) : String :=
  match kv' args "proto", (kv' args "max").bind String.toNat?, (kv' args "n").bind String.toNat?,
        (kv' args "hdr").bind parseHeader, (kv' args "body").bind parseBody, (kv' args "trl").bind parseHeader with
  | some proto, some max, some n, some hdr, some body, some trl =>
    let p := parseProto' proto
    let cfg : CCfg := { proto := p, kind := .bidi, accepts := ["gzip".toUTF8.toList, "rle".toUTF8.toList], pool := rleCompressor, max := max }
    let encName := match p with
      | .connect => Header.get hdr Gen.hdrConnectStreamEncoding
      | _ => Header.get hdr Gen.hdrGrpcEncoding
    let r : Resp := { status := 200, header := hdr, body := body, trailer := trl }
    let items := toRItems decStatus (fun m => (rawCodec.unmarshal m).isNone) cfg (encodingPool cfg encName) r
    " ".intercalate ((receiveMany n { stored := none, items := items }).map showRecvClass)
  | _, _, _, _, _, _ => "bad-op"

def showSOut : SOut → String
  | .recv (some m) => "t:" ++ hexOut' m
  | .recv none => "f"
  | .err none => "e:none"
  | .err (some c) => s!"e:{c}"
  | .closed => "c"

/-- `sseq`: a sequence of Receive / Err / Close on a `ServerStreamForClient` over a structured
    response (`ops=` a word over r, e, c) -/
def sseqOp (args : List String) : String :=
  match kv' args "proto", (kv' args "max").bind String.toNat?, kv' args "ops",
        (kv' args "hdr").bind parseHeader, (kv' args "body").bind parseBody, (kv' args "trl").bind parseHeader with
  | some proto, some max, some ops, some hdr, some body, some trl =>
    let p := parseProto' proto
    let cfg : CCfg := { proto := p, kind := .server, accepts := ["gzip".toUTF8.toList, "rle".toUTF8.toList], pool := rleCompressor, max := max }
    let encName := match p with
      | .connect => Header.get hdr Gen.hdrConnectStreamEncoding
      | _ => Header.get hdr Gen.hdrGrpcEncoding
    let r : Resp := { status := 200, header := hdr, body := body, trailer := trl }
    let items := toRItems decStatus (fun m => (rawCodec.unmarshal m).isNone) cfg (encodingPool cfg encName) r
    let sops : Option (List SOp) := ops.toList.mapM fun ch =>
      if ch == 'r' then some SOp.receive else if ch == 'e' then some SOp.err else if ch == 'c' then some SOp.close else none
    match sops with
    | some l => " ".intercalate ((srun (SState.start items) l).1.map showSOut)
    | none => "bad-op"
  | _, _, _, _, _, _ => "bad-op"

/-! ### handler side: arbitrary requests -/

def jsonTable (d : Bytes) : Bool := d == [123, 125]                          -- "{}"
def trailerTable (d : Bytes) : Bool := d == [97, 58, 32, 98, 13, 10] || d == []   -- "a: b\r\n"; the empty block fails with io.EOF inside
def tableParsers : SpecialParsers := { jsonOK := jsonTable, trailerOK := trailerTable }

def parseTail' (s : String) : Option RErr :=
  match s.splitOn ":" with
  | ["eof"] => some .eof
  | ["ueof"] => some .unexpectedEOF
  | ["weof"] => some .eof            -- an error wrapping io.EOF: errors.Is sees the end of the body
  | ["err"] => some .other
  | _ => none

def showEnd : HEnd → String
  | .eof => "eof"
  | .fail c => toString c

def hreqOp (args : List String) : String :=
  match kv' args "proto", kv' args "kind", (kv' args "max").bind String.toNat?, (kv' args "sent").bind hexArg',
        (kv' args "tmo").bind hexArg', (kv' args "flat").bind hexArg', (kv' args "tail").bind parseTail' with
  | some proto, some kind, some max, some sent, some tmo, some flat, some tail =>
    let p := parseProto' proto
    let reg : List Bytes := [Gen.compressionGzip, "rle".toUTF8.toList]
    let acc : Bytes := ((kv' args "acc").bind hexArg').getD []
    match preCheck p reg sent acc tmo with
    | .reject code => if kind == "unary" || kind == "server" then s!"norun:{code}" else s!"pre=reject:{code}"
    | .run hasPool =>
      let cfg : ReaderCfg Bytes := { codec := rawCodec, pool := if hasPool then some rleCompressor else none, max := max }
      let src : Src := { flat := flat, tail := tail }
      if kind == "unary" && proto == "connect" then
        match handlerRecvUnaryConnect cfg src with
        | (some v, _) =>
          match unaryGate p tmo with
          | some code => s!"norun:{code}"
          | none => s!"pre=run recv={hexOut' v} end=eof"
        | (none, e) => s!"norun:{showEnd e}"
      else if kind == "unary" || kind == "server" then
        -- receiveUnaryRequest: the message, then the end of the request side
        match singleRequest (handlerRecvStream p tableParsers cfg src) with
        | .inl v =>
          match (if kind == "unary" then unaryGate p tmo else none) with
          | some code => s!"norun:{code}"
          | none => s!"pre=run recv={hexOut' v} end=eof"
        | .inr code => s!"norun:{code}"
      else
        let r := handlerRecvStream p tableParsers cfg src
        let msgs := if r.1.isEmpty then "none" else ",".intercalate (r.1.map hexOut')
        s!"pre=run recv={msgs} end={showEnd r.2}"
  | _, _, _, _, _, _, _ => "bad-op"

end ProtoOps
