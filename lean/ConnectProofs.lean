import ConnectProofs.C01
import ConnectProofs.C03
import ConnectProofs.C04
import ConnectProofs.C09
import ConnectProofs.C10
import ConnectProofs.C16
import ConnectProofs.C18
import ConnectProofs.C19
