/-
  C06 — Whatever a server sends, the client fails safely with a coded non-OK error.

  `clientDecode` takes an *arbitrary* structured response (any status, any header and trailer
  maps, any sequence of body items, any compression flags). Totality / no panic: it is a total
  function whose only failure outcome is `some err`.
-/
import ConnectModel.Proto
import ConnectProofs.Lemmas.Header

namespace ConnectModel.C06
open ConnectModel

/-- tables: the HTTP → code mappings never produce the OK code (re-checked against the Go source) -/
theorem httpToCode_tables_nonzero :
    (∀ p ∈ Gen.connectHTTPToCode, p.2 ≠ 0) ∧ Gen.connectHTTPToCodeDefault ≠ 0 ∧
    (∀ p ∈ Gen.grpcHTTPToCode, p.2 ≠ 0) ∧ Gen.grpcHTTPToCodeDefault ≠ 0 := by decide

theorem lookupNat_mem' {α} (t : List (Nat × α)) (k : Nat) (v : α) (h : lookupNat t k = some v) : (k, v) ∈ t := by
  induction t with
  | nil => simp [lookupNat] at h
  | cons p rest ih =>
    obtain ⟨k', v'⟩ := p
    simp only [lookupNat] at h
    split at h
    · simp at h; subst h; rename_i hk; subst hk; simp
    · exact List.mem_cons_of_mem _ (ih h)

theorem connectHTTPToCode_ne_zero (s : Nat) : connectHTTPToCode s ≠ 0 := by
  unfold connectHTTPToCode
  cases h : lookupNat Gen.connectHTTPToCode s with
  | none => simpa using httpToCode_tables_nonzero.2.1
  | some v => simpa using httpToCode_tables_nonzero.1 (s, v) (lookupNat_mem' _ _ _ h)

theorem grpcHTTPToCode_ne_zero (s : Nat) : grpcHTTPToCode s ≠ 0 := by
  unfold grpcHTTPToCode
  cases h : lookupNat Gen.grpcHTTPToCode s with
  | none => simpa using httpToCode_tables_nonzero.2.2.2
  | some v => simpa using httpToCode_tables_nonzero.2.2.1 (s, v) (lookupNat_mem' _ _ _ h)

theorem fixCode_ne_zero (c f : Nat) (hf : f ≠ 0) : fixCode c f ≠ 0 := by
  unfold fixCode; split <;> assumption

theorem localErr_code (c : Nat) : (localErr c).code = c := rfl

/-- a server error extracted from gRPC trailers never has code 0 -/
theorem grpcVerdict_code (dec : Bytes → Option WireErr) (t : Header) (w : WireErr)
    (h : grpcErrorFromTrailer dec t = .serverErr w) : w.code ≠ 0 := by
  simp only [grpcErrorFromTrailer] at h
  split at h
  · cases h
  · split at h
    · cases h
    · rename_i code _
      split at h
      · cases h
      · rename_i hcode
        split at h
        · cases h; exact hcode
        · split at h
          · cases h
          · split at h
            · cases h
            · split at h
              · cases h
              · rename_i hst; cases h; exact hst

theorem codes_nonzero : codeInternal ≠ 0 ∧ codeUnknown ≠ 0 ∧ codeInvalidArgument ≠ 0 := by decide

/-- what `recvItems` reports as a local failure always carries a non-zero code -/
theorem recvItems_fail_code (cfg : CCfg) (enc : Option Compressor) :
    ∀ (items : List BodyItem) (c : Nat), (recvItems cfg enc items).2 = .fail c → c ≠ 0 := by
  intro items
  induction items with
  | nil => intro c h; simp [recvItems] at h
  | cons it rest ih =>
    intro c h
    cases it with
    | frame fl p =>
      simp only [recvItems] at h
      split at h
      · split at h
        · exact ih c h
        · split at h
          · cases h; exact codes_nonzero.2.2
          · split at h
            · split at h
              · cases h; exact codes_nonzero.2.2
              · split at h
                · exact ih c h
                · cases h; exact codes_nonzero.2.2
            · exact ih c h
      · cases h; exact codes_nonzero.1
    | endStream e m => simp only [recvItems] at h; split at h <;> cases h; exact codes_nonzero.1
    | webTrailer b => simp only [recvItems] at h; split at h <;> cases h; exact codes_nonzero.1
    | raw d =>
      simp only [recvItems, recvCutTail] at h
      by_cases hr : rest.isEmpty = true <;> by_cases hd : d.isEmpty = true <;> simp [hr, hd] at h <;>
        (subst h; first | exact codes_nonzero.2.2 | exact codes_nonzero.1)
    | errorJSON w => simp only [recvItems] at h; cases h; exact codes_nonzero.1
    | errorJSONz w => simp only [recvItems] at h; cases h; exact codes_nonzero.1

theorem connectStream_code (cfg : CCfg) (r : Resp) (e : CErr)
    (h : (clientConnectStream cfg r).result = some e) : e.code ≠ 0 := by
  simp only [clientConnectStream] at h
  by_cases hs : r.status ≠ 200
  · rw [if_pos hs] at h
    simp only [Option.some.injEq] at h; subst h; exact connectHTTPToCode_ne_zero _
  · rw [if_neg hs] at h
    by_cases hk : (!encodingKnown cfg (r.header.get Gen.hdrConnectStreamEncoding)) = true
    · rw [if_pos hk] at h
      simp only [Option.some.injEq] at h; subst h; exact codes_nonzero.1
    · rw [if_neg hk] at h
      rcases hr : recvItems cfg (encodingPool cfg (r.header.get Gen.hdrConnectStreamEncoding)) r.body with ⟨msgs, term⟩
      rw [hr] at h
      cases term with
      | cleanEOF => simp only [Option.some.injEq] at h; subst h; exact codes_nonzero.1
      | fail c =>
        simp only [Option.some.injEq] at h; subst h
        exact recvItems_fail_code cfg _ r.body c (by rw [hr])
      | webTrailer b => simp only [Option.some.injEq] at h; subst h; exact codes_nonzero.1
      | endStream eo m =>
        cases eo with
        | none => simp at h
        | some w => simp only [Option.some.injEq] at h; subst h; exact fixCode_ne_zero _ _ codes_nonzero.2.1

theorem connectUnary_code (cfg : CCfg) (st : Bytes) (r : Resp) (e : CErr)
    (h : (clientConnectUnary cfg st r).result = some e) : e.code ≠ 0 := by
  unfold clientConnectUnary at h
  simp only at h
  split at h
  · split at h
    · simp only [Option.some.injEq] at h; subst h; exact connectHTTPToCode_ne_zero _
    · simp only [Option.some.injEq] at h; subst h; exact codes_nonzero.1
  · split at h
    · split at h
      · simp only [Option.some.injEq] at h; subst h; exact fixCode_ne_zero _ _ (connectHTTPToCode_ne_zero _)
      · split at h
        · simp only [Option.some.injEq] at h; subst h; exact fixCode_ne_zero _ _ (connectHTTPToCode_ne_zero _)
        · simp only [Option.some.injEq] at h; subst h; exact connectHTTPToCode_ne_zero _
      · simp only [Option.some.injEq] at h; subst h; exact connectHTTPToCode_ne_zero _
    · split at h
      · split at h
        · simp only [Option.some.injEq] at h; subst h; exact codes_nonzero.2.2
        · split at h
          · split at h
            · simp at h
            · split at h
              · simp at h
              · simp only [Option.some.injEq] at h; subst h; exact codes_nonzero.2.2
          · simp at h
      · simp at h
      · simp only [Option.some.injEq] at h; subst h; exact codes_nonzero.1

theorem grpc_code (dec : Bytes → Option WireErr) (cfg : CCfg) (r : Resp) (e : CErr)
    (h : (clientGrpc dec cfg r).result = some e) : e.code ≠ 0 := by
  simp only [clientGrpc] at h
  by_cases hs : r.status ≠ 200
  · rw [if_pos hs] at h
    simp only [Option.some.injEq] at h; subst h; exact grpcHTTPToCode_ne_zero _
  · rw [if_neg hs] at h
    by_cases hk : (!encodingKnown cfg (r.header.get Gen.hdrGrpcEncoding)) = true
    · rw [if_pos hk] at h
      simp only [Option.some.injEq] at h; subst h; exact codes_nonzero.1
    · rw [if_neg hk] at h
      cases hv : grpcErrorFromTrailer dec r.header with
      | serverErr w =>
        rw [hv] at h
        simp only [Option.some.injEq] at h; subst h
        exact grpcVerdict_code dec r.header w hv
      | protocolErr =>
        rw [hv] at h
        simp only [Option.some.injEq] at h; subst h; exact codes_nonzero.1
      | ok =>
        rw [hv] at h
        simp only at h
        rcases hr : recvItems cfg (encodingPool cfg (r.header.get Gen.hdrGrpcEncoding)) r.body with ⟨msgs, term⟩
        rw [hr] at h
        simp only at h
        by_cases hto : (mergeHeaders [] r.header).get Gen.hdrGrpcStatus ≠ []
        · rw [if_pos hto] at h
          cases term with
          | cleanEOF => simp at h
          | webTrailer b => simp at h
          | fail c =>
            simp only [Option.some.injEq] at h; subst h
            exact recvItems_fail_code cfg _ r.body c (by rw [hr])
          | endStream eo m => simp only [Option.some.injEq] at h; subst h; exact codes_nonzero.1
        · rw [if_neg hto] at h
          revert h
          cases term with
          | cleanEOF =>
            simp only
            intro h
            split at h
            · rename_i w hv2; simp only [Option.some.injEq] at h; subst h; exact grpcVerdict_code _ _ w hv2
            · simp only [Option.some.injEq] at h; subst h; exact codes_nonzero.1
            · simp only [if_true, Option.some.injEq] at h; subst h; exact codes_nonzero.1
            · simp at h
          | webTrailer b =>
            simp only
            intro h
            split at h
            · rename_i w hv2; simp only [Option.some.injEq] at h; subst h; exact grpcVerdict_code _ _ w hv2
            · simp only [Option.some.injEq] at h; subst h; exact codes_nonzero.1
            · simp only [if_true, Option.some.injEq] at h; subst h; exact codes_nonzero.1
            · simp at h
          | fail c =>
            have hc := recvItems_fail_code cfg _ r.body c (by rw [hr])
            simp only
            intro h
            split at h
            · rename_i w hv2; simp only [Option.some.injEq] at h; subst h; exact grpcVerdict_code _ _ w hv2
            · simp only [Option.some.injEq] at h; subst h; exact codes_nonzero.1
            · simp only [Bool.false_eq_true, if_false, Option.some.injEq] at h; subst h; exact hc
            · simp only [Bool.false_eq_true, if_false, Option.some.injEq] at h; subst h; exact hc
          | endStream eo m =>
            simp only
            intro h
            split at h
            · rename_i w hv2; simp only [Option.some.injEq] at h; subst h; exact grpcVerdict_code _ _ w hv2
            · simp only [Option.some.injEq] at h; subst h; exact codes_nonzero.1
            · simp only [Bool.false_eq_true, if_false, Option.some.injEq] at h; subst h; exact codes_nonzero.1
            · simp only [Bool.false_eq_true, if_false, Option.some.injEq] at h; subst h; exact codes_nonzero.1
      | missing =>
        rw [hv] at h
        simp only at h
        rcases hr : recvItems cfg (encodingPool cfg (r.header.get Gen.hdrGrpcEncoding)) r.body with ⟨msgs, term⟩
        rw [hr] at h
        simp only at h
        by_cases hto : (mergeHeaders [] r.header).get Gen.hdrGrpcStatus ≠ []
        · rw [if_pos hto] at h
          cases term with
          | cleanEOF => simp at h
          | webTrailer b => simp at h
          | fail c =>
            simp only [Option.some.injEq] at h; subst h
            exact recvItems_fail_code cfg _ r.body c (by rw [hr])
          | endStream eo m => simp only [Option.some.injEq] at h; subst h; exact codes_nonzero.1
        · rw [if_neg hto] at h
          revert h
          cases term with
          | cleanEOF =>
            simp only
            intro h
            split at h
            · rename_i w hv2; simp only [Option.some.injEq] at h; subst h; exact grpcVerdict_code _ _ w hv2
            · simp only [Option.some.injEq] at h; subst h; exact codes_nonzero.1
            · simp only [if_true, Option.some.injEq] at h; subst h; exact codes_nonzero.1
            · simp at h
          | webTrailer b =>
            simp only
            intro h
            split at h
            · rename_i w hv2; simp only [Option.some.injEq] at h; subst h; exact grpcVerdict_code _ _ w hv2
            · simp only [Option.some.injEq] at h; subst h; exact codes_nonzero.1
            · simp only [if_true, Option.some.injEq] at h; subst h; exact codes_nonzero.1
            · simp at h
          | fail c =>
            have hc := recvItems_fail_code cfg _ r.body c (by rw [hr])
            simp only
            intro h
            split at h
            · rename_i w hv2; simp only [Option.some.injEq] at h; subst h; exact grpcVerdict_code _ _ w hv2
            · simp only [Option.some.injEq] at h; subst h; exact codes_nonzero.1
            · simp only [Bool.false_eq_true, if_false, Option.some.injEq] at h; subst h; exact hc
            · simp only [Bool.false_eq_true, if_false, Option.some.injEq] at h; subst h; exact hc
          | endStream eo m =>
            simp only
            intro h
            split at h
            · rename_i w hv2; simp only [Option.some.injEq] at h; subst h; exact grpcVerdict_code _ _ w hv2
            · simp only [Option.some.injEq] at h; subst h; exact codes_nonzero.1
            · simp only [Bool.false_eq_true, if_false, Option.some.injEq] at h; subst h; exact codes_nonzero.1
            · simp only [Bool.false_eq_true, if_false, Option.some.injEq] at h; subst h; exact codes_nonzero.1

theorem unaryWrap_code (o : ClientObs) (hin : ∀ e, o.result = some e → e.code ≠ 0) (e : CErr)
    (h : (unaryWrap o).result = some e) : e.code ≠ 0 := by
  unfold unaryWrap at h
  split at h
  · rename_i e' hm hr; exact hin e h
  · simp only [Option.some.injEq] at h; subst h; exact codes_nonzero.2.1
  · rename_i hm hr; rw [hr] at h; cases h
  · exact hin e h
  · simp only [Option.some.injEq] at h; subst h; exact codes_nonzero.2.1

/-- **client_error_code_nonzero**: for any HTTP response whatsoever (any status, header map,
    body items, trailers), in every protocol and RPC kind, an error reported by the client
    never carries the zero (OK) code. -/
theorem client_error_code_nonzero (dec : Bytes → Option WireErr) (cfg : CCfg) (st : Bytes) (r : Resp) (e : CErr)
    (h : (clientDecode dec cfg st r).result = some e) : e.code ≠ 0 := by
  have hS : ∀ e', (match cfg.proto with
      | .connect => if cfg.kind = StreamKind.unary then clientConnectUnary cfg st r else clientConnectStream cfg r
      | _ => clientGrpc dec cfg r).result = some e' → e'.code ≠ 0 := by
    intro e' he'
    cases hp : cfg.proto with
    | connect =>
      rw [hp] at he'
      simp only at he'
      split at he'
      · exact connectUnary_code cfg st r e' he'
      · exact connectStream_code cfg r e' he'
    | grpc => rw [hp] at he'; exact grpc_code dec cfg r e' he'
    | grpcWeb => rw [hp] at he'; exact grpc_code dec cfg r e' he'
  unfold clientDecode at h
  simp only at h
  split at h
  · exact hS e h
  · exact unaryWrap_code _ hS e h
  · exact unaryWrap_code _ hS e h
  · exact hS e h

/-- **non200_code_from_status**: a non-200 response that carries no valid protocol-level error
    yields the code derived from the HTTP status (streaming Connect and gRPC: always; unary
    Connect: when the body is not a well-formed error). -/
theorem non200_code_from_status_stream (cfg : CCfg) (r : Resp) (hs : r.status ≠ 200) :
    (clientConnectStream cfg r).result = some (localErr (connectHTTPToCode r.status)) := by
  simp [clientConnectStream, hs]

theorem non200_code_from_status_grpc (dec : Bytes → Option WireErr) (cfg : CCfg) (r : Resp) (hs : r.status ≠ 200) :
    (clientGrpc dec cfg r).result = some (localErr (grpcHTTPToCode r.status)) := by
  simp [clientGrpc, hs]

theorem non200_code_from_status_unary (cfg : CCfg) (st : Bytes) (r : Resp) (hs : r.status ≠ 200)
    (henc : encodingKnown cfg (r.header.get Gen.hdrConnectUnaryEncoding) = true)
    (hbody : ∀ w, r.body ≠ [.errorJSON w] ∧ r.body ≠ [.errorJSONz w]) :
    ∃ e, (clientConnectUnary cfg st r).result = some e ∧ e.code = connectHTTPToCode r.status := by
  simp only [clientConnectUnary, henc, Bool.not_true, Bool.false_eq_true, if_false, hs, ne_eq, not_false_eq_true, if_true]
  split
  · rename_i w hw; exact absurd hw (hbody w).1
  · rename_i w hw; exact absurd hw (hbody w).2
  · exact ⟨_, rfl, rfl⟩

/-- **non200_code_from_status (unary Connect, unreadable encoding)** (fix F30): a non-200 answer
    that names a content encoding this client does not have carries no error the client could
    read: whatever the body, the code is that of the HTTP status. (Before the fix the unknown
    encoding was reported first, as `internal` — the hypothesis `henc` of the theorem above was
    the proof's way of saying so.) -/
theorem non200_code_from_status_unary_unknown_encoding (cfg : CCfg) (st : Bytes) (r : Resp) (hs : r.status ≠ 200)
    (henc : encodingKnown cfg (r.header.get Gen.hdrConnectUnaryEncoding) = false) :
    (clientConnectUnary cfg st r).result =
      some { code := connectHTTPToCode r.status, msg := st, details := [], md := [] } := by
  simp [clientConnectUnary, henc, hs]

/-- on a 200 an unreadable encoding is still a protocol error -/
theorem unknown_encoding_on_200_is_internal (cfg : CCfg) (st : Bytes) (r : Resp) (hs : r.status = 200)
    (henc : encodingKnown cfg (r.header.get Gen.hdrConnectUnaryEncoding) = false) :
    (clientConnectUnary cfg st r).result = some (localErr codeInternal) := by
  simp [clientConnectUnary, henc, hs]

/-- **unary body without code**: a unary Connect error body whose code is missing or zero takes
    its code from the HTTP status (fix f212b2f) -/
theorem unary_zero_code_from_status (cfg : CCfg) (st : Bytes) (r : Resp) (w : WireErr) (hs : r.status ≠ 200)
    (henc : encodingKnown cfg (r.header.get Gen.hdrConnectUnaryEncoding) = true)
    (hb : r.body = [.errorJSON w]) (h0 : w.code = 0) :
    ∃ e, (clientConnectUnary cfg st r).result = some e ∧ e.code = connectHTTPToCode r.status := by
  simp only [clientConnectUnary, henc, Bool.not_true, Bool.false_eq_true, if_false, hs, ne_eq, not_false_eq_true, if_true, hb,
    fixCode, h0]
  exact ⟨_, rfl, rfl⟩

/-! ### header lookups are case-insensitive for end-of-stream metadata (fix 76303df) -/

theorem vals_canonicalize_mem (h : Header) (k : Bytes) (vs : List Bytes) (hm : (k, vs) ∈ h) :
    ∀ v ∈ vs, v ∈ (canonicalizeKeys h).vals (canonicalKey k) := by
  -- generalise over the accumulator of the fold
  have key : ∀ (l : Header) (acc : Header), (k, vs) ∈ l ∨ (∀ v ∈ vs, v ∈ acc.vals (canonicalKey k)) →
      ∀ v ∈ vs, v ∈ (l.foldl (fun acc p => acc.put (canonicalKey p.1) (acc.vals (canonicalKey p.1) ++ p.2)) acc).vals (canonicalKey k) := by
    intro l
    induction l with
    | nil =>
      intro acc h v hv
      rcases h with h | h
      · simp at h
      · exact h v hv
    | cons p rest ih =>
      intro acc h
      simp only [List.foldl_cons]
      apply ih
      rcases h with h | h
      · simp only [List.mem_cons] at h
        rcases h with h | h
        · right
          subst h
          intro v hv
          simp [Header.vals_put, hv]
        · left; exact h
      · right
        intro v hv
        rw [Header.vals_put]
        split
        · rename_i heq; rw [← heq]; simp [h v hv]
        · exact h v hv
  exact key h [] (Or.inl hm)

/-- **lookup_case_insensitive**: whatever casing the peer used for a key of the end-of-stream
    metadata, looking the canonical key up finds every value sent under it. -/
theorem lookup_case_insensitive (meta' : Header) (k : Bytes) (vs : List Bytes) (hm : (k, vs) ∈ meta') :
    ∀ v ∈ vs, v ∈ (mergeHeaders [] (canonicalizeKeys meta')).vals (canonicalKey k) := by
  intro v hv
  have hwf : (canonicalizeKeys meta').wf := by
    unfold canonicalizeKeys
    have : ∀ (l : Header) (acc : Header), acc.wf →
        (l.foldl (fun acc p => acc.put (canonicalKey p.1) (acc.vals (canonicalKey p.1) ++ p.2)) acc).wf := by
      intro l
      induction l with
      | nil => intro acc h; exact h
      | cons p rest ih => intro acc h; exact ih _ (Header.put_wf _ _ _ h)
    exact this _ _ Header.nil_wf
  rw [vals_mergeHeaders _ _ hwf]
  simp only [Header.vals, List.nil_append]
  exact vals_canonicalize_mem meta' k vs hm v hv

/-! non-vacuity -/
example : canonicalKey [120, 45, 108, 111, 119, 101, 114] = [88, 45, 76, 111, 119, 101, 114] := by decide
example : (clientConnectStream { proto := .connect, kind := .server, accepts := [], pool := { compress := id, decompress := fun b => ⟨b, true⟩ }, max := 0 }
    { status := 200, header := [], body := [.endStream (some { code := 0, msg := [], details := [] }) []], trailer := [] }).result.map (·.code)
    = some codeUnknown := by decide

end ConnectModel.C06
