/-
  C18 — The small wire codecs are total, lossless and header-safe.

  Property theorems only (helper lemmas live in ConnectProofs/Lemmas).
  Totality ("none of these operations panics"): every model function below is a total Lean
  function whose only failure outcome is an explicit `none`; the correspondence stream S-codec
  checks that the Go functions return (error or value) on the same inputs without panicking.
-/
import ConnectModel.Code
import ConnectModel.Percent
import ConnectModel.Base64
import ConnectProofs.Lemmas.Dec
import ConnectProofs.Lemmas.Bytes

namespace ConnectModel.C18

open ConnectModel

/-! ## Code text form -/

/-- Facts about the regenerated tables that the round-trip needs. Re-checked by `decide`
    against what the Go source says now. -/
theorem tables_inverse :
    (∀ p ∈ Gen.codeNames, lookupBytes Gen.textToCode p.2 = some p.1) := by decide

theorem names_not_code_prefixed :
    (∀ p ∈ Gen.textToCode, codePrefix.isPrefixOf p.1 = false) := by decide

theorem names_cover_range :
    (∀ c : Fin 64, (lookupNat Gen.codeNames c.val).isSome = (decide (Gen.minCode ≤ c.val ∧ c.val ≤ Gen.maxCode))) ∧
    Gen.maxCode < 64 := by decide

theorem lookupNat_mem {α} (t : List (Nat × α)) (k : Nat) (v : α) (h : lookupNat t k = some v) :
    (k, v) ∈ t := by
  induction t with
  | nil => simp [lookupNat] at h
  | cons p rest ih =>
    obtain ⟨k', v'⟩ := p
    simp only [lookupNat] at h
    split at h
    · simp at h; subst h; rename_i hk; subst hk; simp
    · exact List.mem_cons_of_mem _ (ih h)

theorem lookupBytes_none_of_prefix {α} (t : List (Bytes × α)) (k : Bytes)
    (ht : ∀ p ∈ t, codePrefix.isPrefixOf p.1 = false) (hk : codePrefix.isPrefixOf k = true) :
    lookupBytes t k = none := by
  induction t with
  | nil => rfl
  | cons p rest ih =>
    obtain ⟨k', v'⟩ := p
    simp only [lookupBytes]
    split
    · rename_i heq; subst heq
      have := ht (k, v') (by simp)
      simp [hk] at this
    · exact ih (fun p hp => ht p (List.mem_cons_of_mem _ hp))

theorem lookupNat_none_outside (c : Nat) (h : c < Gen.minCode ∨ Gen.maxCode < c) :
    lookupNat Gen.codeNames c = none := by
  by_cases hc : c < 64
  · have := names_cover_range.1 ⟨c, hc⟩
    simp only at this
    have hfalse : decide (Gen.minCode ≤ c ∧ c ≤ Gen.maxCode) = false := by
      simp only [decide_eq_false_iff_not]; omega
    rw [hfalse] at this
    cases hl : lookupNat Gen.codeNames c with
    | none => rfl
    | some v => rw [hl] at this; simp at this
  · -- no key of the table is ≥ 64
    cases hl : lookupNat Gen.codeNames c with
    | none => rfl
    | some v =>
      have hmem := lookupNat_mem _ _ _ hl
      have : ∀ p ∈ Gen.codeNames, p.1 < 64 := by decide
      have := this _ hmem
      simp at this; omega

theorem lookupNat_some_inside (c : Nat) (v : Bytes) (h : lookupNat Gen.codeNames c = some v) :
    Gen.minCode ≤ c ∧ c ≤ Gen.maxCode := by
  by_cases hr : Gen.minCode ≤ c ∧ c ≤ Gen.maxCode
  · exact hr
  · have := lookupNat_none_outside c (by omega)
    rw [this] at h; simp at h

/-- **code_text_roundtrip**: for every 32-bit code value, `UnmarshalText(MarshalText(c)) = c`. -/
theorem code_text_roundtrip (c : Nat) (hc : c < 2 ^ 32) :
    codeUnmarshalText (codeString c) = some c := by
  unfold codeString
  cases hl : lookupNat Gen.codeNames c with
  | some s =>
    simp only
    have hmem := lookupNat_mem _ _ _ hl
    have := tables_inverse (c, s) hmem
    simp only at this
    unfold codeUnmarshalText
    rw [this]
  | none =>
    simp only
    have hpre : codePrefix.isPrefixOf (codePrefix ++ showDec c) = true := by
      simp [List.isPrefixOf_iff_prefix]
    unfold codeUnmarshalText
    rw [lookupBytes_none_of_prefix _ _ names_not_code_prefixed hpre]
    simp only [hpre, if_true]
    have hdrop : (codePrefix ++ showDec c).drop 5 = showDec c := by simp [codePrefix]
    rw [hdrop, parseInt64_showDec (by omega)]
    simp only
    have hout : c < Gen.minCode ∨ Gen.maxCode < c := by
      by_cases hr : Gen.minCode ≤ c ∧ c ≤ Gen.maxCode
      · have h64 := names_cover_range.2
        have := names_cover_range.1 ⟨c, by omega⟩
        simp only at this
        rw [hl] at this
        simp at this
        omega
      · omega
    have hcond : ((c : Int) < (Gen.minCode : Int) ∨ (c : Int) > (Gen.maxCode : Int)) := by
      rcases hout with h | h
      · left; exact_mod_cast h
      · right; exact_mod_cast h
    simp only [hcond, if_true]
    congr 1
    have : ((c : Int) % (2 ^ 32 : Int)) = (c : Int) := Int.emod_eq_of_lt (by omega) (by exact_mod_cast hc)
    rw [this]; simp

/-- **code_text_rejects**: accepted text is a defined name or `code_<int literal>` for a value
    outside the named range; everything else is rejected. -/
theorem code_text_rejects (data : Bytes) (c : Nat) (h : codeUnmarshalText data = some c) :
    (∃ p ∈ Gen.textToCode, p.1 = data ∧ p.2 = c) ∨
    (∃ t i, data = codePrefix ++ t ∧ parseInt64 t = some i ∧
      (i < (Gen.minCode : Int) ∨ i > (Gen.maxCode : Int))) := by
  unfold codeUnmarshalText at h
  cases hl : lookupBytes Gen.textToCode data with
  | some v =>
    left
    rw [hl] at h; simp at h; subst h
    have : ∀ (t : List (Bytes × Nat)) k v, lookupBytes t k = some v → ∃ p ∈ t, p.1 = k ∧ p.2 = v := by
      intro t k v
      induction t with
      | nil => simp [lookupBytes]
      | cons p rest ih =>
        obtain ⟨k', v'⟩ := p
        simp only [lookupBytes]
        split
        · rename_i heq; intro hv; simp at hv; exact ⟨(k', v'), by simp, heq.symm, hv⟩
        · intro hv; obtain ⟨p, hp, h1, h2⟩ := ih hv; exact ⟨p, List.mem_cons_of_mem _ hp, h1, h2⟩
    exact this _ _ _ hl
  | none =>
    right
    rw [hl] at h
    simp only at h
    split at h
    · rename_i hpre
      cases hp : parseInt64 (data.drop 5) with
      | none => rw [hp] at h; simp at h
      | some i =>
        rw [hp] at h
        simp only at h
        split at h
        · rename_i hcond
          refine ⟨data.drop 5, i, ?_, hp, hcond⟩
          have := List.isPrefixOf_iff_prefix.mp hpre
          obtain ⟨t, ht⟩ := this
          rw [← ht]; simp [codePrefix]
        · simp at h
    · simp at h

/-- named codes are *not* accepted in `code_N` form -/
theorem code_text_named_not_numeric (n : Nat) (h : Gen.minCode ≤ n ∧ n ≤ Gen.maxCode) :
    codeUnmarshalText (codePrefix ++ showDec n) = none := by
  have hpre : codePrefix.isPrefixOf (codePrefix ++ showDec n) = true := by
    simp [List.isPrefixOf_iff_prefix]
  unfold codeUnmarshalText
  rw [lookupBytes_none_of_prefix _ _ names_not_code_prefixed hpre]
  simp only [hpre, if_true]
  have hdrop : (codePrefix ++ showDec n).drop 5 = showDec n := by simp [codePrefix]
  have h16 : Gen.maxCode = 16 := rfl
  rw [hdrop, parseInt64_showDec (by omega)]
  simp only
  have : ¬ ((n : Int) < (Gen.minCode : Int) ∨ (n : Int) > (Gen.maxCode : Int)) := by
    intro hh; rcases hh with hh | hh
    · have : n < Gen.minCode := by exact_mod_cast hh
      omega
    · have : n > Gen.maxCode := by exact_mod_cast hh
      omega
  rw [if_neg this]

/-! ## Percent-encoding -/

theorem percentDecode_cons_plain (c : UInt8) (l : Bytes) (h : (c.toNat == 37) = false) :
    percentDecode (c :: l) = c :: percentDecode l := by
  match l with
  | [] => simp [percentDecode]
  | [d] => simp [percentDecode]
  | a :: b :: rest => simp [percentDecode, h]

/-- **percent_roundtrip**: decoding the encoding of any byte string gives it back. -/
theorem percent_roundtrip (b : Bytes) : percentDecode (percentEncode b) = b := by
  induction b with
  | nil => simp [percentEncode, percentDecode]
  | cons c rest ih =>
    simp only [percentEncode]
    split
    · simp only [escapeByte, List.cons_append, List.nil_append, percentDecode]
      simp [parseHex2_hexByte, ih]
    · rename_i hne
      have : (c.toNat == 37) = false := by
        simp [needsEscape] at hne
        simp; omega
      rw [percentDecode_cons_plain _ _ this, ih]

/-- **percent_printable**: the encoder emits only printable ASCII (0x20..0x7E). -/
theorem percent_printable (b : Bytes) : ∀ x ∈ percentEncode b, 32 ≤ x.toNat ∧ x.toNat ≤ 126 := by
  induction b with
  | nil => simp [percentEncode]
  | cons c rest ih =>
    simp only [percentEncode]
    split
    · intro x hx
      simp only [escapeByte, List.cons_append, List.nil_append, List.mem_cons] at hx
      rcases hx with hx | hx | hx | hx
      · subst hx; decide
      · subst hx; exact hexByte_printable ⟨c.toNat / 16, by have := UInt8.toNat_lt c; omega⟩
      · subst hx; exact hexByte_printable ⟨c.toNat % 16, by omega⟩
      · exact ih x hx
    · rename_i hne
      intro x hx
      simp only [List.mem_cons] at hx
      rcases hx with hx | hx
      · subst hx
        simp [needsEscape] at hne
        omega
      · exact ih x hx

/-- and no escape is left dangling: the encoded form never contains a raw `%` that is not
    followed by two hex digits — stated as: `%` bytes in the output come only from escapes,
    i.e. an input without bytes needing escape is returned unchanged (the fast path). -/
theorem percent_identity_on_plain (b : Bytes) (h : ∀ x ∈ b, needsEscape x = false) :
    percentEncode b = b := by
  induction b with
  | nil => rfl
  | cons c rest ih =>
    simp only [percentEncode, h c (by simp)]
    simp
    exact ih (fun x hx => h x (List.mem_cons_of_mem _ hx))

/-! ## Binary headers -/

theorem encodeRaw_alphabet (b : Bytes) : ∀ x ∈ b64EncodeRaw b, ∃ n, n < 64 ∧ x = b64Char n := by
  induction b using b64EncodeRaw.induct with
  | case1 => simp [b64EncodeRaw]
  | case2 a =>
    have := UInt8.toNat_lt a
    intro x hx; simp only [b64EncodeRaw, List.mem_cons, List.mem_nil_iff, or_false] at hx
    rcases hx with hx | hx <;> exact ⟨_, by omega, hx⟩
  | case3 a b =>
    have := UInt8.toNat_lt a; have := UInt8.toNat_lt b
    intro x hx; simp only [b64EncodeRaw, List.mem_cons, List.mem_nil_iff, or_false] at hx
    rcases hx with hx | hx | hx <;> exact ⟨_, by omega, hx⟩
  | case4 a b c rest ih =>
    have := UInt8.toNat_lt a; have := UInt8.toNat_lt b; have := UInt8.toNat_lt c
    intro x hx; simp only [b64EncodeRaw, List.mem_cons] at hx
    rcases hx with hx | hx | hx | hx | hx
    · exact ⟨_, by omega, hx⟩
    · exact ⟨_, by omega, hx⟩
    · exact ⟨_, by omega, hx⟩
    · exact ⟨_, by omega, hx⟩
    · exact ih x hx

theorem dropNewlines_of_alphabet (l : Bytes) (h : ∀ x ∈ l, ∃ n, n < 64 ∧ x = b64Char n) :
    dropNewlines l = l := by
  unfold dropNewlines
  rw [List.filter_eq_self]
  intro x hx
  obtain ⟨n, hn, rfl⟩ := h x hx
  exact b64Char_keep hn

theorem dropNewlines_encodeRaw (b : Bytes) : dropNewlines (b64EncodeRaw b) = b64EncodeRaw b :=
  dropNewlines_of_alphabet _ (encodeRaw_alphabet b)

theorem encodeRaw_length_mod (b : Bytes) :
    ((b64EncodeRaw b).length % 4 = 0 ↔ b.length % 3 = 0) := by
  induction b using b64EncodeRaw.induct with
  | case1 => simp [b64EncodeRaw]
  | case2 a => simp [b64EncodeRaw]
  | case3 a b => simp [b64EncodeRaw]
  | case4 a b c rest ih =>
    simp only [b64EncodeRaw, List.length_cons]
    omega

theorem decodeRawCore_encodeRaw (b : Bytes) : b64DecodeRawCore (b64EncodeRaw b) = some b := by
  induction b using b64EncodeRaw.induct with
  | case1 => rfl
  | case2 a =>
    have := UInt8.toNat_lt a
    simp only [b64EncodeRaw, b64DecodeRawCore, b64Val_b64Char' (show a.toNat / 4 < 64 by omega),
      b64Val_b64Char' (show a.toNat % 4 * 16 < 64 by omega)]
    congr 2
    exact ofNat_eq_of_toNat _ _ (by omega)
  | case3 a b =>
    have := UInt8.toNat_lt a; have := UInt8.toNat_lt b
    simp only [b64EncodeRaw, b64DecodeRawCore, b64Val_b64Char' (show a.toNat / 4 < 64 by omega),
      b64Val_b64Char' (show a.toNat % 4 * 16 + b.toNat / 16 < 64 by omega),
      b64Val_b64Char' (show b.toNat % 16 * 4 < 64 by omega)]
    congr 2
    · exact ofNat_eq_of_toNat _ _ (by omega)
    · congr 1; exact ofNat_eq_of_toNat _ _ (by omega)
  | case4 a b c rest ih =>
    have := UInt8.toNat_lt a; have := UInt8.toNat_lt b; have := UInt8.toNat_lt c
    simp only [b64EncodeRaw, b64DecodeRawCore, b64Val_b64Char' (show a.toNat / 4 < 64 by omega),
      b64Val_b64Char' (show a.toNat % 4 * 16 + b.toNat / 16 < 64 by omega),
      b64Val_b64Char' (show b.toNat % 16 * 4 + c.toNat / 64 < 64 by omega),
      b64Val_b64Char' (show c.toNat % 64 < 64 by omega), ih]
    congr 2
    · exact ofNat_eq_of_toNat _ _ (by omega)
    · congr 1
      · exact ofNat_eq_of_toNat _ _ (by omega)
      · congr 1; exact ofNat_eq_of_toNat _ _ (by omega)

theorem decodeStdCore_encodeRaw (b : Bytes) (h : b.length % 3 = 0) :
    b64DecodeStdCore (b64EncodeRaw b) = some b := by
  induction b using b64EncodeRaw.induct with
  | case1 => rfl
  | case2 a => simp at h
  | case3 a b => simp at h
  | case4 a b c rest ih =>
    have := UInt8.toNat_lt a; have := UInt8.toNat_lt b; have := UInt8.toNat_lt c
    have hrest : rest.length % 3 = 0 := by simp only [List.length_cons] at h; omega
    have e1 := ofNat_eq_of_toNat a (a.toNat / 4 * 4 + (a.toNat % 4 * 16 + b.toNat / 16) / 16) (by omega)
    have e2 := ofNat_eq_of_toNat b ((a.toNat % 4 * 16 + b.toNat / 16) % 16 * 16 + (b.toNat % 16 * 4 + c.toNat / 64) / 4) (by omega)
    have e3 := ofNat_eq_of_toNat c ((b.toNat % 16 * 4 + c.toNat / 64) % 4 * 64 + c.toNat % 64) (by omega)
    have v1 := b64Val_b64Char' (show a.toNat / 4 < 64 by omega)
    have v2 := b64Val_b64Char' (show a.toNat % 4 * 16 + b.toNat / 16 < 64 by omega)
    have v3 := b64Val_b64Char' (show b.toNat % 16 * 4 + c.toNat / 64 < 64 by omega)
    have v4 := b64Val_b64Char' (show c.toNat % 64 < 64 by omega)
    have p3 := b64Char_ne_pad (show b.toNat % 16 * 4 + c.toNat / 64 < 64 by omega)
    have p4 := b64Char_ne_pad (show c.toNat % 64 < 64 by omega)
    simp only [b64EncodeRaw]
    match hr : b64EncodeRaw rest with
    | [] =>
      have : rest = [] := by
        match rest with
        | [] => rfl
        | [_] => simp [b64EncodeRaw] at hr
        | [_, _] => simp [b64EncodeRaw] at hr
        | _ :: _ :: _ :: _ => simp [b64EncodeRaw] at hr
      subst this
      simp only [b64DecodeStdCore, p3, p4, v1, v2, v3, v4, e1, e2, e3]
      simp
    | x :: xs =>
      have ih' := ih hrest
      rw [hr] at ih'
      simp only [b64DecodeStdCore, v1, v2, v3, v4, ih', e1, e2, e3]

theorem encodeStd_alphabet_or_pad (b : Bytes) :
    ∀ x ∈ b64EncodeStd b, (∃ n, n < 64 ∧ x = b64Char n) ∨ x = 61 := by
  induction b using b64EncodeStd.induct with
  | case1 => simp [b64EncodeStd]
  | case2 a =>
    have := UInt8.toNat_lt a
    intro x hx; simp only [b64EncodeStd, List.mem_cons, List.mem_nil_iff, or_false] at hx
    rcases hx with hx | hx | hx | hx
    · exact Or.inl ⟨_, by omega, hx⟩
    · exact Or.inl ⟨_, by omega, hx⟩
    · exact Or.inr hx
    · exact Or.inr hx
  | case3 a b =>
    have := UInt8.toNat_lt a; have := UInt8.toNat_lt b
    intro x hx; simp only [b64EncodeStd, List.mem_cons, List.mem_nil_iff, or_false] at hx
    rcases hx with hx | hx | hx | hx
    · exact Or.inl ⟨_, by omega, hx⟩
    · exact Or.inl ⟨_, by omega, hx⟩
    · exact Or.inl ⟨_, by omega, hx⟩
    · exact Or.inr hx
  | case4 a b c rest ih =>
    have := UInt8.toNat_lt a; have := UInt8.toNat_lt b; have := UInt8.toNat_lt c
    intro x hx; simp only [b64EncodeStd, List.mem_cons] at hx
    rcases hx with hx | hx | hx | hx | hx
    · exact Or.inl ⟨_, by omega, hx⟩
    · exact Or.inl ⟨_, by omega, hx⟩
    · exact Or.inl ⟨_, by omega, hx⟩
    · exact Or.inl ⟨_, by omega, hx⟩
    · exact ih x hx

theorem dropNewlines_encodeStd (b : Bytes) : dropNewlines (b64EncodeStd b) = b64EncodeStd b := by
  unfold dropNewlines
  rw [List.filter_eq_self]
  intro x hx
  rcases encodeStd_alphabet_or_pad b x hx with ⟨n, hn, rfl⟩ | rfl
  · exact b64Char_keep hn
  · decide

theorem encodeStd_length_mod (b : Bytes) : (b64EncodeStd b).length % 4 = 0 := by
  induction b using b64EncodeStd.induct with
  | case1 => simp [b64EncodeStd]
  | case2 a => simp [b64EncodeStd]
  | case3 a b => simp [b64EncodeStd]
  | case4 a b c rest ih => simp only [b64EncodeStd, List.length_cons]; omega

theorem encodeStd_ne_nil_of (rest : Bytes) (h : rest ≠ []) : ∃ x xs, b64EncodeStd rest = x :: xs := by
  match rest with
  | [] => exact absurd rfl h
  | [_] => exact ⟨_, _, rfl⟩
  | [_, _] => exact ⟨_, _, rfl⟩
  | _ :: _ :: _ :: _ => exact ⟨_, _, rfl⟩

theorem decodeStdCore_encodeStd (b : Bytes) : b64DecodeStdCore (b64EncodeStd b) = some b := by
  induction b using b64EncodeStd.induct with
  | case1 => rfl
  | case2 a =>
    have := UInt8.toNat_lt a
    have v1 := b64Val_b64Char' (show a.toNat / 4 < 64 by omega)
    have v2 := b64Val_b64Char' (show a.toNat % 4 * 16 < 64 by omega)
    have e1 := ofNat_eq_of_toNat a (a.toNat / 4 * 4 + (a.toNat % 4 * 16) / 16) (by omega)
    have h61 : ((61 : UInt8).toNat == 61) = true := rfl
    simp only [b64EncodeStd, b64DecodeStdCore, h61, if_true, v1, v2, e1]
  | case3 a b =>
    have := UInt8.toNat_lt a; have := UInt8.toNat_lt b
    have v1 := b64Val_b64Char' (show a.toNat / 4 < 64 by omega)
    have v2 := b64Val_b64Char' (show a.toNat % 4 * 16 + b.toNat / 16 < 64 by omega)
    have v3 := b64Val_b64Char' (show b.toNat % 16 * 4 < 64 by omega)
    have p3 := b64Char_ne_pad (show b.toNat % 16 * 4 < 64 by omega)
    have e1 := ofNat_eq_of_toNat a (a.toNat / 4 * 4 + (a.toNat % 4 * 16 + b.toNat / 16) / 16) (by omega)
    have e2 := ofNat_eq_of_toNat b ((a.toNat % 4 * 16 + b.toNat / 16) % 16 * 16 + (b.toNat % 16 * 4) / 4) (by omega)
    have h61 : ((61 : UInt8).toNat == 61) = true := rfl
    simp only [b64EncodeStd, b64DecodeStdCore, h61, p3, if_true, v1, v2, v3, e1, e2]
    simp
  | case4 a b c rest ih =>
    have := UInt8.toNat_lt a; have := UInt8.toNat_lt b; have := UInt8.toNat_lt c
    have e1 := ofNat_eq_of_toNat a (a.toNat / 4 * 4 + (a.toNat % 4 * 16 + b.toNat / 16) / 16) (by omega)
    have e2 := ofNat_eq_of_toNat b ((a.toNat % 4 * 16 + b.toNat / 16) % 16 * 16 + (b.toNat % 16 * 4 + c.toNat / 64) / 4) (by omega)
    have e3 := ofNat_eq_of_toNat c ((b.toNat % 16 * 4 + c.toNat / 64) % 4 * 64 + c.toNat % 64) (by omega)
    have v1 := b64Val_b64Char' (show a.toNat / 4 < 64 by omega)
    have v2 := b64Val_b64Char' (show a.toNat % 4 * 16 + b.toNat / 16 < 64 by omega)
    have v3 := b64Val_b64Char' (show b.toNat % 16 * 4 + c.toNat / 64 < 64 by omega)
    have v4 := b64Val_b64Char' (show c.toNat % 64 < 64 by omega)
    have p3 := b64Char_ne_pad (show b.toNat % 16 * 4 + c.toNat / 64 < 64 by omega)
    have p4 := b64Char_ne_pad (show c.toNat % 64 < 64 by omega)
    simp only [b64EncodeStd]
    by_cases hrest : rest = []
    · subst hrest
      simp only [b64EncodeStd, b64DecodeStdCore, p3, p4, v1, v2, v3, v4, e1, e2, e3]
      simp
    · obtain ⟨x, xs, hx⟩ := encodeStd_ne_nil_of rest hrest
      rw [hx] at ih ⊢
      simp only [b64DecodeStdCore, v1, v2, v3, v4, ih, e1, e2, e3]

/-- **binary_header_roundtrip** (unpadded, what `EncodeBinaryHeader` emits). -/
theorem binary_header_roundtrip (b : Bytes) :
    decodeBinaryHeader (encodeBinaryHeader b) = some b := by
  unfold decodeBinaryHeader encodeBinaryHeader
  rw [dropNewlines_encodeRaw]
  by_cases h : b.length % 3 = 0
  · have := (encodeRaw_length_mod b).mpr h
    simp only [this, ne_eq, not_true_eq_false, if_false]
    exact decodeStdCore_encodeRaw b h
  · have : ¬ (b64EncodeRaw b).length % 4 = 0 := fun hh => h ((encodeRaw_length_mod b).mp hh)
    simp only [ne_eq, this, not_false_eq_true, if_true]
    exact decodeRawCore_encodeRaw b

/-- **binary_header_roundtrip_padded**: padded input (what other peers may send) decodes too. -/
theorem binary_header_roundtrip_padded (b : Bytes) :
    decodeBinaryHeader (b64EncodeStd b) = some b := by
  unfold decodeBinaryHeader
  rw [dropNewlines_encodeStd]
  simp only [encodeStd_length_mod, ne_eq, not_true_eq_false, if_false]
  exact decodeStdCore_encodeStd b

/-! ## Code → HTTP status -/

theorem codeToHTTP_table_range :
    (∀ p ∈ Gen.codeToHTTP, 400 ≤ p.2 ∧ p.2 ≤ 599) ∧ 400 ≤ Gen.codeToHTTPDefault ∧ Gen.codeToHTTPDefault ≤ 599 := by
  decide

/-- **code_http_range**: every code (all of `Nat`, a fortiori all 2^32) maps to 4xx or 5xx. -/
theorem code_http_range (c : Nat) : 400 ≤ codeToHTTP c ∧ codeToHTTP c ≤ 599 := by
  unfold codeToHTTP
  cases h : lookupNat Gen.codeToHTTP c with
  | none => simp only [Option.getD_none]; exact codeToHTTP_table_range.2
  | some v =>
    simp only [Option.getD_some]
    exact codeToHTTP_table_range.1 (c, v) (lookupNat_mem _ _ _ h)

/-! ## Every write site uses the codec (facts regenerated from the source on every run) -/

/-- **grpc_message_sites_encoded**: every place in the package that writes the `Grpc-Message`
    key - `Set`, `Add` or an index assignment, in whatever function and on whatever path - passes
    a value produced by `grpcPercentEncode` (or the empty literal of the success case). With
    `percent_printable` / `percent_roundtrip` this is the property for *all* error paths at once,
    including those no generated input reaches (a detail that cannot be converted, a status
    that cannot be marshalled). The list is `Gen.grpcMessageWrites`, rebuilt by `tools/extract`
    from the syntax tree; a raw write makes this theorem fail to check. -/
theorem grpc_message_sites_encoded : ∀ w ∈ Gen.grpcMessageWrites, w.2 = 0 ∨ w.2 = 1 := by decide

/-- **grpc_details_sites_encoded**: … and every write of `Grpc-Status-Details-Bin` passes a value
    produced by `EncodeBinaryHeader` (`binary_header_roundtrip`). -/
theorem grpc_details_sites_encoded : ∀ w ∈ Gen.grpcDetailsWrites, w.2 = 0 := by decide

-- the lists are not empty (the extractor also refuses to run if it finds no write at all)
example : Gen.grpcMessageWrites.length = 4 ∧ Gen.grpcDetailsWrites.length = 1 := by decide

/-! ## Non-vacuity: concrete instances of the hypotheses / interesting values. -/

example : codeUnmarshalText (codeString 5) = some 5 := by decide
example : codeString 4294967295 = codePrefix ++ showDec 4294967295 := by
  unfold codeString; rfl
example : percentDecode (percentEncode [37, 0, 255, 65, 32]) = [37, 0, 255, 65, 32] := by decide
example : decodeBinaryHeader (encodeBinaryHeader [0, 255, 16]) = some [0, 255, 16] := by decide
example : decodeBinaryHeader (b64EncodeStd [7]) = some [7] := by decide

end ConnectModel.C18
