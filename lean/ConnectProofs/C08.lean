/-
  C08 — Compression is negotiated so both sides can decode, and is lossless.
  (Losslessness and the below-minimum rule are C01.unmarshal_marshal / C01.compress_flag_iff.)
-/
import ConnectModel.Negotiate
import ConnectProofs.C01

namespace ConnectModel.C08
open ConnectModel

/-! ### advertised names -/

theorem mem_dedup (l seen : List Bytes) (x : Bytes) :
    x ∈ dedupKeepFirst l seen ↔ x ∈ l ∧ x ∉ seen := by
  induction l generalizing seen with
  | nil => simp [dedupKeepFirst]
  | cons y ys ih =>
    simp only [dedupKeepFirst]
    by_cases hy : y ∈ seen
    · simp only [hy, if_true, ih, List.mem_cons]
      constructor
      · intro ⟨h1, h2⟩; exact ⟨Or.inr h1, h2⟩
      · intro ⟨h1, h2⟩
        rcases h1 with h1 | h1
        · subst h1; exact absurd hy h2
        · exact ⟨h1, h2⟩
    · simp only [hy, if_false, List.mem_cons, ih]
      constructor
      · intro h
        rcases h with h | ⟨h1, h2⟩
        · subst h; exact ⟨Or.inl rfl, hy⟩
        · exact ⟨Or.inr h1, fun hs => h2 (Or.inr hs)⟩
      · intro ⟨h1, h2⟩
        by_cases hxy : x = y
        · exact Or.inl hxy
        · rcases h1 with h1 | h1
          · exact absurd h1 hxy
          · exact Or.inr ⟨h1, fun hs => by rcases hs with hs | hs; exact hxy hs; exact h2 hs⟩

theorem dedup_nodup (l seen : List Bytes) : (dedupKeepFirst l seen).Nodup := by
  induction l generalizing seen with
  | nil => simp [dedupKeepFirst]
  | cons y ys ih =>
    simp only [dedupKeepFirst]
    by_cases hy : y ∈ seen
    · simp only [hy, if_true]; exact ih seen
    · simp only [hy, if_false, List.nodup_cons]
      refine ⟨?_, ih _⟩
      rw [mem_dedup]; simp

/-- **names_advertised**: the advertised list contains exactly the registered names, each once. -/
theorem names_advertised (reg : List Bytes) :
    (∀ x, x ∈ advertisedNames reg ↔ x ∈ reg) ∧ (advertisedNames reg).Nodup := by
  refine ⟨?_, dedup_nodup _ _⟩
  intro x; simp [advertisedNames, mem_dedup]

/-- **names_order**: the most recently registered algorithm is listed first. -/
theorem names_order (reg : List Bytes) (last : Bytes) :
    (advertisedNames (reg ++ [last])).head? = some last := by
  simp [advertisedNames, dedupKeepFirst]

/-! ### negotiation -/

/-- **negotiate_unknown**: a request compressed with an algorithm the handler lacks is rejected
    as unimplemented, and the error lists the supported algorithms. -/
theorem negotiate_unknown (reg : List Bytes) (sent accept : Bytes)
    (h1 : sent ≠ []) (h2 : sent ≠ Gen.compressionIdentity) (h3 : sent ∉ reg) :
    negotiate reg sent accept = .unimplemented (joinComma (advertisedNames reg)) := by
  simp [negotiate, h1, h2, poolsContain, h3]

/-- **negotiate_sound**: whatever is chosen for the response is identity or a registered
    algorithm that the client either used for its request or listed in its accept header — and in
    the latter case it is the *first* listed one the handler supports. -/
theorem negotiate_sound (reg : List Bytes) (sent accept req resp : Bytes)
    (h : negotiate reg sent accept = .ok req resp) :
    (resp = Gen.compressionIdentity ∨ resp ∈ reg) ∧
    (resp = req ∨
      (req = Gen.compressionIdentity ∧ resp ∈ acceptFields accept ∧
        ∃ before after, acceptFields accept = before ++ resp :: after ∧ ∀ n ∈ before, n ∉ reg)) ∧
    (req = Gen.compressionIdentity ∨ (req = sent ∧ sent ∈ reg)) := by
  unfold negotiate at h
  by_cases hs : sent ≠ [] ∧ sent ≠ Gen.compressionIdentity
  · rw [if_pos hs] at h
    by_cases hc : poolsContain reg sent = true
    · have hmem : sent ∈ reg := by simpa [poolsContain] using hc
      rw [if_pos hc] at h
      cases h
      exact ⟨Or.inr hmem, Or.inl rfl, Or.inr ⟨rfl, hmem⟩⟩
    · rw [if_neg hc] at h; cases h
  · rw [if_neg hs] at h
    by_cases ha : accept ≠ []
    · rw [if_pos ha] at h
      cases hf : (acceptFields accept).find? (poolsContain reg) with
      | none => rw [hf] at h; cases h; exact ⟨Or.inl rfl, Or.inl rfl, Or.inl rfl⟩
      | some name =>
        rw [hf] at h; cases h
        have hp := List.find?_some hf
        have hmem : resp ∈ reg := by simpa [poolsContain] using hp
        obtain ⟨_, before, after, hsplit, hbefore⟩ := List.find?_eq_some_iff_append.mp hf
        refine ⟨Or.inr hmem, Or.inr ⟨rfl, List.mem_of_find?_eq_some hf, before, after, hsplit, ?_⟩, Or.inl rfl⟩
        intro n hn
        have := hbefore n hn
        simpa [poolsContain] using this
    · rw [if_neg ha] at h
      cases h; exact ⟨Or.inl rfl, Or.inl rfl, Or.inl rfl⟩

/-- **negotiate_prefers_first**: for an uncompressed request the first accept entry the handler
    supports wins. -/
theorem negotiate_prefers_first (reg : List Bytes) (accept : Bytes) (before after : List Bytes) (name : Bytes)
    (hacc : accept ≠ []) (hsplit : acceptFields accept = before ++ name :: after)
    (hbefore : ∀ n ∈ before, n ∉ reg) (hname : name ∈ reg) :
    negotiate reg [] accept = .ok Gen.compressionIdentity name := by
  have hf : (acceptFields accept).find? (poolsContain reg) = some name := by
    rw [hsplit, List.find?_append]
    have : before.find? (poolsContain reg) = none := by
      rw [List.find?_eq_none]; intro n hn; simpa [poolsContain] using hbefore n hn
    simp [this, poolsContain, hname]
  simp [negotiate, hacc, hf]

/-- a compressed request fixes the response algorithm (gRPC's asymmetric-compression rule) -/
theorem negotiate_compressed_request (reg : List Bytes) (sent accept : Bytes)
    (h1 : sent ≠ []) (h2 : sent ≠ Gen.compressionIdentity) (h3 : sent ∈ reg) :
    negotiate reg sent accept = .ok sent sent := by
  simp [negotiate, h1, h2, poolsContain, h3]

/-- **encoding_header_names_choice**: streaming Connect and gRPC(-Web) name the chosen algorithm
    in their encoding header exactly when it is not identity. -/
theorem encoding_header_names_choice (p : Proto) (kind : StreamKind) (resp : Bytes)
    (hk : p ≠ .connect ∨ kind ≠ .unary) :
    (handlerEncodingHeaderAtSetup p kind resp).map (·.2) =
      if resp = Gen.compressionIdentity then none else some resp := by
  unfold handlerEncodingHeaderAtSetup
  by_cases hr : resp = Gen.compressionIdentity
  · simp [hr]
  · cases p <;> simp [hr] <;> (rcases hk with hk | hk <;> simp_all)

/-! non-vacuity -/
example : negotiate [Gen.compressionGzip, [122, 122]] [] [122, 122, 44, 103, 122, 105, 112] = .ok Gen.compressionIdentity [122, 122] := by decide
example : advertisedNames [Gen.compressionGzip, [98, 114], Gen.compressionGzip] = [Gen.compressionGzip, [98, 114]] := by decide

/-! ### algorithms registered with nil constructors (fix F22) -/

/-- **nil_constructors_not_registered**: `WithCompression` / `WithAcceptCompression` with a nil
    constructor (or an empty name) leaves the set of supported algorithms as it was: the name is
    neither advertised nor negotiated — and a request that uses it
    is refused as unimplemented like any other unknown name (`negotiate_unknown`). -/
theorem nil_constructors_not_registered (reg : List Bytes) (name : Bytes) (d c : Bool)
    (h : name = [] ∨ d = false ∨ c = false) : registerCompression reg name d c = reg := by
  rcases h with h | h | h <;> simp [registerCompression, h]

theorem real_constructors_registered (reg : List Bytes) (name : Bytes) (h : name ≠ []) :
    registerCompression reg name true true = reg ++ [name] := by
  simp [registerCompression, h]

/-- **History, F22**: the pool was never nil, so the name was registered all the same — and the
    first message that used it ran into `sync.Pool.New` with a nil constructor -/
theorem nil_constructors_registered_on_pinned (reg : List Bytes) (name : Bytes) (h : name ≠ []) :
    registerCompressionPinned reg name false false = reg ++ [name] := by
  simp [registerCompressionPinned, h]

/-- **empty_message_is_zero_value** (round 13): a message frame of length zero - with or without
    the compressed flag, with or without a compression pool, under any read limit - is the zero
    value for *every* codec: neither the decompressor nor the codec is asked (a codec such as JSON
    has no value that encodes as zero bytes, and a gzip stream of zero bytes is not a gzip stream). -/
theorem empty_message_is_zero_value {Val : Type} (cfg : ReaderCfg Val) (fl : UInt8) (g : Nat)
    (h : fl.toNat = 0 ∨ fl.toNat = Gen.flagCompressed) :
    (unmarshalFrame cfg { outcome := .frame fl [], grown := g }).outcome = .msg none := by
  simp [unmarshalFrame, h]

/-- ... so flagged and unflagged empty messages are indistinguishable to the application -/
theorem empty_message_flag_irrelevant {Val : Type} (cfg cfg' : ReaderCfg Val) (g : Nat) :
    (unmarshalFrame cfg { outcome := .frame 0 [], grown := g }).outcome =
      (unmarshalFrame cfg' { outcome := .frame (UInt8.ofNat Gen.flagCompressed) [], grown := g }).outcome := by
  rw [empty_message_is_zero_value cfg 0 g (Or.inl rfl),
    empty_message_is_zero_value cfg' _ g (Or.inr (by decide))]

end ConnectModel.C08
