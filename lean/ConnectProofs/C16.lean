/-
  C16 — Interceptors nest in declaration order however options are grouped.
-/
import ConnectModel.Options

namespace ConnectModel.C16
open ConnectModel

/-! ### the order (outermost first) in which a runtime interceptor value wraps -/

mutual
def order : Icpt → List IcptId
  | .atom i => [i]
  | .chain ms => orderRev ms
/-- members are applied first-to-last, so the *last* member is outermost -/
def orderRev : List Icpt → List IcptId
  | [] => []
  | m :: ms => orderRev ms ++ order m
end

def orderCfg : Option Icpt → List IcptId
  | none => []
  | some i => order i

mutual
theorem wrap_eq {F : Type} (w : IcptId → F → F) : ∀ (i : Icpt) (next : F),
    i.wrap w next = (order i).foldr w next
  | .atom i, next => by simp [Icpt.wrap, order]
  | .chain ms, next => by simp [Icpt.wrap, order, wrapList_eq w ms next]
theorem wrapList_eq {F : Type} (w : IcptId → F → F) : ∀ (ms : List Icpt) (next : F),
    Icpt.wrapList w ms next = (orderRev ms).foldr w next
  | [], next => by simp [Icpt.wrapList, orderRev]
  | m :: ms, next => by
    simp [Icpt.wrapList, orderRev, wrapList_eq w ms, wrap_eq w m, List.foldr_append]
end

theorem wrapConfig_eq {F : Type} (w : IcptId → F → F) (cfg : Option Icpt) (next : F) :
    wrapConfig w cfg next = (orderCfg cfg).foldr w next := by
  cases cfg with
  | none => rfl
  | some i => exact wrap_eq w i next

theorem orderRev_append (a b : List Icpt) : orderRev (a ++ b) = orderRev b ++ orderRev a := by
  induction a with
  | nil => simp [orderRev]
  | cons x xs ih => simp [orderRev, ih, List.append_assoc]

theorem orderRev_reverse_atoms (o : List (Option IcptId)) :
    orderRev ((o.map (·.map Icpt.atom)).reverse.filterMap id) = o.filterMap id := by
  induction o with
  | nil => simp [orderRev]
  | cons x xs ih =>
    simp only [List.map_cons, List.reverse_cons, List.filterMap_append, orderRev_append, ih]
    cases x with
    | none => simp [orderRev]
    | some i => simp [orderRev, order]

theorem order_newChain_none (o : List (Option IcptId)) :
    order (newChain (o.map (·.map Icpt.atom))) = o.filterMap id := by
  simp only [newChain, order]
  exact orderRev_reverse_atoms o

theorem order_newChain_some (c : Icpt) (o : List (Option IcptId)) :
    order (newChain (some c :: o.map (·.map Icpt.atom))) = order c ++ o.filterMap id := by
  simp only [newChain, order, List.reverse_cons, List.filterMap_append, orderRev_append]
  rw [orderRev_reverse_atoms]
  simp [orderRev]

theorem chainWith_order (o : List (Option IcptId)) (cur : Option Icpt) :
    orderCfg (chainWith o cur) = orderCfg cur ++ o.filterMap id := by
  unfold chainWith
  split
  · simp
  · rename_i x
    cases x <;> simp [orderCfg, order]
  · simp only [orderCfg, List.nil_append]
    exact order_newChain_none _
  · simp only [orderCfg]
    exact order_newChain_some _ _

mutual
theorem applyOpt_order : ∀ (o : Opt) (cur : Option Icpt),
    orderCfg (applyOpt o cur) = orderCfg cur ++ o.flatten
  | .interceptors is, cur => by simp [applyOpt, Opt.flatten, chainWith_order]
  | .group os, cur => by simp [applyOpt, Opt.flatten, applyOpts_order os cur]
  | .other, cur => by simp [applyOpt, Opt.flatten]
theorem applyOpts_order : ∀ (os : List Opt) (cur : Option Icpt),
    orderCfg (applyOpts os cur) = orderCfg cur ++ Opt.flattenList os
  | [], cur => by simp [applyOpts, Opt.flattenList]
  | o :: os, cur => by
    simp [applyOpts, Opt.flattenList, applyOpts_order os, applyOpt_order o cur, List.append_assoc]
end

/-- **chain_flat**: for every option tree (any grouping, any nesting depth, nil entries anywhere)
    the function the library ends up calling is the declared interceptors wrapped in flat
    declaration order — the first declared is outermost — for any function space `F`
    (unary functions, streaming-client constructors, streaming handlers) and any per-interceptor
    wrapper `w`. -/
theorem chain_flat {F : Type} (w : IcptId → F → F) (opts : List Opt) (next : F) :
    wrapConfig w (applyOpts opts none) next = (Opt.flattenList opts).foldr w next := by
  rw [wrapConfig_eq, applyOpts_order]
  simp [orderCfg]

/-- **grouping_irrelevant**: two option trees declaring the same interceptors in the same order
    behave identically. -/
theorem grouping_irrelevant {F : Type} (w : IcptId → F → F) (a b : List Opt) (next : F)
    (h : Opt.flattenList a = Opt.flattenList b) :
    wrapConfig w (applyOpts a none) next = wrapConfig w (applyOpts b none) next := by
  rw [chain_flat, chain_flat, h]

/-- **each_once**: every interceptor wraps each call exactly as often as it was declared. -/
theorem each_once (opts : List Opt) (i : IcptId) :
    (effectiveOrder opts).count i = (Opt.flattenList opts).count i := by
  unfold effectiveOrder
  rw [chain_flat]
  congr 1
  induction Opt.flattenList opts with
  | nil => rfl
  | cons x xs ih => simp [ih]

/-- the model's effective order *is* the declaration order -/
theorem effectiveOrder_eq (opts : List Opt) : effectiveOrder opts = Opt.flattenList opts := by
  unfold effectiveOrder
  rw [chain_flat]
  induction Opt.flattenList opts with
  | nil => rfl
  | cons x xs ih => simp [ih]

/-- **nil_only_is_none**: declarations consisting only of nil entries wrap nothing. -/
theorem nil_only_is_none {F : Type} (w : IcptId → F → F) (opts : List Opt) (next : F)
    (h : Opt.flattenList opts = []) : wrapConfig w (applyOpts opts none) next = next := by
  rw [chain_flat, h]; rfl

/-! non-vacuity: a nested, grouped declaration with nils -/
example : effectiveOrder [.interceptors [some 1, none], .group [.other, .interceptors [some 2], .group [.interceptors [none, some 3, some 1]]], .interceptors []]
    = [1, 2, 3, 1] := by
  rw [effectiveOrder_eq]; rfl

end ConnectModel.C16
