/-
  C11 — Headers and trailers set by one side are observed by the other.
  Handler side: where `serve*` puts the handler's headers and trailers. Client side: what the
  `client*` functions expose. Keys are canonical, pairwise distinct per map (Go maps), and
  outside the protocol-reserved names.
-/
import ConnectModel.Proto
import ConnectProofs.Lemmas.Header
import ConnectProofs.C02
import ConnectProofs.C05
import ConnectProofs.C18

namespace ConnectModel.C11
open ConnectModel

/-- copying a map into a fresh one (`mergeHeaders(make(http.Header), h)`, `Clone`) keeps every
    key's values -/
theorem vals_copy (h : Header) (hw : h.wf) (k : Bytes) : (mergeHeaders [] h).vals k = h.vals k := by
  rw [vals_mergeHeaders _ _ hw]; simp [Header.vals]

/-! ### gRPC and gRPC-Web -/

/-- response headers: what the handler set is what goes out under each non-reserved key -/
theorem grpc_headers_sent (enc : WireErr → Bytes) (c : HConn) (p : HProg) (hw : p.header.wf) (k : Bytes)
    (hk : k ≠ Gen.hdrContentType ∧ k ≠ Gen.hdrGrpcAcceptEncoding ∧ k ≠ Gen.hdrGrpcEncoding) :
    (serveGrpc enc false c p).header.vals k = p.header.vals k := by
  simp only [serveGrpc, Bool.false_eq_true, if_false]
  rw [vals_mergeHeaders _ _ hw]
  split <;> simp [Header.vals, hk.1, hk.2.1, hk.2.2]

/-- response trailers (success): the handler's trailers go out as HTTP trailers, values and
    per-key order unchanged -/
theorem grpc_trailers_sent (enc : WireErr → Bytes) (c : HConn) (p : HProg) (hw : p.trailer.wf) (k : Bytes)
    (hr : p.result = none)
    (hk : k ≠ Gen.hdrGrpcStatus ∧ k ≠ Gen.hdrGrpcMessage ∧ k ≠ Gen.hdrGrpcDetails) :
    (serveGrpc enc false c p).trailer.vals k = p.trailer.vals k := by
  simp only [serveGrpc, Bool.false_eq_true, if_false, grpcTrailers, hr]
  rw [Header.vals_set_ne _ _ _ _ hk.2.1, Header.vals_set_ne _ _ _ _ hk.1, vals_copy _ hw]

/-- on failure the trailers carry the handler's trailers followed by the error's metadata -/
theorem grpc_trailers_sent_failure (enc : WireErr → Bytes) (c : HConn) (p : HProg) (e : CErr)
    (hw : p.trailer.wf) (hm : e.md.wf) (k : Bytes) (hr : p.result = some (.coded e))
    (hk : k ≠ Gen.hdrGrpcStatus ∧ k ≠ Gen.hdrGrpcMessage ∧ k ≠ Gen.hdrGrpcDetails) :
    (serveGrpc enc false c p).trailer.vals k = p.trailer.vals k ++ e.md.vals k := by
  simp only [serveGrpc, Bool.false_eq_true, if_false, hr]
  exact C02.grpc_metadata_preserved enc p.trailer e hw hm k hk

/-- values that survive an HTTP/1 header block unchanged: no CR/LF, no blank at either end -/
def CleanValue (v : Bytes) : Prop :=
  (∀ c ∈ v, c.toNat ≠ 10 ∧ c.toNat ≠ 13) ∧
  (∀ c, v.head? = some c → isOWS c = false) ∧ (∀ c, v.getLast? = some c → isOWS c = false)

theorem dropWhile_head_false (l : Bytes) (h : ∀ c, l.head? = some c → isOWS c = false) : l.dropWhile isOWS = l := by
  cases l with
  | nil => rfl
  | cons c cs => simp [List.dropWhile, h c rfl]

/-- **web_trailer_block_roundtrip** (value level): a clean value is unchanged by the gRPC-Web
    trailer block (http.Header.Write + textproto parsing) -/
theorem sanitize_clean (v : Bytes) (h : CleanValue v) : sanitizeValue v = v := by
  obtain ⟨h1, h2, h3⟩ := h
  have hmap : v.map (fun c => if c.toNat = 10 || c.toNat = 13 then (32 : UInt8) else c) = v := by
    have : ∀ c ∈ v, (fun c : UInt8 => if c.toNat = 10 || c.toNat = 13 then (32 : UInt8) else c) c = c := by
      intro c hc; have := h1 c hc; simp [this.1, this.2]
    rw [List.map_congr_left this]; simp
  simp only [sanitizeValue, hmap]
  rw [dropWhile_head_false v h2]
  have : v.reverse.dropWhile isOWS = v.reverse := by
    apply dropWhile_head_false
    intro c hc
    rw [List.head?_reverse] at hc
    exact h3 c hc
  rw [this, List.reverse_reverse]

/-! ### Connect streaming: trailers travel in the end-of-stream message -/

/-- keys already in canonical form are left alone -/
theorem canonicalize_canonical (h : Header) (hc : ∀ p ∈ h, canonicalKey p.1 = p.1) :
    canonicalizeKeys h = mergeHeaders [] h := by
  unfold canonicalizeKeys mergeHeaders
  have : ∀ (l : Header) (acc : Header), (∀ p ∈ l, canonicalKey p.1 = p.1) →
      l.foldl (fun acc p => acc.put (canonicalKey p.1) (acc.vals (canonicalKey p.1) ++ p.2)) acc =
      l.foldl (fun acc p => acc.put p.1 (acc.vals p.1 ++ p.2)) acc := by
    intro l
    induction l with
    | nil => intros; rfl
    | cons p rest ih =>
      intro acc hl
      simp only [List.foldl_cons, hl p (by simp)]
      exact ih _ (fun q hq => hl q (List.mem_cons_of_mem _ hq))
  exact this h [] hc

/-- **connect_stream_trailers_roundtrip**: on success the client's trailers are the handler's
    trailers — values and per-key order unchanged. -/
theorem connect_stream_trailers_roundtrip (c : HConn) (cfg : CCfg) (p : HProg)
    (hproto : cfg.proto = .connect) (hmax : cfg.max = 0) (hpool : c.pool = none) (hr : p.result = none)
    (hT : p.trailer.wf) (hTc : ∀ q ∈ p.trailer, canonicalKey q.1 = q.1)
    (henc : (serveConnectStream c p).header.get Gen.hdrConnectStreamEncoding = []) (k : Bytes) :
    (clientConnectStream cfg (serveConnectStream c p)).result = none ∧
    (clientConnectStream cfg (serveConnectStream c p)).msgs = p.sends ∧
    (clientConnectStream cfg (serveConnectStream c p)).trailer.vals k = p.trailer.vals k := by
  have hstatus : (serveConnectStream c p).status = 200 := rfl
  have hbody : (serveConnectStream c p).body = p.sends.map (BodyItem.frame 0) ++ [.endStream none p.trailer] := by
    simp only [serveConnectStream, hr]
    congr 1
    apply List.map_congr_left
    intro m _
    simp [msgFrame, hpool]
  have hk : encodingKnown cfg [] = true := by simp [encodingKnown]
  simp only [clientConnectStream, hstatus, ne_eq, not_true_eq_false, if_false, henc, hk, Bool.not_true, Bool.false_eq_true,
    hbody, C02.recvItems_plain cfg _ hmax, recvItems, hproto, if_true, List.append_nil]
  refine ⟨trivial, trivial, ?_⟩
  rw [canonicalize_canonical _ hTc]
  have hw2 : (mergeHeaders [] p.trailer).wf := mergeHeaders_wf _ _ Header.nil_wf
  rw [vals_copy _ hw2, vals_copy _ hT]

/-- response headers of a Connect stream: the handler's values under each non-reserved key -/
theorem connect_stream_headers_sent (c : HConn) (p : HProg) (hw : p.header.wf) (k : Bytes)
    (hk : k ≠ Gen.hdrContentType ∧ k ≠ Gen.hdrConnectStreamEncoding ∧ k ≠ Gen.hdrConnectStreamAcceptEncoding) :
    (serveConnectStream c p).header.vals k = p.header.vals k := by
  simp only [serveConnectStream]
  rw [vals_mergeHeaders _ _ hw]
  split <;> simp [Header.vals, hk.1, hk.2.1, hk.2.2]

/-! ### binary values -/

/-- **binary_header_roundtrip**: `-Bin` values round-trip every byte string, padded or not -/
theorem binary_header_roundtrip (b : Bytes) :
    decodeBinaryHeader (encodeBinaryHeader b) = some b ∧ decodeBinaryHeader (b64EncodeStd b) = some b :=
  ⟨C18.binary_header_roundtrip b, C18.binary_header_roundtrip_padded b⟩

/-! non-vacuity -/
example : CleanValue [97, 32, 98] := by
  refine ⟨by decide, ?_, ?_⟩ <;> intro c h <;> simp at h <;> subst h <;> decide
example : canonicalKey [88, 45, 84, 114, 97, 99, 101] = [88, 45, 84, 114, 97, 99, 101] := by decide

end ConnectModel.C11
