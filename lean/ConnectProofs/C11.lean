/-
  C11 — Headers and trailers set by one side are observed by the other.
  Handler side: where `serve*` puts the handler's headers and trailers. Client side: what the
  `client*` functions expose. Keys are canonical, pairwise distinct per map (Go maps), and
  outside the protocol-reserved names.
-/
import ConnectModel.Proto
import ConnectProofs.Lemmas.Header
import ConnectProofs.Lemmas.Sanitize
import ConnectProofs.Lemmas.TrailerPrefix
import ConnectProofs.C02
import ConnectProofs.C05
import ConnectProofs.C18

namespace ConnectModel.C11
open ConnectModel

/-- copying a map into a fresh one (`mergeHeaders(make(http.Header), h)`, `Clone`) keeps every
    key's values -/
theorem vals_copy (h : Header) (hw : h.wf) (k : Bytes) : (mergeHeaders [] h).vals k = h.vals k := by
  rw [vals_mergeHeaders _ _ hw]; simp [Header.vals]

/-! ### gRPC and gRPC-Web -/

/-- response headers: what the handler set is what goes out under each non-reserved key -/
theorem grpc_headers_sent (enc : WireErr → Bytes) (c : HConn) (p : HProg) (hw : p.header.wf) (k : Bytes)
    (hk : k ≠ Gen.hdrContentType ∧ k ≠ Gen.hdrGrpcAcceptEncoding ∧ k ≠ Gen.hdrGrpcEncoding) :
    (serveGrpc enc false c p).header.vals k = p.header.vals k := by
  simp only [serveGrpc, Bool.false_eq_true, if_false]
  rw [vals_mergeHeaders _ _ hw]
  split <;> simp [Header.vals, hk.1, hk.2.1, hk.2.2]

/-- response trailers (success): the handler's trailers go out as HTTP trailers, values and
    per-key order unchanged -/
theorem grpc_trailers_sent (enc : WireErr → Bytes) (c : HConn) (p : HProg) (hw : p.trailer.wf) (k : Bytes)
    (hr : p.result = none)
    (hk : k ≠ Gen.hdrGrpcStatus ∧ k ≠ Gen.hdrGrpcMessage ∧ k ≠ Gen.hdrGrpcDetails) :
    (serveGrpc enc false c p).trailer.vals k = p.trailer.vals k := by
  simp only [serveGrpc, Bool.false_eq_true, if_false, grpcTrailers, hr]
  rw [Header.vals_set_ne _ _ _ _ hk.2.1, Header.vals_set_ne _ _ _ _ hk.1, vals_copy _ hw]

/-- on failure the trailers carry the handler's trailers followed by the error's metadata -/
theorem grpc_trailers_sent_failure (enc : WireErr → Bytes) (c : HConn) (p : HProg) (e : CErr)
    (hw : p.trailer.wf) (hm : e.md.wf) (k : Bytes) (hr : p.result = some (.coded e))
    (hk : k ≠ Gen.hdrGrpcStatus ∧ k ≠ Gen.hdrGrpcMessage ∧ k ≠ Gen.hdrGrpcDetails) :
    (serveGrpc enc false c p).trailer.vals k = p.trailer.vals k ++ e.md.vals k := by
  simp only [serveGrpc, Bool.false_eq_true, if_false, hr]
  exact C02.grpc_metadata_preserved enc p.trailer e hw hm k hk

/-- values that survive an HTTP/1 header block unchanged: no CR/LF, no blank at either end -/
abbrev CleanValue (v : Bytes) : Prop := ConnectModel.CleanValue v

/-- **web_trailer_block_roundtrip** (value level): a clean value is unchanged by the gRPC-Web
    trailer block (http.Header.Write + textproto parsing) -/
theorem sanitize_clean (v : Bytes) (h : CleanValue v) : sanitizeValue v = v := sanitize_clean_core v h

/-! ### Connect streaming: trailers travel in the end-of-stream message -/

/-- keys already in canonical form are left alone -/
theorem canonicalize_canonical (h : Header) (hc : ∀ p ∈ h, canonicalKey p.1 = p.1) :
    canonicalizeKeys h = mergeHeaders [] h := by
  unfold canonicalizeKeys mergeHeaders
  have : ∀ (l : Header) (acc : Header), (∀ p ∈ l, canonicalKey p.1 = p.1) →
      l.foldl (fun acc p => acc.put (canonicalKey p.1) (acc.vals (canonicalKey p.1) ++ p.2)) acc =
      l.foldl (fun acc p => acc.put p.1 (acc.vals p.1 ++ p.2)) acc := by
    intro l
    induction l with
    | nil => intros; rfl
    | cons p rest ih =>
      intro acc hl
      simp only [List.foldl_cons, hl p (by simp)]
      exact ih _ (fun q hq => hl q (List.mem_cons_of_mem _ hq))
  exact this h [] hc

/-- **connect_stream_trailers_roundtrip**: on success the client's trailers are the handler's
    trailers — values and per-key order unchanged. -/
theorem connect_stream_trailers_roundtrip (c : HConn) (cfg : CCfg) (p : HProg)
    (hproto : cfg.proto = .connect) (hmax : cfg.max = 0) (hpool : c.pool = none) (hr : p.result = none)
    (hT : p.trailer.wf) (hTc : ∀ q ∈ p.trailer, canonicalKey q.1 = q.1)
    (henc : (serveConnectStream c p).header.get Gen.hdrConnectStreamEncoding = []) (k : Bytes) :
    (clientConnectStream cfg (serveConnectStream c p)).result = none ∧
    (clientConnectStream cfg (serveConnectStream c p)).msgs = p.sends ∧
    (clientConnectStream cfg (serveConnectStream c p)).trailer.vals k = p.trailer.vals k := by
  have hstatus : (serveConnectStream c p).status = 200 := rfl
  have hbody : (serveConnectStream c p).body = p.sends.map (BodyItem.frame 0) ++ [.endStream none p.trailer] := by
    simp only [serveConnectStream, hr]
    congr 1
    apply List.map_congr_left
    intro m _
    simp [msgFrame, hpool]
  have hk : encodingKnown cfg [] = true := by simp [encodingKnown]
  simp only [clientConnectStream, hstatus, ne_eq, not_true_eq_false, if_false, henc, hk, Bool.not_true, Bool.false_eq_true,
    hbody, C02.recvItems_plain cfg _ hmax, recvItems, hproto, if_true, List.append_nil]
  refine ⟨trivial, trivial, ?_⟩
  rw [canonicalize_canonical _ hTc]
  have hw2 : (mergeHeaders [] p.trailer).wf := mergeHeaders_wf _ _ Header.nil_wf
  rw [vals_copy _ hw2, vals_copy _ hT]

/-- keys of a merge come from one of the two maps -/
theorem keys_mergeHeaders (a b : Header) (x : Bytes) (h : x ∈ (mergeHeaders a b).map (·.1)) :
    x ∈ a.map (·.1) ∨ x ∈ b.map (·.1) := by
  induction b generalizing a with
  | nil => exact Or.inl (by simpa [mergeHeaders] using h)
  | cons p rest ih =>
    simp only [mergeHeaders, List.foldl_cons] at h
    rcases ih _ h with h1 | h1
    · rw [Header.keys_put] at h1
      rcases h1 with h1 | h1
      · exact Or.inr (by simp [h1])
      · exact Or.inl h1
    · exact Or.inr (by simp [h1])

/-- **connect_stream_error_metadata**: a streaming Connect handler that sets trailers and then
    fails with an error carrying metadata: under every key the client's error shows the response
    headers' values, then the handler's trailer values, then the error's own - all of them, in
    order, also when trailers and error use the *same* key (nothing overwrites anything). -/
theorem connect_stream_error_metadata (c : HConn) (cfg : CCfg) (p : HProg) (e : CErr)
    (hproto : cfg.proto = .connect) (hmax : cfg.max = 0) (hpool : c.pool = none)
    (hr : p.result = some (.coded e)) (h0 : e.code ≠ 0)
    (hT : p.trailer.wf) (hM : e.md.wf)
    (hTc : ∀ q ∈ p.trailer, canonicalKey q.1 = q.1) (hMc : ∀ q ∈ e.md, canonicalKey q.1 = q.1)
    (henc : (serveConnectStream c p).header.get Gen.hdrConnectStreamEncoding = []) (k : Bytes) :
    ∃ r, (clientConnectStream cfg (serveConnectStream c p)).result = some r ∧ r.code = e.code ∧
      r.md.vals k = (serveConnectStream c p).header.vals k ++ (p.trailer.vals k ++ e.md.vals k) := by
  have hstatus : (serveConnectStream c p).status = 200 := rfl
  have hbody : (serveConnectStream c p).body =
      p.sends.map (BodyItem.frame 0) ++ [.endStream (some { code := e.code, msg := e.msg, details := e.details })
        (mergeHeaders p.trailer e.md)] := by
    simp only [serveConnectStream, hr, toWire, wireOf]
    congr 1
    apply List.map_congr_left
    intro m _
    simp [msgFrame, hpool]
  have hk : encodingKnown cfg [] = true := by simp [encodingKnown]
  simp only [clientConnectStream, hstatus, ne_eq, not_true_eq_false, if_false, henc, hk, Bool.not_true, Bool.false_eq_true,
    hbody, C02.recvItems_plain cfg _ hmax, recvItems, hproto, if_true, List.append_nil, fixCode, h0]
  refine ⟨_, rfl, rfl, ?_⟩
  have hmw : (mergeHeaders p.trailer e.md).wf := mergeHeaders_wf _ _ hT
  have hmc : ∀ q ∈ mergeHeaders p.trailer e.md, canonicalKey q.1 = q.1 := by
    intro q hq
    have hx : q.1 ∈ (mergeHeaders p.trailer e.md).map (·.1) := List.mem_map_of_mem hq
    rcases keys_mergeHeaders _ _ _ hx with h1 | h1
    · obtain ⟨q', hq', he⟩ := List.mem_map.mp h1
      rw [← he]; exact hTc q' hq'
    · obtain ⟨q', hq', he⟩ := List.mem_map.mp h1
      rw [← he]; exact hMc q' hq'
  rw [canonicalize_canonical _ hmc]
  have hw1 : (mergeHeaders [] (mergeHeaders p.trailer e.md)).wf := mergeHeaders_wf _ _ Header.nil_wf
  have hw2 : (mergeHeaders [] (mergeHeaders [] (mergeHeaders p.trailer e.md))).wf := mergeHeaders_wf _ _ Header.nil_wf
  have hwh : (mergeHeaders [] (serveConnectStream c p).header).wf := mergeHeaders_wf _ _ Header.nil_wf
  rw [vals_mergeHeaders _ _ hw2, vals_copy _ hwh, vals_copy _ hw1, vals_copy _ hmw, vals_mergeHeaders _ _ hM]
  congr 1
  have hhw : (serveConnectStream c p).header.wf := by
    show (mergeHeaders _ p.header).wf
    apply mergeHeaders_wf
    by_cases hc : c.respCompression = Gen.compressionIdentity
    · simp only [hc, if_true, Header.wf, List.append_nil, List.cons_append, List.nil_append, List.map_cons, List.map_nil]; decide
    · simp only [hc, if_false, Header.wf, List.cons_append, List.nil_append, List.map_cons, List.map_nil]; decide
  exact vals_copy _ hhw k

/-- response headers of a Connect stream: the handler's values under each non-reserved key -/
theorem connect_stream_headers_sent (c : HConn) (p : HProg) (hw : p.header.wf) (k : Bytes)
    (hk : k ≠ Gen.hdrContentType ∧ k ≠ Gen.hdrConnectStreamEncoding ∧ k ≠ Gen.hdrConnectStreamAcceptEncoding) :
    (serveConnectStream c p).header.vals k = p.header.vals k := by
  simp only [serveConnectStream]
  rw [vals_mergeHeaders _ _ hw]
  split <;> simp [Header.vals, hk.1, hk.2.1, hk.2.2]

/-! ### binary values -/

/-- **binary_header_roundtrip**: `-Bin` values round-trip every byte string, padded or not -/
theorem binary_header_roundtrip (b : Bytes) :
    decodeBinaryHeader (encodeBinaryHeader b) = some b ∧ decodeBinaryHeader (b64EncodeStd b) = some b :=
  ⟨C18.binary_header_roundtrip b, C18.binary_header_roundtrip_padded b⟩

/-! ### response trailers and repeated `Receive` (fix F24) -/

/-- `setHeaders` stores, per key of `from`, exactly `from`'s values; other keys are untouched -/
theorem vals_setHeaders (a b : Header) (hb : b.wf) (k : Bytes) :
    (setHeaders a b).vals k = if k ∈ b.map (·.1) then b.vals k else a.vals k := by
  induction b generalizing a with
  | nil => simp [setHeaders, Header.vals]
  | cons p rest ih =>
    obtain ⟨k₁, v₁⟩ := p
    simp only [Header.wf, List.map_cons, List.nodup_cons] at hb
    simp only [setHeaders, List.foldl_cons]
    have := ih (a.put k₁ v₁) hb.2
    simp only [setHeaders] at this
    rw [this]
    by_cases hk : k = k₁
    · subst hk
      have hnot : k ∉ rest.map (·.1) := hb.1
      simp [hnot, Header.vals, Header.vals_put]
    · by_cases hin : k ∈ rest.map (·.1)
      · simp [hin, hk, Header.vals]
      · simp [hin, hk, Header.vals, Header.vals_put]

/-- **trailers_stable_under_repeated_receive**: however often a failing `Receive` re-reads the
    trailer block `t` of a finished stream, the client's view of every key is what it was after
    the first time — the handler's values, each once. -/
theorem trailers_stable_under_repeated_receive (view t : Header) (ht : t.wf) (n : Nat) (k : Bytes) :
    (Nat.repeat (fun v => setHeaders v t) (n + 1) view).vals k = (setHeaders view t).vals k := by
  induction n with
  | zero => rfl
  | succ m ih =>
    show (setHeaders (Nat.repeat (fun v => setHeaders v t) (m + 1) view) t).vals k = _
    rw [vals_setHeaders _ _ ht, vals_setHeaders _ _ ht, ih, vals_setHeaders _ _ ht]
    by_cases hin : k ∈ t.map (·.1) <;> simp [hin]

/-- **History, F24**: with `mergeHeaders` a second failing `Receive` doubled every value -/
theorem trailers_doubled_on_pinned :
    (mergeHeaders (mergeHeaders [] [([88], [[116]])]) [([88], [[116]])]).vals [88] = [[116], [116]] := by decide

/-! ### unary Connect: trailers travel as `Trailer-`-prefixed headers -/

/-- in every branch the unary Connect client exposes the split of the response headers -/
theorem clientConnectUnary_views (cfg : CCfg) (st : Bytes) (r : Resp) :
    (clientConnectUnary cfg st r).header = (splitTrailerPrefixed r.header).1 ∧
    (clientConnectUnary cfg st r).trailer = (splitTrailerPrefixed r.header).2 := by
  simp only [clientConnectUnary]
  split
  · split <;> exact ⟨rfl, rfl⟩
  · split
    · split
      · exact ⟨rfl, rfl⟩
      · split <;> exact ⟨rfl, rfl⟩
      · exact ⟨rfl, rfl⟩
    · split
      · split
        · exact ⟨rfl, rfl⟩
        · split
          · split
            · exact ⟨rfl, rfl⟩
            · split <;> exact ⟨rfl, rfl⟩
          · exact ⟨rfl, rfl⟩
      · exact ⟨rfl, rfl⟩
      · exact ⟨rfl, rfl⟩

theorem reserved_no_prefix :
    hasPrefix Gen.connectUnaryTrailerPrefix Gen.hdrContentType = false ∧
    hasPrefix Gen.connectUnaryTrailerPrefix Gen.hdrConnectUnaryAcceptEncoding = false ∧
    hasPrefix Gen.connectUnaryTrailerPrefix Gen.hdrConnectUnaryEncoding = false ∧
    Gen.hdrContentType ≠ Gen.hdrConnectUnaryAcceptEncoding := by decide

/-- the header map of a successful unary Connect response -/
def unaryBase (c : HConn) (p : HProg) : Header :=
  addTrailerPrefixed (mergeHeaders [(Gen.hdrContentType, [c.contentType]), (Gen.hdrConnectUnaryAcceptEncoding, [c.names])] p.header) p.trailer

theorem serve_unary_header (c : HConn) (p : HProg) (hr : p.result = none) :
    (serveConnectUnary c p).header = unaryBase c p ∨
    (serveConnectUnary c p).header = (unaryBase c p).set Gen.hdrConnectUnaryEncoding c.respCompression := by
  simp only [serveConnectUnary, hr, unaryBase]
  split
  · split
    · exact Or.inl rfl
    · split
      · exact Or.inl rfl
      · exact Or.inr rfl
  · exact Or.inl rfl

theorem unaryBase_wf (c : HConn) (p : HProg) : (unaryBase c p).wf := by
  apply addTrailerPrefixed_wf
  apply mergeHeaders_wf
  simp [Header.wf, reserved_no_prefix.2.2.2]

theorem ne_of_prefix {x y : Bytes} (hx : hasPrefix Gen.connectUnaryTrailerPrefix x = true)
    (hy : hasPrefix Gen.connectUnaryTrailerPrefix y = false) : x ≠ y := by
  intro e; rw [e, hy] at hx; cases hx

theorem unaryBase_trailer (c : HConn) (p : HProg) (hT : p.trailer.wf) (hH : p.header.wf)
    (hnp : ∀ q ∈ p.header, hasPrefix Gen.connectUnaryTrailerPrefix q.1 = false) (k : Bytes) :
    (unaryBase c p).vals (Gen.connectUnaryTrailerPrefix ++ k) = p.trailer.vals k := by
  unfold unaryBase
  by_cases hk : k ∈ p.trailer.map (·.1)
  · exact addTrailerPrefixed_trailer _ _ hT k hk
  · rw [addTrailerPrefixed_absent _ _ k hk, vals_mergeHeaders _ _ hH, Header.vals_of_not_mem p.trailer k hk]
    have hp := hasPrefix_append Gen.connectUnaryTrailerPrefix k
    have h1 : Header.vals p.header (Gen.connectUnaryTrailerPrefix ++ k) = [] := by
      apply Header.vals_of_not_mem
      intro hm
      simp only [List.mem_map] at hm
      obtain ⟨q, hq, e⟩ := hm
      have := hnp q hq
      rw [e, hp] at this; cases this
    rw [h1]
    simp [Header.vals, ne_of_prefix hp reserved_no_prefix.1, ne_of_prefix hp reserved_no_prefix.2.1]

/-- **connect_unary_trailers_roundtrip**: for a successful unary Connect call, whatever the
    handler put into its trailers is what the client finds in the response's trailers — values
    and per-key order unchanged, for every key. (Handler-set *header* keys must not themselves
    start with `Trailer-`: such a header is indistinguishable from a trailer on the wire.) -/
theorem connect_unary_trailers_roundtrip (c : HConn) (cfg : CCfg) (st : Bytes) (p : HProg) (hr : p.result = none)
    (hT : p.trailer.wf) (hH : p.header.wf)
    (hnp : ∀ q ∈ p.header, hasPrefix Gen.connectUnaryTrailerPrefix q.1 = false) (k : Bytes) :
    (clientConnectUnary cfg st (serveConnectUnary c p)).trailer.vals k = p.trailer.vals k := by
  rw [(clientConnectUnary_views cfg st _).2]
  have hp := hasPrefix_append Gen.connectUnaryTrailerPrefix k
  rcases serve_unary_header c p hr with h | h <;> rw [h]
  · rw [split_trailer_vals _ (unaryBase_wf c p), unaryBase_trailer c p hT hH hnp]
  · rw [split_trailer_vals _ (Header.set_wf _ _ _ (unaryBase_wf c p)),
      Header.vals_set_ne _ _ _ _ (ne_of_prefix hp reserved_no_prefix.2.2.1), unaryBase_trailer c p hT hH hnp]

/-- **connect_unary_headers_roundtrip**: … and the handler's response headers are found under
    the client's response headers, for every key outside the protocol's own three. -/
theorem connect_unary_headers_roundtrip (c : HConn) (cfg : CCfg) (st : Bytes) (p : HProg) (hr : p.result = none)
    (hH : p.header.wf) (x : Bytes) (hx : hasPrefix Gen.connectUnaryTrailerPrefix x = false)
    (hres : x ≠ Gen.hdrContentType ∧ x ≠ Gen.hdrConnectUnaryAcceptEncoding ∧ x ≠ Gen.hdrConnectUnaryEncoding) :
    (clientConnectUnary cfg st (serveConnectUnary c p)).header.vals x = p.header.vals x := by
  rw [(clientConnectUnary_views cfg st _).1]
  have base : (unaryBase c p).vals x = p.header.vals x := by
    unfold unaryBase
    rw [addTrailerPrefixed_other _ _ x hx, vals_mergeHeaders _ _ hH]
    simp [Header.vals, hres.1, hres.2.1]
  rcases serve_unary_header c p hr with h | h <;> rw [h]
  · rw [split_header_vals _ (unaryBase_wf c p) x hx, base]
  · rw [split_header_vals _ (Header.set_wf _ _ _ (unaryBase_wf c p)) x hx, Header.vals_set_ne _ _ _ _ hres.2.2, base]

/-- **connect_unary_error_metadata**: a unary Connect handler fails with a coded error: every
    value it put into its response headers, every value attached to the error and every value it
    put into its trailers is in the metadata of the error the client gets, under its key, in
    that order — and the code, message and details are the handler's. -/
theorem connect_unary_error_metadata (c : HConn) (cfg : CCfg) (st : Bytes) (p : HProg) (e : CErr)
    (hr : p.result = some (.coded e)) (h0 : e.code ≠ 0)
    (hH : p.header.wf) (hM : e.md.wf) (hT : p.trailer.wf)
    (hnpH : ∀ q ∈ p.header, hasPrefix Gen.connectUnaryTrailerPrefix q.1 = false)
    (hnpM : ∀ q ∈ e.md, hasPrefix Gen.connectUnaryTrailerPrefix q.1 = false)
    (henc : encodingKnown cfg ((serveConnectUnary c p).header.get Gen.hdrConnectUnaryEncoding) = true)
    (k : Bytes) (hk : hasPrefix Gen.connectUnaryTrailerPrefix k = false)
    (hres : k ≠ Gen.hdrContentType ∧ k ≠ Gen.hdrConnectUnaryAcceptEncoding) :
    ∃ err, (clientConnectUnary cfg st (serveConnectUnary c p)).result = some err ∧
      err.code = e.code ∧ err.msg = e.msg ∧ err.details = e.details ∧
      err.md.vals k = p.header.vals k ++ e.md.vals k ++ p.trailer.vals k := by
  have hp := hasPrefix_append Gen.connectUnaryTrailerPrefix k
  -- the response
  have hresp : (serveConnectUnary c p).header =
      (addTrailerPrefixed (mergeHeaders (mergeHeaders [(Gen.hdrContentType, [c.contentType]),
        (Gen.hdrConnectUnaryAcceptEncoding, [c.names])] p.header) e.md) p.trailer).set Gen.hdrContentType applicationJSON := by
    simp [serveConnectUnary, hr, toWire, wireOf]
  have hstatus : (serveConnectUnary c p).status ≠ 200 := by
    have := (C02.unary_connect_status c p _ hr).2
    omega
  have hbody : (serveConnectUnary c p).body = [.errorJSON { code := e.code, msg := e.msg, details := e.details }] := by
    simp [serveConnectUnary, hr, toWire, wireOf]
  have hdec := C02.connect_unary_error_decoded cfg st (serveConnectUnary c p) _ hstatus hbody h0 henc
  refine ⟨_, hdec, rfl, rfl, rfl, ?_⟩
  -- well-formedness of the maps involved
  have hinner : (mergeHeaders (mergeHeaders [(Gen.hdrContentType, [c.contentType]),
      (Gen.hdrConnectUnaryAcceptEncoding, [c.names])] p.header) e.md).wf := by
    apply mergeHeaders_wf; apply mergeHeaders_wf
    simp [Header.wf, reserved_no_prefix.2.2.2]
  have hHwf : (serveConnectUnary c p).header.wf := by
    rw [hresp]; exact Header.set_wf _ _ _ (addTrailerPrefixed_wf _ _ hinner)
  have hs1 : (splitTrailerPrefixed (serveConnectUnary c p).header).1.wf := by
    unfold splitTrailerPrefixed; rw [split_eq]; exact foldl_put_wf id _ [] Header.nil_wf
  have hs2 : (splitTrailerPrefixed (serveConnectUnary c p).header).2.wf := by
    unfold splitTrailerPrefixed; rw [split_eq]; exact foldl_put_wf _ _ [] Header.nil_wf
  simp only
  rw [vals_mergeHeaders _ _ hs2, vals_copy _ hs1, split_header_vals _ hHwf k hk, split_trailer_vals _ hHwf k, hresp]
  rw [Header.vals_set_ne _ _ _ _ hres.1, Header.vals_set_ne _ _ _ _ (ne_of_prefix hp reserved_no_prefix.1)]
  -- headers
  rw [addTrailerPrefixed_other _ _ k hk, vals_mergeHeaders _ _ hM, vals_mergeHeaders _ _ hH]
  have hh0 : Header.vals [(Gen.hdrContentType, [c.contentType]), (Gen.hdrConnectUnaryAcceptEncoding, [c.names])] k = [] := by
    simp [Header.vals, hres.1, hres.2]
  rw [hh0, List.nil_append]
  -- trailers
  congr 1
  by_cases hkt : k ∈ p.trailer.map (·.1)
  · exact addTrailerPrefixed_trailer _ _ hT k hkt
  · rw [addTrailerPrefixed_absent _ _ k hkt, vals_mergeHeaders _ _ hM, vals_mergeHeaders _ _ hH,
      Header.vals_of_not_mem p.trailer k hkt]
    have noPfx : ∀ (h : Header), (∀ q ∈ h, hasPrefix Gen.connectUnaryTrailerPrefix q.1 = false) →
        Header.vals h (Gen.connectUnaryTrailerPrefix ++ k) = [] := by
      intro h hh
      apply Header.vals_of_not_mem
      intro hm
      simp only [List.mem_map] at hm
      obtain ⟨q, hq, eq⟩ := hm
      have := hh q hq
      rw [eq, hp] at this; cases this
    rw [noPfx p.header hnpH, noPfx e.md hnpM]
    simp [Header.vals, ne_of_prefix hp reserved_no_prefix.1, ne_of_prefix hp reserved_no_prefix.2.1]
/-! non-vacuity -/
example : splitTrailerPrefixed (addTrailerPrefixed [([88], [[1]])] [([89], [[2], [3]])]) = ([([88], [[1]])], [([89], [[2], [3]])]) := by decide

example : CleanValue [97, 32, 98] := by
  refine ⟨by decide, ?_, ?_⟩ <;> intro c h <;> simp at h <;> subst h <;> decide
example : canonicalKey [88, 45, 84, 114, 97, 99, 101] = [88, 45, 84, 114, 97, 99, 101] := by decide

end ConnectModel.C11
