/-
  C02 — Handler errors reach the client with code, message, details and metadata.

  Handler side: `serve*` (what Close(err) puts on the wire). Client side: `client*` (what
  validateResponse / Receive make of it). The JSON / protobuf encodings of the error record are
  parameters with a round-trip law; percent-encoding, base64, header maps and the decision logic
  are modelled exactly.
-/
import ConnectModel.Proto
import ConnectProofs.C01
import ConnectProofs.Lemmas.Toy
import ConnectProofs.Lemmas.Header
import ConnectProofs.Lemmas.Sanitize
import ConnectProofs.Lemmas.Dec
import ConnectProofs.C18

namespace ConnectModel.C02
open ConnectModel

/-! ### gRPC / gRPC-Web: the trailer encoding of an error round-trips -/

theorem hdr_keys_distinct :
    Gen.hdrGrpcStatus ≠ Gen.hdrGrpcMessage ∧ Gen.hdrGrpcStatus ≠ Gen.hdrGrpcDetails ∧
    Gen.hdrGrpcMessage ≠ Gen.hdrGrpcDetails := by decide

theorem parseUint32_showDec (n : Nat) (h : n < 2 ^ 32) : parseUint32 (showDec n) = some n := by
  simp [parseUint32, parseDec_showDec, h]

theorem b64EncodeRaw_ne_nil (b : Bytes) (h : b ≠ []) : b64EncodeRaw b ≠ [] := by
  match b, h with
  | [_], _ => simp [b64EncodeRaw]
  | [_, _], _ => simp [b64EncodeRaw]
  | _ :: _ :: _ :: _, _ => simp [b64EncodeRaw]

/-- the Status protobuf codec, as far as the model needs it -/
structure StatusCodec (enc : WireErr → Bytes) (dec : Bytes → Option WireErr) : Prop where
  roundtrip : ∀ w, dec (enc w) = some w
  nonempty : ∀ w, w.code ≠ 0 → enc w ≠ []

/-- **grpc_error_roundtrip**: whatever trailers and metadata the handler set, the trailers that
    `grpcErrorToTrailer` produces for an error with a non-zero 32-bit code decode, on the
    client, to exactly that code, message (any bytes: blanks, '%', CR/LF, NUL, non-ASCII) and
    details — the binary status wins over the header pair. -/
theorem grpc_error_roundtrip (enc : WireErr → Bytes) (dec : Bytes → Option WireErr) (hc : StatusCodec enc dec)
    (userTrailer : Header) (e : CErr) (h0 : e.code ≠ 0) (h32 : e.code < 2 ^ 32) :
    grpcErrorFromTrailer dec (grpcTrailers enc userTrailer (some (.coded e))) =
      .serverErr { code := e.code, msg := e.msg, details := e.details } := by
  obtain ⟨d1, d2, d3⟩ := hdr_keys_distinct
  have hS : (grpcTrailers enc userTrailer (some (.coded e))).get Gen.hdrGrpcStatus = showDec e.code := by
    simp only [grpcTrailers, toWire, wireOf]
    rw [Header.get_set_ne _ _ _ _ d2, Header.get_set_ne _ _ _ _ d1, Header.get_set]
  have hM : (grpcTrailers enc userTrailer (some (.coded e))).get Gen.hdrGrpcMessage = percentEncode e.msg := by
    simp only [grpcTrailers, toWire, wireOf]
    rw [Header.get_set_ne _ _ _ _ d3, Header.get_set]
  have hD : (grpcTrailers enc userTrailer (some (.coded e))).get Gen.hdrGrpcDetails =
      detailsBin enc { code := e.code, msg := e.msg, details := e.details } := by
    simp only [grpcTrailers, toWire, wireOf]
    rw [Header.get_set]
  have hne : enc { code := e.code, msg := e.msg, details := e.details } ≠ [] := hc.nonempty _ h0
  have hb : detailsBin enc { code := e.code, msg := e.msg, details := e.details } ≠ [] :=
    b64EncodeRaw_ne_nil _ hne
  simp only [grpcErrorFromTrailer, hS, hM, hD, showDec_ne_nil, if_false, parseUint32_showDec _ h32, h0]
  rw [if_neg hb]
  simp only [detailsBin, C18.binary_header_roundtrip, hc.roundtrip, h0, if_false]

/-- a plain Go error arrives as code unknown with its text -/
theorem grpc_plain_error_unknown (enc : WireErr → Bytes) (dec : Bytes → Option WireErr) (hc : StatusCodec enc dec)
    (userTrailer : Header) (text : Bytes) :
    grpcErrorFromTrailer dec (grpcTrailers enc userTrailer (some (.plain text))) =
      .serverErr { code := codeUnknown, msg := text, details := [] } := by
  have := grpc_error_roundtrip enc dec hc userTrailer { code := codeUnknown, msg := text, details := [], md := [] }
    (by simp [codeUnknown]) (by simp [codeUnknown])
  simpa [grpcTrailers, toWire, wireOf] using this

/-- a successful outcome is the OK status -/
theorem grpc_ok_trailer (enc : WireErr → Bytes) (dec : Bytes → Option WireErr) (userTrailer : Header) :
    grpcErrorFromTrailer dec (grpcTrailers enc userTrailer none) = .ok := by
  obtain ⟨d1, _, _⟩ := hdr_keys_distinct
  have hS : (grpcTrailers enc userTrailer none).get Gen.hdrGrpcStatus = [48] := by
    simp only [grpcTrailers]
    rw [Header.get_set_ne _ _ _ _ d1, Header.get_set]
  have hp : parseUint32 [48] = some 0 := by decide
  have hne : ¬ (([48] : Bytes) = []) := by simp
  simp only [grpcErrorFromTrailer, hS, hp, hne, if_false, if_true]

/-- **grpc_metadata_preserved**: every value the handler put in its trailers or attached to the
    error is in the trailers sent, in order, under its key (for keys other than the three
    status keys). -/
theorem grpc_metadata_preserved (enc : WireErr → Bytes) (userTrailer : Header) (e : CErr)
    (hT : userTrailer.wf) (hM : e.md.wf) (k : Bytes)
    (hk : k ≠ Gen.hdrGrpcStatus ∧ k ≠ Gen.hdrGrpcMessage ∧ k ≠ Gen.hdrGrpcDetails) :
    (grpcTrailers enc userTrailer (some (.coded e))).vals k = userTrailer.vals k ++ e.md.vals k := by
  simp only [grpcTrailers, toWire, wireOf]
  rw [Header.vals_set_ne _ _ _ _ hk.2.2, Header.vals_set_ne _ _ _ _ hk.2.1, Header.vals_set_ne _ _ _ _ hk.1]
  rw [vals_mergeHeaders _ _ hM, vals_mergeHeaders _ _ hT]
  simp [Header.vals]

/-! ### Connect unary: JSON body under the code's HTTP status -/

/-- **unary_connect_status**: a failed unary Connect call is answered with the code's HTTP
    status, which is never 2xx. -/
theorem unary_connect_status (c : HConn) (p : HProg) (e : GoErr) (hr : p.result = some e) :
    (serveConnectUnary c p).status = codeToHTTP (wireOf (toWire e)).1.code ∧
    400 ≤ (serveConnectUnary c p).status ∧ (serveConnectUnary c p).status ≤ 599 ∧
    (serveConnectUnary c p).body = [.errorJSON (wireOf (toWire e)).1] := by
  simp only [serveConnectUnary, hr]
  exact ⟨trivial, (C18.code_http_range _).1, (C18.code_http_range _).2, trivial⟩

/-- **connect_unary_error_decoded**: a non-200 response whose body is a well-formed error with a
    non-zero code is surfaced with exactly that code, message and details, and metadata made of
    the response headers and (un-prefixed) trailers. -/
theorem connect_unary_error_decoded (cfg : CCfg) (stext : Bytes) (r : Resp) (w : WireErr)
    (hs : r.status ≠ 200) (hb : r.body = [.errorJSON w]) (h0 : w.code ≠ 0)
    (henc : encodingKnown cfg (r.header.get Gen.hdrConnectUnaryEncoding) = true) :
    (clientConnectUnary cfg stext r).result =
      some { code := w.code, msg := w.msg, details := w.details,
             md := mergeHeaders (mergeHeaders [] (splitTrailerPrefixed r.header).1) (splitTrailerPrefixed r.header).2 } := by
  simp only [clientConnectUnary, henc, Bool.not_true, Bool.false_eq_true, if_false, hs, ne_eq, not_false_eq_true, if_true, hb,
    fixCode, h0]

/-! ### Connect streaming: the end-of-stream envelope -/

theorem recvItems_plain (cfg : CCfg) (enc : Option Compressor) (hmax : cfg.max = 0) (sends : List Bytes)
    (rest : List BodyItem) :
    recvItems cfg enc (sends.map (BodyItem.frame 0) ++ rest) =
      (sends ++ (recvItems cfg enc rest).1, (recvItems cfg enc rest).2) := by
  induction sends with
  | nil => simp
  | cons m ms ih =>
    simp only [List.map_cons, List.cons_append, recvItems]
    have h00 : ((0 : UInt8).toNat = 0 ∨ (0 : UInt8).toNat = 1) := Or.inl rfl
    have h01 : ¬ ((0 : UInt8).toNat = 1) := by decide
    simp only [h00, if_true, hmax, h01, if_false, ih]
    by_cases hl : m.length = 0
    · have : m = [] := List.eq_nil_of_length_eq_zero hl
      subst this; simp
    · have hgt : ¬ ((0 : Nat) > 0 ∧ m.length > 0) := by omega
      simp [hl, hgt]

/-- **connect_stream_error_roundtrip**: a streaming Connect handler (no response compression)
    sends `msgs` and then fails with error `e` (non-zero code): the client receives exactly
    `msgs`, then an error with the same code, message and details — never success. -/
theorem connect_stream_error_roundtrip (c : HConn) (cfg : CCfg) (p : HProg) (e : CErr)
    (hproto : cfg.proto = .connect) (hmax : cfg.max = 0) (hpool : c.pool = none)
    (hr : p.result = some (.coded e)) (h0 : e.code ≠ 0)
    (henc : (serveConnectStream c p).header.get Gen.hdrConnectStreamEncoding = []) :
    (clientConnectStream cfg (serveConnectStream c p)).msgs = p.sends ∧
    ∃ md, (clientConnectStream cfg (serveConnectStream c p)).result =
      some { code := e.code, msg := e.msg, details := e.details, md := md } := by
  have hstatus : (serveConnectStream c p).status = 200 := rfl
  have hbody : (serveConnectStream c p).body =
      p.sends.map (BodyItem.frame 0) ++ [.endStream (some { code := e.code, msg := e.msg, details := e.details })
        (mergeHeaders p.trailer e.md)] := by
    simp only [serveConnectStream, hr, toWire, wireOf]
    congr 1
    apply List.map_congr_left
    intro m _
    simp [msgFrame, hpool]
  simp only [clientConnectStream, hstatus, ne_eq, not_true_eq_false, if_false, henc]
  have hk : encodingKnown cfg [] = true := by simp [encodingKnown]
  simp only [hk, Bool.not_true, Bool.false_eq_true, if_false, hbody, recvItems_plain cfg _ hmax]
  simp only [recvItems, hproto, if_true, List.append_nil, fixCode, h0, if_false]
  exact ⟨trivial, _, rfl⟩

/-- **unary_error_ignores_read_limit**: what a unary Connect client makes of a non-200 response -
    the peer's code, message, details and metadata, or the fallback from the HTTP status - does
    not depend on the client's read limit: the limit is about messages, the error body is not
    one (a client with a 32-byte limit still learns that the handler said `canceled`). -/
theorem unary_error_ignores_read_limit (cfg : CCfg) (m : Nat) (st : Bytes) (r : Resp) (hs : r.status ≠ 200) :
    clientConnectUnary { cfg with max := m } st r = clientConnectUnary cfg st r := by
  unfold clientConnectUnary
  simp only [encodingKnown, encodingPool, hs, ne_eq, not_false_eq_true, if_true]
  split
  · rfl
  · split <;> rfl

/-! ### a whole gRPC call: handler side composed with client side -/

theorem vals_copy (h : Header) (hw : h.wf) (k : Bytes) : (mergeHeaders [] h).vals k = h.vals k := by
  rw [vals_mergeHeaders _ _ hw]; simp [Header.vals]

/-- the verdict only looks at the first value of three keys: copying the map does not change it -/
theorem verdict_copy (dec : Bytes → Option WireErr) (t : Header) (hw : t.wf) :
    grpcErrorFromTrailer dec (mergeHeaders [] t) = grpcErrorFromTrailer dec t := by
  have hg : ∀ k, (mergeHeaders [] t).get k = t.get k := fun k => by simp only [Header.get, vals_copy t hw]
  unfold grpcErrorFromTrailer
  simp only [hg]

theorem grpcTrailers_wf (enc : WireErr → Bytes) (t : Header) (r : Option GoErr) : (grpcTrailers enc t r).wf := by
  unfold grpcTrailers
  cases r with
  | none => exact Header.set_wf _ _ _ (Header.set_wf _ _ _ (mergeHeaders_wf _ _ Header.nil_wf))
  | some e =>
    simp only
    exact Header.set_wf _ _ _ (Header.set_wf _ _ _ (Header.set_wf _ _ _ (mergeHeaders_wf _ _ (mergeHeaders_wf _ _ Header.nil_wf))))

/-- **grpc_call_roundtrip**: a gRPC handler (identity response compression) sends `p.sends` and
    finishes with `p.result`; the gRPC client receives exactly those messages in order, then
    success if the handler succeeded and otherwise an error with the handler's code, message
    and details. -/
theorem grpc_call_roundtrip (enc : WireErr → Bytes) (dec : Bytes → Option WireErr) (hc : StatusCodec enc dec)
    (c : HConn) (cfg : CCfg) (p : HProg)
    (hproto : cfg.proto = .grpc) (hmax : cfg.max = 0) (hpool : c.pool = none)
    (hid : c.respCompression = Gen.compressionIdentity)
    (hH : p.header.wf) (hHs : p.header.vals Gen.hdrGrpcStatus = []) (hHe : p.header.vals Gen.hdrGrpcEncoding = []) :
    (clientGrpc dec cfg (serveGrpc enc false c p)).msgs = p.sends ∧
    (p.result = none → (clientGrpc dec cfg (serveGrpc enc false c p)).result = none) ∧
    (∀ e, p.result = some (.coded e) → e.code ≠ 0 → e.code < 2 ^ 32 →
      ∃ md, (clientGrpc dec cfg (serveGrpc enc false c p)).result =
        some { code := e.code, msg := e.msg, details := e.details, md := md }) := by
  have hstatus : (serveGrpc enc false c p).status = 200 := by simp [serveGrpc]
  have hhdr : (serveGrpc enc false c p).header =
      mergeHeaders [(Gen.hdrContentType, [c.contentType]), (Gen.hdrGrpcAcceptEncoding, [c.names])] p.header := by
    simp [serveGrpc, hid]
  have hbody : (serveGrpc enc false c p).body = p.sends.map (BodyItem.frame 0) := by
    simp only [serveGrpc, Bool.false_eq_true, if_false]
    apply List.map_congr_left
    intro m _
    simp [msgFrame, hpool]
  have htr : (serveGrpc enc false c p).trailer = grpcTrailers enc p.trailer p.result := by simp [serveGrpc]
  obtain ⟨d1, d2, d3⟩ := hdr_keys_distinct
  have hgetS : (serveGrpc enc false c p).header.get Gen.hdrGrpcStatus = [] := by
    have n1 : Gen.hdrGrpcStatus ≠ Gen.hdrContentType := by decide
    have n2 : Gen.hdrGrpcStatus ≠ Gen.hdrGrpcAcceptEncoding := by decide
    rw [hhdr]; simp only [Header.get, vals_mergeHeaders _ _ hH, hHs]
    simp [Header.vals, n1, n2]
  have hgetE : (serveGrpc enc false c p).header.get Gen.hdrGrpcEncoding = [] := by
    have n1 : Gen.hdrGrpcEncoding ≠ Gen.hdrContentType := by decide
    have n2 : Gen.hdrGrpcEncoding ≠ Gen.hdrGrpcAcceptEncoding := by decide
    rw [hhdr]; simp only [Header.get, vals_mergeHeaders _ _ hH, hHe]
    simp [Header.vals, n1, n2]
  have hverdictH : grpcErrorFromTrailer dec (serveGrpc enc false c p).header = .missing := by
    simp only [grpcErrorFromTrailer, hgetS, if_true]
  have hmergedS : (mergeHeaders [] (serveGrpc enc false c p).header).get Gen.hdrGrpcStatus = [] := by
    have hw : (serveGrpc enc false c p).header.wf := by
      rw [hhdr]; apply mergeHeaders_wf; simp [Header.wf]; decide
    simp only [Header.get, vals_copy _ hw]
    exact hgetS
  have hk : encodingKnown cfg [] = true := by simp [encodingKnown]
  have hweb : ¬ (cfg.proto = Proto.grpcWeb) := by rw [hproto]; decide
  have hrecv : recvItems cfg (encodingPool cfg []) (p.sends.map (BodyItem.frame 0)) = (p.sends, .cleanEOF) := by
    have := recvItems_plain cfg (encodingPool cfg []) hmax p.sends []
    simpa [recvItems] using this
  have hvc := verdict_copy dec _ (grpcTrailers_wf enc p.trailer p.result)
  refine ⟨?_, ?_, ?_⟩
  · simp only [clientGrpc, hstatus, ne_eq, not_true_eq_false, if_false, hgetE, hk, Bool.not_true, Bool.false_eq_true,
      hverdictH, hmergedS, hbody, hrecv, htr, hweb, hvc]
    cases grpcErrorFromTrailer dec (grpcTrailers enc p.trailer p.result) <;> simp
  · intro hr
    rw [hr] at hvc
    simp only [clientGrpc, hstatus, ne_eq, not_true_eq_false, if_false, hgetE, hk, Bool.not_true, Bool.false_eq_true,
      hverdictH, hmergedS, hbody, hrecv, htr, hweb, hvc, hr, grpc_ok_trailer]
    simp
  · intro e hr h0 h32
    rw [hr] at hvc
    simp only [clientGrpc, hstatus, ne_eq, not_true_eq_false, if_false, hgetE, hk, Bool.not_true, Bool.false_eq_true,
      hverdictH, hmergedS, hbody, hrecv, htr, hweb, hvc, hr, grpc_error_roundtrip enc dec hc p.trailer e h0 h32]
    exact ⟨_, rfl⟩
/-- what a conforming client recovers from the frames a handler wrote, with or without response
    compression, thresholds included: exactly the payloads, in order -/
theorem recvItems_msgFrames (cfg : CCfg) (c : HConn) (hmax : cfg.max = 0)
    (hl : ∀ z, c.pool = some z → C01.CompLaws z) (sends : List Bytes) (rest : List BodyItem) :
    recvItems cfg c.pool (sends.map (msgFrame c) ++ rest) =
      (sends ++ (recvItems cfg c.pool rest).1, (recvItems cfg c.pool rest).2) := by
  induction sends with
  | nil => simp
  | cons m ms ih =>
    simp only [List.map_cons, List.cons_append]
    have h00 : ((0 : UInt8).toNat = 0 ∨ (0 : UInt8).toNat = 1) := Or.inl rfl
    have h01 : ¬ ((0 : UInt8).toNat = 1) := by decide
    have h10 : ((1 : UInt8).toNat = 0 ∨ (1 : UInt8).toNat = 1) := Or.inr rfl
    have h11 : ((1 : UInt8).toNat = 1) := by decide
    have plain : recvItems cfg c.pool (BodyItem.frame 0 m :: (ms.map (msgFrame c) ++ rest)) =
        (m :: (ms ++ (recvItems cfg c.pool rest).1), (recvItems cfg c.pool rest).2) := by
      simp only [recvItems, h00, if_true, hmax, h01, if_false, ih]
      by_cases hlen : m.length = 0
      · have : m = [] := List.eq_nil_of_length_eq_zero hlen
        subst this; simp
      · have hgt : ¬ ((0 : Nat) > 0 ∧ m.length > 0) := by omega
        simp [hlen, hgt]
    cases hp : c.pool with
    | none =>
      rw [hp] at plain
      simpa [msgFrame, hp] using plain
    | some z =>
      have laws := hl z hp
      rw [hp] at plain ih
      by_cases hmin : (m.length : Int) < c.minBytes
      · simpa [msgFrame, hp, hmin] using plain
      · simp only [msgFrame, hp, hmin, if_false, recvItems, h10, if_true, hmax, h11, ih]
        by_cases hlen : (z.compress m).length = 0
        · have hz : z.compress m = [] := List.eq_nil_of_length_eq_zero hlen
          have : m = [] := laws.nonempty m hz
          subst this; simp [hlen]
        · have hgt : ¬ ((0 : Nat) > 0 ∧ (z.compress m).length > 0) := by omega
          simp [hlen, hgt, decompressLimited, laws.roundtrip]

/-- **grpc_call_roundtrip_compressed**: as `grpc_call_roundtrip`, for any response compression
    the two sides agree on (the client resolves the `Grpc-Encoding` header to the algorithm the
    handler used), any `compressMinBytes` threshold and any law-abiding compressor. -/
theorem grpc_call_roundtrip_compressed (enc : WireErr → Bytes) (dec : Bytes → Option WireErr) (hc : StatusCodec enc dec)
    (c : HConn) (cfg : CCfg) (p : HProg)
    (hproto : cfg.proto = .grpc) (hmax : cfg.max = 0) (hl : ∀ z, c.pool = some z → C01.CompLaws z)
    (hknown : encodingKnown cfg ((serveGrpc enc false c p).header.get Gen.hdrGrpcEncoding) = true)
    (hagree : encodingPool cfg ((serveGrpc enc false c p).header.get Gen.hdrGrpcEncoding) = c.pool)
    (hH : p.header.wf) (hHs : p.header.vals Gen.hdrGrpcStatus = []) :
    (clientGrpc dec cfg (serveGrpc enc false c p)).msgs = p.sends ∧
    (p.result = none → (clientGrpc dec cfg (serveGrpc enc false c p)).result = none) ∧
    (∀ e, p.result = some (.coded e) → e.code ≠ 0 → e.code < 2 ^ 32 →
      ∃ md, (clientGrpc dec cfg (serveGrpc enc false c p)).result =
        some { code := e.code, msg := e.msg, details := e.details, md := md }) := by
  have hstatus : (serveGrpc enc false c p).status = 200 := by simp [serveGrpc]
  have hbody : (serveGrpc enc false c p).body = p.sends.map (msgFrame c) := by simp [serveGrpc]
  have htr : (serveGrpc enc false c p).trailer = grpcTrailers enc p.trailer p.result := by simp [serveGrpc]
  have n1 : Gen.hdrGrpcStatus ≠ Gen.hdrContentType := by decide
  have n2 : Gen.hdrGrpcStatus ≠ Gen.hdrGrpcAcceptEncoding := by decide
  have n3 : Gen.hdrGrpcStatus ≠ Gen.hdrGrpcEncoding := by decide
  have hvalsS : (serveGrpc enc false c p).header.vals Gen.hdrGrpcStatus = [] := by
    simp only [serveGrpc, Bool.false_eq_true, if_false, vals_mergeHeaders _ _ hH, hHs]
    split <;> simp [Header.vals, n1, n2, n3]
  have hgetS : (serveGrpc enc false c p).header.get Gen.hdrGrpcStatus = [] := by simp [Header.get, hvalsS]
  have hverdictH : grpcErrorFromTrailer dec (serveGrpc enc false c p).header = .missing := by
    simp only [grpcErrorFromTrailer, hgetS, if_true]
  have hw : (serveGrpc enc false c p).header.wf := by
    simp only [serveGrpc, Bool.false_eq_true, if_false]
    apply mergeHeaders_wf
    split <;> simp [Header.wf] <;> decide
  have hmergedS : (mergeHeaders [] (serveGrpc enc false c p).header).get Gen.hdrGrpcStatus = [] := by
    simp only [Header.get, vals_copy _ hw]; exact hgetS
  have hweb : ¬ (cfg.proto = Proto.grpcWeb) := by rw [hproto]; decide
  have hrecv : recvItems cfg c.pool (p.sends.map (msgFrame c)) = (p.sends, .cleanEOF) := by
    have := recvItems_msgFrames cfg c hmax hl p.sends []
    simpa [recvItems] using this
  have hvc := verdict_copy dec _ (grpcTrailers_wf enc p.trailer p.result)
  refine ⟨?_, ?_, ?_⟩
  · simp only [clientGrpc, hstatus, ne_eq, not_true_eq_false, if_false, hknown, hagree, Bool.not_true, Bool.false_eq_true,
      hverdictH, hmergedS, hbody, hrecv, htr, hweb, hvc]
    cases grpcErrorFromTrailer dec (grpcTrailers enc p.trailer p.result) <;> simp
  · intro hr
    rw [hr] at hvc
    simp only [clientGrpc, hstatus, ne_eq, not_true_eq_false, if_false, hknown, hagree, Bool.not_true, Bool.false_eq_true,
      hverdictH, hmergedS, hbody, hrecv, htr, hweb, hvc, hr, grpc_ok_trailer]
    simp
  · intro e hr h0 h32
    rw [hr] at hvc
    simp only [clientGrpc, hstatus, ne_eq, not_true_eq_false, if_false, hknown, hagree, Bool.not_true, Bool.false_eq_true,
      hverdictH, hmergedS, hbody, hrecv, htr, hweb, hvc, hr, grpc_error_roundtrip enc dec hc p.trailer e h0 h32]
    exact ⟨_, rfl⟩

/-- **connect_stream_call_roundtrip**: the same for a streaming Connect call: messages intact and
    in order under any agreed response compression, then the handler's outcome. -/
theorem connect_stream_call_roundtrip (c : HConn) (cfg : CCfg) (p : HProg)
    (hproto : cfg.proto = .connect) (hmax : cfg.max = 0) (hl : ∀ z, c.pool = some z → C01.CompLaws z)
    (hknown : encodingKnown cfg ((serveConnectStream c p).header.get Gen.hdrConnectStreamEncoding) = true)
    (hagree : encodingPool cfg ((serveConnectStream c p).header.get Gen.hdrConnectStreamEncoding) = c.pool) :
    (clientConnectStream cfg (serveConnectStream c p)).msgs = p.sends ∧
    (p.result = none → (clientConnectStream cfg (serveConnectStream c p)).result = none) ∧
    (∀ e, p.result = some (.coded e) → e.code ≠ 0 →
      ∃ md, (clientConnectStream cfg (serveConnectStream c p)).result =
        some { code := e.code, msg := e.msg, details := e.details, md := md }) := by
  have hstatus : (serveConnectStream c p).status = 200 := rfl
  refine ⟨?_, ?_, ?_⟩
  · simp only [clientConnectStream, hstatus, ne_eq, not_true_eq_false, if_false, hknown, hagree, Bool.not_true, Bool.false_eq_true]
    simp only [serveConnectStream, recvItems_msgFrames cfg c hmax hl]
    cases p.result <;> simp [recvItems, hproto, toWire, wireOf] <;> split <;> simp
  · intro hr
    simp only [clientConnectStream, hstatus, ne_eq, not_true_eq_false, if_false, hknown, hagree, Bool.not_true, Bool.false_eq_true]
    simp only [serveConnectStream, recvItems_msgFrames cfg c hmax hl, hr]
    simp [recvItems, hproto]
  · intro e hr h0
    simp only [clientConnectStream, hstatus, ne_eq, not_true_eq_false, if_false, hknown, hagree, Bool.not_true, Bool.false_eq_true]
    simp only [serveConnectStream, recvItems_msgFrames cfg c hmax hl, hr, toWire, wireOf]
    simp only [recvItems, hproto, if_true, List.append_nil, fixCode, h0, if_false]
    exact ⟨_, rfl⟩

/-- **never_success**: in every protocol a handler error yields an error item on the wire —
    the end-of-stream envelope carries it (Connect streaming), the status is non-2xx (Connect
    unary, above), the trailers carry a non-OK status (gRPC, `grpc_error_roundtrip`). -/
theorem connect_stream_error_on_wire (c : HConn) (p : HProg) (e : GoErr) (hr : p.result = some e) :
    ∃ md, (serveConnectStream c p).body.getLast? = some (.endStream (some (wireOf (toWire e)).1) md) := by
  simp only [serveConnectStream, hr]
  exact ⟨mergeHeaders p.trailer (wireOf (toWire e)).2, by simp⟩

/-- context errors returned by a handler are classified on the wire (C15, handler half) -/
theorem handler_ctx_error_classification :
    (wireOf (toWire .canceled)).1.code = codeCanceled ∧ (wireOf (toWire .deadline)).1.code = codeDeadlineExceeded := by
  decide

/-! non-vacuity -/
example : ∃ e : CErr, e.code ≠ 0 ∧ e.code < 2 ^ 32 := ⟨{ code := 5, msg := [37, 0], details := [[1]], md := [] }, by decide, by decide⟩

/-! ### gRPC-Web: the trailers travel as an HTTP/1 header block inside the body -/

/-- bytes that an HTTP/1 header block leaves alone wherever they stand -/
def Graphic (v : Bytes) : Prop := ∀ c ∈ v, 33 ≤ c.toNat ∧ c.toNat ≤ 126

theorem sanitize_graphic (v : Bytes) (h : Graphic v) : sanitizeValue v = v := by
  apply sanitize_clean_core
  refine ⟨fun c hc => ?_, fun c hc => ?_, fun c hc => ?_⟩
  · have := h c hc; omega
  · have := h c (List.mem_of_mem_head? hc); simp [isOWS]; omega
  · have := h c (List.mem_of_mem_getLast? hc); simp [isOWS]; omega

theorem b64Char_graphic (n : Nat) (h : n < 64) : 33 ≤ (b64Char n).toNat ∧ (b64Char n).toNat ≤ 126 := by
  unfold b64Char
  split
  · simp [UInt8.toNat_ofNat']; omega
  · split
    · simp [UInt8.toNat_ofNat']; omega
    · split
      · simp [UInt8.toNat_ofNat']; omega
      · split <;> decide

theorem b64EncodeRaw_graphic : ∀ (b : Bytes), Graphic (b64EncodeRaw b)
  | [] => by simp [b64EncodeRaw, Graphic]
  | [a] => by
    have := a.toNat_lt
    intro c hc
    simp only [b64EncodeRaw, List.mem_cons, List.mem_nil_iff, or_false] at hc
    rcases hc with rfl | rfl <;> apply b64Char_graphic <;> omega
  | [a, b] => by
    have := a.toNat_lt; have := b.toNat_lt
    intro c hc
    simp only [b64EncodeRaw, List.mem_cons, List.mem_nil_iff, or_false] at hc
    rcases hc with rfl | rfl | rfl <;> apply b64Char_graphic <;> omega
  | a :: b :: c :: rest => by
    have := a.toNat_lt; have := b.toNat_lt; have := c.toNat_lt
    intro x hx
    simp only [b64EncodeRaw, List.mem_cons] at hx
    rcases hx with rfl | rfl | rfl | rfl | hx
    · apply b64Char_graphic; omega
    · apply b64Char_graphic; omega
    · apply b64Char_graphic; omega
    · apply b64Char_graphic; omega
    · exact b64EncodeRaw_graphic rest x hx

theorem showDec_graphic (n : Nat) : Graphic (showDec n) := by
  intro c hc
  have := showDec_all_digits n c hc
  simp [isDigit] at this
  omega


theorem sanitizeBlock_vals (h : Header) (k : Bytes) : (sanitizeBlock h).vals k = (h.vals k).map sanitizeValue := by
  induction h with
  | nil => rfl
  | cons p rest ih =>
    obtain ⟨k', vs⟩ := p
    simp only [sanitizeBlock, List.map_cons, Header.vals] at ih ⊢
    by_cases hk : k = k'
    · simp [hk]
    · simp only [hk, if_false]; exact ih

theorem sanitizeBlock_get (h : Header) (k : Bytes) : (sanitizeBlock h).get k = sanitizeValue ((h.get k)) := by
  simp only [Header.get, sanitizeBlock_vals]
  cases h.vals k with
  | nil => simp [sanitizeValue]
  | cons v vs => simp

theorem sanitizeBlock_wf (h : Header) (hw : h.wf) : (sanitizeBlock h).wf := by
  unfold Header.wf sanitizeBlock at *
  have : List.map (fun x => x.1) (List.map (fun p : Bytes × List Bytes => (p.1, p.2.map sanitizeValue)) h) = List.map (fun x => x.1) h := by
    rw [List.map_map]; rfl
  rw [this]; exact hw

/-- the verdict on any trailer map that carries the status digits and the binary status -/
theorem verdict_of_gets (enc : WireErr → Bytes) (dec : Bytes → Option WireErr) (hc : StatusCodec enc dec)
    (T : Header) (w : WireErr) (h0 : w.code ≠ 0) (h32 : w.code < 2 ^ 32)
    (hS : T.get Gen.hdrGrpcStatus = showDec w.code) (hD : T.get Gen.hdrGrpcDetails = detailsBin enc w) :
    grpcErrorFromTrailer dec T = .serverErr w := by
  have hne : enc w ≠ [] := hc.nonempty _ h0
  have hb : detailsBin enc w ≠ [] := b64EncodeRaw_ne_nil _ hne
  simp only [grpcErrorFromTrailer, hS, hD, showDec_ne_nil, if_false, parseUint32_showDec _ h32, h0]
  rw [if_neg hb]
  simp only [detailsBin, C18.binary_header_roundtrip, hc.roundtrip, h0, if_false]


theorem grpcTrailers_get_status (enc : WireErr → Bytes) (t : Header) (e : CErr) :
    (grpcTrailers enc t (some (.coded e))).get Gen.hdrGrpcStatus = showDec e.code := by
  obtain ⟨d1, d2, _⟩ := hdr_keys_distinct
  simp only [grpcTrailers, toWire, wireOf]
  rw [Header.get_set_ne _ _ _ _ d2, Header.get_set_ne _ _ _ _ d1, Header.get_set]

theorem grpcTrailers_get_details (enc : WireErr → Bytes) (t : Header) (e : CErr) :
    (grpcTrailers enc t (some (.coded e))).get Gen.hdrGrpcDetails =
      detailsBin enc { code := e.code, msg := e.msg, details := e.details } := by
  simp only [grpcTrailers, toWire, wireOf]
  rw [Header.get_set]

theorem grpcTrailers_get_status_ok (enc : WireErr → Bytes) (t : Header) :
    (grpcTrailers enc t none).get Gen.hdrGrpcStatus = [48] := by
  obtain ⟨d1, _, _⟩ := hdr_keys_distinct
  simp only [grpcTrailers]
  rw [Header.get_set_ne _ _ _ _ d1, Header.get_set]

/-- **grpcweb_call_roundtrip**: a gRPC-Web handler sends at least one message and finishes; its
    trailers go through the HTTP/1 header block of the trailer frame (values are trimmed and
    CR/LF become blanks there) and the client still recovers exactly the messages, then success
    or the handler's code, *byte-identical* message and details — because the binary status
    survives the block unchanged and wins over the `Grpc-Message` header. -/
theorem grpcweb_call_roundtrip (enc : WireErr → Bytes) (dec : Bytes → Option WireErr) (hc : StatusCodec enc dec)
    (c : HConn) (cfg : CCfg) (p : HProg)
    (hproto : cfg.proto = .grpcWeb) (hmax : cfg.max = 0) (hl : ∀ z, c.pool = some z → C01.CompLaws z)
    (hknown : encodingKnown cfg ((serveGrpc enc true c p).header.get Gen.hdrGrpcEncoding) = true)
    (hagree : encodingPool cfg ((serveGrpc enc true c p).header.get Gen.hdrGrpcEncoding) = c.pool)
    (hH : p.header.wf) (hHs : p.header.vals Gen.hdrGrpcStatus = []) (hne : p.sends ≠ []) :
    (clientGrpc dec cfg (serveGrpc enc true c p)).msgs = p.sends ∧
    (p.result = none → (clientGrpc dec cfg (serveGrpc enc true c p)).result = none) ∧
    (∀ e, p.result = some (.coded e) → e.code ≠ 0 → e.code < 2 ^ 32 →
      ∃ md, (clientGrpc dec cfg (serveGrpc enc true c p)).result =
        some { code := e.code, msg := e.msg, details := e.details, md := md }) := by
  have hstatus : (serveGrpc enc true c p).status = 200 := by simp [serveGrpc, hne]
  have hbody : (serveGrpc enc true c p).body =
      p.sends.map (msgFrame c) ++ [.webTrailer (sanitizeBlock (grpcTrailers enc p.trailer p.result))] := by
    simp [serveGrpc, hne]
  have n1 : Gen.hdrGrpcStatus ≠ Gen.hdrContentType := by decide
  have n2 : Gen.hdrGrpcStatus ≠ Gen.hdrGrpcAcceptEncoding := by decide
  have n3 : Gen.hdrGrpcStatus ≠ Gen.hdrGrpcEncoding := by decide
  have hvalsS : (serveGrpc enc true c p).header.vals Gen.hdrGrpcStatus = [] := by
    simp only [serveGrpc, if_true, hne, if_false, vals_mergeHeaders _ _ hH, hHs]
    split <;> simp [Header.vals, n1, n2, n3]
  have hgetS : (serveGrpc enc true c p).header.get Gen.hdrGrpcStatus = [] := by simp [Header.get, hvalsS]
  have hverdictH : grpcErrorFromTrailer dec (serveGrpc enc true c p).header = .missing := by
    simp only [grpcErrorFromTrailer, hgetS, if_true]
  have hw : (serveGrpc enc true c p).header.wf := by
    simp only [serveGrpc, if_true, hne, if_false]
    apply mergeHeaders_wf
    split <;> simp [Header.wf] <;> decide
  have hmergedS : (mergeHeaders [] (serveGrpc enc true c p).header).get Gen.hdrGrpcStatus = [] := by
    simp only [Header.get, vals_copy _ hw]; exact hgetS
  have hweb : cfg.proto = Proto.grpcWeb := hproto
  let T := sanitizeBlock (sanitizeBlock (grpcTrailers enc p.trailer p.result))
  have hrecv : recvItems cfg c.pool (p.sends.map (msgFrame c) ++
      [.webTrailer (sanitizeBlock (grpcTrailers enc p.trailer p.result))]) = (p.sends, .webTrailer T) := by
    rw [recvItems_msgFrames cfg c hmax hl]
    simp [recvItems, hproto, T]
  have hTwf : T.wf := sanitizeBlock_wf _ (sanitizeBlock_wf _ (grpcTrailers_wf enc p.trailer p.result))
  have hvc := verdict_copy dec T hTwf
  have hTget : ∀ k, T.get k = sanitizeValue (sanitizeValue ((grpcTrailers enc p.trailer p.result).get k)) := by
    intro k; simp only [T, sanitizeBlock_get]
  refine ⟨?_, ?_, ?_⟩
  · simp only [clientGrpc, hstatus, ne_eq, not_true_eq_false, if_false, hknown, hagree, Bool.not_true, Bool.false_eq_true,
      hverdictH, hmergedS, hbody, hrecv, hweb, hvc]
    cases grpcErrorFromTrailer dec T <;> simp
  · intro hr
    have hok : grpcErrorFromTrailer dec T = .ok := by
      have hS : T.get Gen.hdrGrpcStatus = [48] := by
        rw [hTget, hr, grpcTrailers_get_status_ok]
        rw [sanitize_graphic [48] (by intro c hc; simp at hc; subst hc; decide),
            sanitize_graphic [48] (by intro c hc; simp at hc; subst hc; decide)]
      have hp : parseUint32 [48] = some 0 := by decide
      have hne' : ¬ (([48] : Bytes) = []) := by simp
      simp only [grpcErrorFromTrailer, hS, hp, hne', if_false, if_true]
    simp only [clientGrpc, hstatus, ne_eq, not_true_eq_false, if_false, hknown, hagree, Bool.not_true, Bool.false_eq_true,
      hverdictH, hmergedS, hbody, hrecv, hweb, hvc, hok]
    simp
  · intro e hr h0 h32
    have hv : grpcErrorFromTrailer dec T = .serverErr { code := e.code, msg := e.msg, details := e.details } := by
      apply verdict_of_gets enc dec hc T _ h0 h32
      · rw [hTget, hr, grpcTrailers_get_status, sanitize_graphic _ (showDec_graphic _), sanitize_graphic _ (showDec_graphic _)]
      · rw [hTget, hr, grpcTrailers_get_details]
        have hg : Graphic (detailsBin enc { code := e.code, msg := e.msg, details := e.details }) := b64EncodeRaw_graphic _
        rw [sanitize_graphic _ hg, sanitize_graphic _ hg]
    simp only [clientGrpc, hstatus, ne_eq, not_true_eq_false, if_false, hknown, hagree, Bool.not_true, Bool.false_eq_true,
      hverdictH, hmergedS, hbody, hrecv, hweb, hvc, hv]
    exact ⟨_, rfl⟩

/-! ### from the protocol functions to the top-level `serve` / `clientDecode`
    (the functions the `serve` and `cdec` correspondence ops tie to the real code) -/

theorem serve_grpc (enc : WireErr → Bytes) (c : HConn) (p : HProg) (h : c.proto = .grpc) :
    serve enc c p = serveGrpc enc false c p := by simp [serve, h]

theorem serve_grpcWeb (enc : WireErr → Bytes) (c : HConn) (p : HProg) (h : c.proto = .grpcWeb) :
    serve enc c p = serveGrpc enc true c p := by simp [serve, h]

theorem serve_connect_stream (enc : WireErr → Bytes) (c : HConn) (p : HProg) (h : c.proto = .connect)
    (hk : c.kind ≠ .unary) : serve enc c p = serveConnectStream c p := by simp [serve, h, hk]

theorem clientDecode_stream (dec : Bytes → Option WireErr) (cfg : CCfg) (st : Bytes) (r : Resp)
    (hk : cfg.kind = .server ∨ cfg.kind = .bidi) :
    clientDecode dec cfg st r =
      (match cfg.proto with
       | .connect => clientConnectStream cfg r
       | _ => clientGrpc dec cfg r) := by
  unfold clientDecode
  rcases hk with hk | hk <;> cases hp : cfg.proto <;> simp [hk]

theorem clientDecode_single (dec : Bytes → Option WireErr) (cfg : CCfg) (st : Bytes) (r : Resp)
    (hk : cfg.kind = .unary ∨ cfg.kind = .client) (hp : cfg.proto ≠ .connect) :
    clientDecode dec cfg st r = unaryWrap (clientGrpc dec cfg r) := by
  unfold clientDecode
  rcases hk with hk | hk <;> cases hpp : cfg.proto <;> simp_all

/-- kinds with a single response: exactly one message and success pass through unchanged -/
theorem unaryWrap_single (o : ClientObs) (m : Bytes) (hm : o.msgs = [m]) (hr : o.result = none) :
    (unaryWrap o).msgs = [m] ∧ (unaryWrap o).result = none := by
  obtain ⟨msgs, result, header, trailer⟩ := o
  simp only at hm hr
  subst hm; subst hr
  simp [unaryWrap]

/-- … an error before any message passes through unchanged -/
theorem unaryWrap_error_first (o : ClientObs) (e : CErr) (hm : o.msgs = []) (hr : o.result = some e) :
    (unaryWrap o).msgs = [] ∧ (unaryWrap o).result = some e := by
  obtain ⟨msgs, result, header, trailer⟩ := o
  simp only at hm hr
  subst hm; subst hr
  simp [unaryWrap]

/-- … and zero or several messages are never reported as success -/
theorem unaryWrap_not_single (o : ClientObs) (h : o.msgs.length ≠ 1) : (unaryWrap o).result ≠ none := by
  obtain ⟨msgs, result, header, trailer⟩ := o
  simp only at h
  match msgs, result with
  | [], some e => simp [unaryWrap]
  | [], none => simp [unaryWrap]
  | [_], _ => simp at h
  | _ :: _ :: _, _ => simp [unaryWrap]

/-- **unary_grpc_call_roundtrip**: a unary (or client-streaming) gRPC call at the level of the
    application API: the handler returns one message and succeeds — the client gets that
    message and success; the handler fails before sending — the client gets its error. -/
theorem unary_grpc_call_roundtrip (enc : WireErr → Bytes) (dec : Bytes → Option WireErr) (hc : StatusCodec enc dec)
    (c : HConn) (cfg : CCfg) (st : Bytes) (p : HProg)
    (hproto : cfg.proto = .grpc) (hcp : c.proto = .grpc) (hk : cfg.kind = .unary ∨ cfg.kind = .client)
    (hmax : cfg.max = 0) (hl : ∀ z, c.pool = some z → C01.CompLaws z)
    (hknown : encodingKnown cfg ((serveGrpc enc false c p).header.get Gen.hdrGrpcEncoding) = true)
    (hagree : encodingPool cfg ((serveGrpc enc false c p).header.get Gen.hdrGrpcEncoding) = c.pool)
    (hH : p.header.wf) (hHs : p.header.vals Gen.hdrGrpcStatus = []) :
    (∀ m, p.sends = [m] → p.result = none →
      (clientDecode dec cfg st (serve enc c p)).msgs = [m] ∧ (clientDecode dec cfg st (serve enc c p)).result = none) ∧
    (∀ e, p.sends = [] → p.result = some (.coded e) → e.code ≠ 0 → e.code < 2 ^ 32 →
      ∃ md, (clientDecode dec cfg st (serve enc c p)).result =
        some { code := e.code, msg := e.msg, details := e.details, md := md }) := by
  have hne : cfg.proto ≠ .connect := by rw [hproto]; decide
  rw [serve_grpc enc c p hcp, clientDecode_single dec cfg st _ hk hne]
  obtain ⟨hmsgs, hok, herr⟩ := grpc_call_roundtrip_compressed enc dec hc c cfg p hproto hmax hl hknown hagree hH hHs
  constructor
  · intro m hs hr
    exact unaryWrap_single _ m (by rw [hmsgs, hs]) (hok hr)
  · intro e hs hr h0 h32
    obtain ⟨md, hmd⟩ := herr e hr h0 h32
    exact ⟨md, (unaryWrap_error_first _ _ (by rw [hmsgs, hs]) hmd).2⟩
/-! non-vacuity: the hypotheses of the composed theorems hold for the harness' own RLE
    compressor with a threshold, on a call that sends a compressed and an uncompressed message -/
def exConn : HConn :=
  { proto := .grpc, kind := .server, contentType := [97], names := [114, 108, 101], respCompression := [114, 108, 101],
    pool := some rleCompressor, minBytes := 2 }
def exCfg : CCfg := { proto := .grpc, kind := .server, accepts := [[114, 108, 101]], pool := rleCompressor, max := 0 }
def exProg : HProg := { header := [], trailer := [], sends := [[1, 1, 1], [2]], result := none }

example (enc : WireErr → Bytes) (dec : Bytes → Option WireErr) (hc : StatusCodec enc dec) :
    (clientGrpc dec exCfg (serveGrpc enc false exConn exProg)).msgs = [[1, 1, 1], [2]] ∧
    (clientGrpc dec exCfg (serveGrpc enc false exConn exProg)).result = none := by
  have h := grpc_call_roundtrip_compressed enc dec hc exConn exCfg exProg rfl rfl
    (fun z hz => by cases hz; exact rle_laws) (by rfl) (by rfl) (by simp [exProg, Header.wf]) rfl
  exact ⟨h.1, h.2.1 rfl⟩
end ConnectModel.C02
