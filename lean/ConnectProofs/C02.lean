/-
  C02 — Handler errors reach the client with code, message, details and metadata.

  Handler side: `serve*` (what Close(err) puts on the wire). Client side: `client*` (what
  validateResponse / Receive make of it). The JSON / protobuf encodings of the error record are
  parameters with a round-trip law; percent-encoding, base64, header maps and the decision logic
  are modelled exactly.
-/
import ConnectModel.Proto
import ConnectProofs.Lemmas.Header
import ConnectProofs.Lemmas.Dec
import ConnectProofs.C18

namespace ConnectModel.C02
open ConnectModel

/-! ### gRPC / gRPC-Web: the trailer encoding of an error round-trips -/

theorem hdr_keys_distinct :
    Gen.hdrGrpcStatus ≠ Gen.hdrGrpcMessage ∧ Gen.hdrGrpcStatus ≠ Gen.hdrGrpcDetails ∧
    Gen.hdrGrpcMessage ≠ Gen.hdrGrpcDetails := by decide

theorem parseUint32_showDec (n : Nat) (h : n < 2 ^ 32) : parseUint32 (showDec n) = some n := by
  simp [parseUint32, parseDec_showDec, h]

theorem b64EncodeRaw_ne_nil (b : Bytes) (h : b ≠ []) : b64EncodeRaw b ≠ [] := by
  match b, h with
  | [_], _ => simp [b64EncodeRaw]
  | [_, _], _ => simp [b64EncodeRaw]
  | _ :: _ :: _ :: _, _ => simp [b64EncodeRaw]

/-- the Status protobuf codec, as far as the model needs it -/
structure StatusCodec (enc : WireErr → Bytes) (dec : Bytes → Option WireErr) : Prop where
  roundtrip : ∀ w, dec (enc w) = some w
  nonempty : ∀ w, w.code ≠ 0 → enc w ≠ []

/-- **grpc_error_roundtrip**: whatever trailers and metadata the handler set, the trailers that
    `grpcErrorToTrailer` produces for an error with a non-zero 32-bit code decode, on the
    client, to exactly that code, message (any bytes: blanks, '%', CR/LF, NUL, non-ASCII) and
    details — the binary status wins over the header pair. -/
theorem grpc_error_roundtrip (enc : WireErr → Bytes) (dec : Bytes → Option WireErr) (hc : StatusCodec enc dec)
    (userTrailer : Header) (e : CErr) (h0 : e.code ≠ 0) (h32 : e.code < 2 ^ 32) :
    grpcErrorFromTrailer dec (grpcTrailers enc userTrailer (some (.coded e))) =
      .serverErr { code := e.code, msg := e.msg, details := e.details } := by
  obtain ⟨d1, d2, d3⟩ := hdr_keys_distinct
  have hS : (grpcTrailers enc userTrailer (some (.coded e))).get Gen.hdrGrpcStatus = showDec e.code := by
    simp only [grpcTrailers, toWire, wireOf]
    rw [Header.get_set_ne _ _ _ _ d2, Header.get_set_ne _ _ _ _ d1, Header.get_set]
  have hM : (grpcTrailers enc userTrailer (some (.coded e))).get Gen.hdrGrpcMessage = percentEncode e.msg := by
    simp only [grpcTrailers, toWire, wireOf]
    rw [Header.get_set_ne _ _ _ _ d3, Header.get_set]
  have hD : (grpcTrailers enc userTrailer (some (.coded e))).get Gen.hdrGrpcDetails =
      detailsBin enc { code := e.code, msg := e.msg, details := e.details } := by
    simp only [grpcTrailers, toWire, wireOf]
    rw [Header.get_set]
  have hne : enc { code := e.code, msg := e.msg, details := e.details } ≠ [] := hc.nonempty _ h0
  have hb : detailsBin enc { code := e.code, msg := e.msg, details := e.details } ≠ [] :=
    b64EncodeRaw_ne_nil _ hne
  simp only [grpcErrorFromTrailer, hS, hM, hD, showDec_ne_nil, if_false, parseUint32_showDec _ h32, h0]
  rw [if_neg hb]
  simp only [detailsBin, C18.binary_header_roundtrip, hc.roundtrip, h0, if_false]

/-- a plain Go error arrives as code unknown with its text -/
theorem grpc_plain_error_unknown (enc : WireErr → Bytes) (dec : Bytes → Option WireErr) (hc : StatusCodec enc dec)
    (userTrailer : Header) (text : Bytes) :
    grpcErrorFromTrailer dec (grpcTrailers enc userTrailer (some (.plain text))) =
      .serverErr { code := codeUnknown, msg := text, details := [] } := by
  have := grpc_error_roundtrip enc dec hc userTrailer { code := codeUnknown, msg := text, details := [], md := [] }
    (by simp [codeUnknown]) (by simp [codeUnknown])
  simpa [grpcTrailers, toWire, wireOf] using this

/-- a successful outcome is the OK status -/
theorem grpc_ok_trailer (enc : WireErr → Bytes) (dec : Bytes → Option WireErr) (userTrailer : Header) :
    grpcErrorFromTrailer dec (grpcTrailers enc userTrailer none) = .ok := by
  obtain ⟨d1, _, _⟩ := hdr_keys_distinct
  have hS : (grpcTrailers enc userTrailer none).get Gen.hdrGrpcStatus = [48] := by
    simp only [grpcTrailers]
    rw [Header.get_set_ne _ _ _ _ d1, Header.get_set]
  have hp : parseUint32 [48] = some 0 := by decide
  have hne : ¬ (([48] : Bytes) = []) := by simp
  simp only [grpcErrorFromTrailer, hS, hp, hne, if_false, if_true]

/-- **grpc_metadata_preserved**: every value the handler put in its trailers or attached to the
    error is in the trailers sent, in order, under its key (for keys other than the three
    status keys). -/
theorem grpc_metadata_preserved (enc : WireErr → Bytes) (userTrailer : Header) (e : CErr)
    (hT : userTrailer.wf) (hM : e.md.wf) (k : Bytes)
    (hk : k ≠ Gen.hdrGrpcStatus ∧ k ≠ Gen.hdrGrpcMessage ∧ k ≠ Gen.hdrGrpcDetails) :
    (grpcTrailers enc userTrailer (some (.coded e))).vals k = userTrailer.vals k ++ e.md.vals k := by
  simp only [grpcTrailers, toWire, wireOf]
  rw [Header.vals_set_ne _ _ _ _ hk.2.2, Header.vals_set_ne _ _ _ _ hk.2.1, Header.vals_set_ne _ _ _ _ hk.1]
  rw [vals_mergeHeaders _ _ hM, vals_mergeHeaders _ _ hT]
  simp [Header.vals]

/-! ### Connect unary: JSON body under the code's HTTP status -/

/-- **unary_connect_status**: a failed unary Connect call is answered with the code's HTTP
    status, which is never 2xx. -/
theorem unary_connect_status (c : HConn) (p : HProg) (e : GoErr) (hr : p.result = some e) :
    (serveConnectUnary c p).status = codeToHTTP (wireOf (toWire e)).1.code ∧
    400 ≤ (serveConnectUnary c p).status ∧ (serveConnectUnary c p).status ≤ 599 ∧
    (serveConnectUnary c p).body = [.errorJSON (wireOf (toWire e)).1] := by
  simp only [serveConnectUnary, hr]
  exact ⟨trivial, (C18.code_http_range _).1, (C18.code_http_range _).2, trivial⟩

/-- **connect_unary_error_decoded**: a non-200 response whose body is a well-formed error with a
    non-zero code is surfaced with exactly that code, message and details, and metadata made of
    the response headers and (un-prefixed) trailers. -/
theorem connect_unary_error_decoded (cfg : CCfg) (stext : Bytes) (r : Resp) (w : WireErr)
    (hs : r.status ≠ 200) (hb : r.body = [.errorJSON w]) (h0 : w.code ≠ 0)
    (henc : encodingKnown cfg (r.header.get Gen.hdrConnectUnaryEncoding) = true) :
    (clientConnectUnary cfg stext r).result =
      some { code := w.code, msg := w.msg, details := w.details,
             md := mergeHeaders (mergeHeaders [] (splitTrailerPrefixed r.header).1) (splitTrailerPrefixed r.header).2 } := by
  simp only [clientConnectUnary, henc, Bool.not_true, Bool.false_eq_true, if_false, hs, ne_eq, not_false_eq_true, if_true, hb,
    fixCode, h0]

/-! ### Connect streaming: the end-of-stream envelope -/

theorem recvItems_plain (cfg : CCfg) (enc : Option Compressor) (hmax : cfg.max = 0) (sends : List Bytes)
    (rest : List BodyItem) :
    recvItems cfg enc (sends.map (BodyItem.frame 0) ++ rest) =
      (sends ++ (recvItems cfg enc rest).1, (recvItems cfg enc rest).2) := by
  induction sends with
  | nil => simp
  | cons m ms ih =>
    simp only [List.map_cons, List.cons_append, recvItems]
    have h00 : ((0 : UInt8).toNat = 0 ∨ (0 : UInt8).toNat = 1) := Or.inl rfl
    have h01 : ¬ ((0 : UInt8).toNat = 1) := by decide
    simp only [h00, if_true, hmax, h01, if_false, ih]
    by_cases hl : m.length = 0
    · have : m = [] := List.eq_nil_of_length_eq_zero hl
      subst this; simp
    · have hgt : ¬ ((0 : Nat) > 0 ∧ m.length > 0) := by omega
      simp [hl, hgt]

/-- **connect_stream_error_roundtrip**: a streaming Connect handler (no response compression)
    sends `msgs` and then fails with error `e` (non-zero code): the client receives exactly
    `msgs`, then an error with the same code, message and details — never success. -/
theorem connect_stream_error_roundtrip (c : HConn) (cfg : CCfg) (p : HProg) (e : CErr)
    (hproto : cfg.proto = .connect) (hmax : cfg.max = 0) (hpool : c.pool = none)
    (hr : p.result = some (.coded e)) (h0 : e.code ≠ 0)
    (henc : (serveConnectStream c p).header.get Gen.hdrConnectStreamEncoding = []) :
    (clientConnectStream cfg (serveConnectStream c p)).msgs = p.sends ∧
    ∃ md, (clientConnectStream cfg (serveConnectStream c p)).result =
      some { code := e.code, msg := e.msg, details := e.details, md := md } := by
  have hstatus : (serveConnectStream c p).status = 200 := rfl
  have hbody : (serveConnectStream c p).body =
      p.sends.map (BodyItem.frame 0) ++ [.endStream (some { code := e.code, msg := e.msg, details := e.details })
        (mergeHeaders p.trailer e.md)] := by
    simp only [serveConnectStream, hr, toWire, wireOf]
    congr 1
    apply List.map_congr_left
    intro m _
    simp [msgFrame, hpool]
  simp only [clientConnectStream, hstatus, ne_eq, not_true_eq_false, if_false, henc]
  have hk : encodingKnown cfg [] = true := by simp [encodingKnown]
  simp only [hk, Bool.not_true, Bool.false_eq_true, if_false, hbody, recvItems_plain cfg _ hmax]
  simp only [recvItems, hproto, if_true, List.append_nil, fixCode, h0, if_false]
  exact ⟨trivial, _, rfl⟩

/-- **never_success**: in every protocol a handler error yields an error item on the wire —
    the end-of-stream envelope carries it (Connect streaming), the status is non-2xx (Connect
    unary, above), the trailers carry a non-OK status (gRPC, `grpc_error_roundtrip`). -/
theorem connect_stream_error_on_wire (c : HConn) (p : HProg) (e : GoErr) (hr : p.result = some e) :
    ∃ md, (serveConnectStream c p).body.getLast? = some (.endStream (some (wireOf (toWire e)).1) md) := by
  simp only [serveConnectStream, hr]
  exact ⟨mergeHeaders p.trailer (wireOf (toWire e)).2, by simp⟩

/-- context errors returned by a handler are classified on the wire (C15, handler half) -/
theorem handler_ctx_error_classification :
    (wireOf (toWire .canceled)).1.code = codeCanceled ∧ (wireOf (toWire .deadline)).1.code = codeDeadlineExceeded := by
  decide

/-! non-vacuity -/
example : ∃ e : CErr, e.code ≠ 0 ∧ e.code < 2 ^ 32 := ⟨{ code := 5, msg := [37, 0], details := [[1]], md := [] }, by decide, by decide⟩

end ConnectModel.C02
