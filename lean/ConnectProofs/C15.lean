/-
  C15 — Cancellation and expiry surface as canceled / deadline_exceeded (error-code flow).
  The instants at which a context error can enter the library are explicit sources
  (`ctx.Err()` checks in Write/Read, the `Do` error, the body-read error); the theorems follow
  each through the layers that wrap it. That the transport reports cancellation to those
  sources, and cancels the handler's context, is net/http + context (sampled by the harness).
-/
import ConnectModel.ErrorFlow
import ConnectModel.HandlerSide
import ConnectModel.Proto
import ConnectProofs.C02

namespace ConnectModel.C15
open ConnectModel

/-- an error whose chain ends in a context error is not an EOF and names no RST -/
theorem isCtx_not_isEOF (k : CtxKind) : ∀ e : GoError, e.isCtx k = true → e.isEOF = false
  | .ctx _, _ => rfl
  | .eof, h => by simp [GoError.isCtx] at h
  | .unexpectedEOF, h => by simp [GoError.isCtx] at h
  | .rst _, h => by simp [GoError.isCtx] at h
  | .opaque, h => by simp [GoError.isCtx] at h
  | .wrap i, h => by simp only [GoError.isCtx] at h; simp only [GoError.isEOF]; exact isCtx_not_isEOF k i h
  | .coded _ i, h => by simp only [GoError.isCtx] at h; simp only [GoError.isEOF]; exact isCtx_not_isEOF k i h

theorem isCtx_unique : ∀ e : GoError, e.isCtx .canceled = true → e.isCtx .deadline = false
  | .ctx k, h => by cases k <;> simp [GoError.isCtx] at h ⊢
  | .eof, h => by simp [GoError.isCtx] at h
  | .unexpectedEOF, h => by simp [GoError.isCtx] at h
  | .rst _, h => by simp [GoError.isCtx] at h
  | .opaque, h => by simp [GoError.isCtx] at h
  | .wrap i, h => by simp only [GoError.isCtx] at h ⊢; exact isCtx_unique i h
  | .coded _ i, h => by simp only [GoError.isCtx] at h ⊢; exact isCtx_unique i h

theorem isCtx_no_rst (k : CtxKind) (e : GoError) (h : e.isCtx k = true) : e.rstName = none := by
  cases e with
  | rst n => simp [GoError.isCtx] at h
  | wrap i => cases i <;> simp [GoError.rstName, GoError.isCtx] at h ⊢
  | _ => rfl

/-- **ctx_error_coded**: an uncoded error caused by cancellation / expiry (however deeply
    wrapped: `*url.Error`, `%w`) is coded canceled / deadline_exceeded by `wrapIfContextError`. -/
theorem ctx_error_coded (k : CtxKind) (e : GoError) (hk : e.isCtx k = true) (hu : e.asError = none) :
    (wrapIfContextError e).codeOf = ctxCode k := by
  unfold wrapIfContextError
  rw [hu]
  cases k with
  | canceled => simp [hk, GoError.codeOf, GoError.asError, ctxCode]
  | deadline =>
    have hc : e.isCtx .canceled = false := by
      cases hcc : e.isCtx .canceled with
      | false => rfl
      | true => have := isCtx_unique e hcc; rw [hk] at this; cases this
    simp [hk, hc, GoError.codeOf, GoError.asError, ctxCode]

/-- already coded errors are never re-coded (`wrapIfContextError`, `wrapIfUncoded`, `wrapIfRSTError`) -/
theorem coded_errors_keep_their_code (e : GoError) (c : Nat) (h : e.asError = some c) :
    (wrapIfContextError e).codeOf = c ∧ (wrapIfUncoded e).codeOf = c ∧ (wrapIfRSTError e).codeOf = c := by
  have h1 : wrapIfContextError e = e := by simp [wrapIfContextError, h]
  refine ⟨by rw [h1]; simp [GoError.codeOf, h], ?_, by simp [wrapIfRSTError, h, GoError.codeOf]⟩
  simp [wrapIfUncoded, h1, h, GoError.codeOf]

theorem wrapIfRST_ctx (k : CtxKind) (e : GoError) (hk : e.isCtx k = true) : wrapIfRSTError e = e := by
  unfold wrapIfRSTError
  cases e.asError <;> simp [isCtx_no_rst k e hk]

/-- **blocked_receive_ctx_code**: the response body read fails because the context ended (the
    transport reports the raw context error, bare or wrapped) while `Receive` is reading a
    prefix (after any `n` bytes) or a payload: `Receive` fails with canceled /
    deadline_exceeded — not invalid_argument or unknown (fix 7ec8af8). -/
theorem blocked_receive_ctx_code (k : CtxKind) (bodyErr : GoError) (hk : bodyErr.isCtx k = true)
    (hu : bodyErr.asError = none) (n : Nat) :
    (clientReceiveError (envelopePrefixError n (duplexReadError bodyErr))).codeOf = ctxCode k ∧
    (clientReceiveError (envelopePayloadError (duplexReadError bodyErr))).codeOf = ctxCode k := by
  have hr : duplexReadError bodyErr = wrapIfContextError bodyErr := by
    simp [duplexReadError, wrapIfRST_ctx k bodyErr hk]
  have hcode := ctx_error_coded k bodyErr hk hu
  -- the coded wrapper is `coded (ctxCode k) bodyErr`
  have hw : wrapIfContextError bodyErr = .coded (ctxCode k) bodyErr := by
    unfold wrapIfContextError
    rw [hu]
    cases k with
    | canceled => simp [hk, ctxCode]
    | deadline =>
      have hc : bodyErr.isCtx .canceled = false := by
        cases hcc : bodyErr.isCtx .canceled with
        | false => rfl
        | true => have := isCtx_unique bodyErr hcc; rw [hk] at this; cases this
      simp [hk, hc, ctxCode]
  have hne : (GoError.coded (ctxCode k) bodyErr).isEOF = false := by
    simp only [GoError.isEOF]; exact isCtx_not_isEOF k bodyErr hk
  rw [hr, hw]
  constructor
  · simp [envelopePrefixError, hne, GoError.asError, clientReceiveError, GoError.codeOf]
  · simp [envelopePayloadError, GoError.asError, clientReceiveError, hne, GoError.codeOf]

/-- **watched_receive_ctx_code** (F7): the call's context ends while `Receive` is blocked and the
    transport cannot see it (HTTP/2, request side open: the transport is itself blocked reading
    the request pipe). The watcher stores the context error and closes the pipe; *whatever*
    error the body read then returns (closed pipe, stream reset, the context error itself —
    anything but a clean end of body), `Receive` fails with canceled / deadline_exceeded. -/
theorem watched_receive_ctx_code (k : CtxKind) (bodyErr : GoError) (hne : bodyErr.isEOF = false) (n : Nat) :
    let stored := setError none (.ctx k)
    (clientReceiveError (envelopePrefixError n (duplexReadErrorStored stored bodyErr))).codeOf = ctxCode k ∧
    (clientReceiveError (envelopePayloadError (duplexReadErrorStored stored bodyErr))).codeOf = ctxCode k := by
  have hs : setError none (.ctx k) = some (.coded (ctxCode k) (.ctx k)) := by
    cases k <;> simp [setError, wrapIfContextError, GoError.asError, GoError.isCtx, ctxCode]
  simp only [hs, duplexReadErrorStored, hne, Bool.false_eq_true, if_false]
  have hne2 : (GoError.coded (ctxCode k) (.ctx k)).isEOF = false := by simp [GoError.isEOF]
  constructor
  · simp [envelopePrefixError, hne2, GoError.asError, clientReceiveError, GoError.codeOf]
  · simp [envelopePayloadError, GoError.asError, clientReceiveError, hne2, GoError.codeOf]

/-- history: without the stored-error preference (the definition before fix F7) a closed-pipe
    error surfacing from the body read is reported as invalid_argument / unknown -/
theorem watched_receive_fails_on_pinned :
    (clientReceiveError (envelopePrefixError 0 (duplexReadError .opaque))).codeOf = codeInvalidArgument ∧
    (clientReceiveError (envelopePayloadError (duplexReadError .opaque))).codeOf = codeUnknown := by decide

/-- a clean end of the body is still a clean end (the stored error does not mask it here; the
    protocol layer decides what a missing terminator means) -/
theorem stored_error_keeps_eof (stored : Option GoError) : duplexReadErrorStored stored .eof = .eof := by
  simp [duplexReadErrorStored, GoError.isEOF, duplexReadError, wrapIfRSTError, wrapIfContextError, GoError.asError,
    GoError.rstName, GoError.isCtx]

/-- **close_after_ctx_code** (F13): the context ended, the watcher stored its error and closed the
    request pipe; whatever error draining the response body then meets, `CloseResponse` reports
    canceled / deadline_exceeded. -/
theorem close_after_ctx_code (k : CtxKind) (bodyErr : GoError) :
    (clientCloseResponseError (setError none (.ctx k)) bodyErr).codeOf = ctxCode k := by
  have hs : setError none (.ctx k) = some (.coded (ctxCode k) (.ctx k)) := by
    cases k <;> simp [setError, wrapIfContextError, GoError.asError, GoError.isCtx, ctxCode]
  simp [clientCloseResponseError, duplexCloseReadError, hs, wrapIfUncoded, wrapIfContextError, GoError.asError, GoError.codeOf]

/-- history: without the preference the closed-pipe error of the drain comes out as unknown -/
theorem close_after_ctx_fails_on_pinned : (clientCloseResponseError none .opaque).codeOf = codeUnknown := by decide

/-- **request_ctx_code**: `Do` fails because the context ended (typically `*url.Error` wrapping the
    context error): the stored error — what every later operation reports — is canceled /
    deadline_exceeded, not unavailable. -/
theorem request_ctx_code (k : CtxKind) (e : GoError) (hk : e.isCtx k = true) (hu : e.asError = none) :
    (doError e).codeOf = ctxCode k := by
  have hcode := ctx_error_coded k e hk hu
  unfold doError
  have hsome : (wrapIfContextError e).asError = some (ctxCode k) := by
    unfold GoError.codeOf at hcode
    cases h : (wrapIfContextError e).asError with
    | none =>
      -- impossible: wrapIfContextError codes it
      unfold wrapIfContextError at h
      rw [hu] at h
      cases k with
      | canceled => simp [hk, GoError.asError] at h
      | deadline =>
        by_cases hc : e.isCtx .canceled = true
        · simp [hc, GoError.asError] at h
        · simp [hc, hk, GoError.asError] at h
    | some c => rw [h] at hcode; simp at hcode; rw [hcode]
  have := (coded_errors_keep_their_code (wrapIfContextError e) (ctxCode k) hsome).2.2
  simp only
  have has : (wrapIfRSTError (wrapIfContextError e)).asError = some (ctxCode k) := by
    simp [wrapIfRSTError, hsome]
  simp [has, GoError.codeOf]

/-- **stored_error_keeps_code**: the first error is stored with its context classification, so
    every later operation that reads it reports the same code (a second `Receive` after a
    cancelled one, `Receive` after a cancelled `Send`). -/
theorem stored_error_keeps_code (k : CtxKind) (first : GoError) (hk : first.isCtx k = true)
    (hu : first.asError = none) :
    ∃ s, setError none first = some s ∧ s.codeOf = ctxCode k ∧
      (envelopePrefixError 0 s).codeOf = ctxCode k ∧ ∀ later, setError (some s) later = some s := by
  refine ⟨wrapIfContextError first, rfl, ctx_error_coded k first hk hu, ?_, fun _ => rfl⟩
  have hcode := ctx_error_coded k first hk hu
  have hsome : ∃ c, (wrapIfContextError first).asError = some c := by
    unfold wrapIfContextError
    rw [hu]
    by_cases hc : first.isCtx .canceled = true
    · exact ⟨1, by simp [hc, GoError.asError]⟩
    · cases k with
      | canceled => exact absurd hk hc
      | deadline => exact ⟨4, by simp [hc, hk, GoError.asError]⟩
  obtain ⟨c, hc⟩ := hsome
  have hne : (wrapIfContextError first).isEOF = false := by
    unfold wrapIfContextError
    rw [hu]
    have := isCtx_not_isEOF k first hk
    by_cases hcc : first.isCtx .canceled = true
    · simp [hcc, GoError.isEOF, this]
    · by_cases hd : first.isCtx .deadline = true <;> simp [hcc, hd, GoError.isEOF, this]
  simp only [envelopePrefixError, hne, Bool.false_and, Bool.false_eq_true, if_false, hc]
  exact hcode

/-- **only_context_errors_are_classified**: `wrapIfContextError` - the one place where the handler's
    outcome and the client's transport errors are classified as canceled / deadline_exceeded -
    leaves every error alone that is not, by `errors.Is`, one of the two context errors: an
    error that merely *looks* like a timeout (an I/O deadline of the application's own, an error
    wrapping `io.EOF`, an RST) stays what it is, and so does every coded error, `unknown`
    included (its metadata and details travel with it). -/
theorem only_context_errors_are_classified (e : GoError)
    (h : (e.isCtx .canceled = false ∧ e.isCtx .deadline = false) ∨ e.asError.isSome = true) :
    wrapIfContextError e = e := by
  unfold wrapIfContextError
  rcases h with ⟨h1, h2⟩ | h
  · cases ha : e.asError <;> simp [h1, h2]
  · cases ha : e.asError with
    | none => simp [ha] at h
    | some c => rfl

/-- … in particular an Unknown-coded error whose cause is a context error keeps its identity -/
example : wrapIfContextError (.coded codeUnknown (.wrap (.ctx .canceled))) = .coded codeUnknown (.wrap (.ctx .canceled)) := by decide
/-- … and an uncoded error wrapping io.EOF is not classified at all -/
example : (wrapIfUncoded (wrapIfContextError (.wrap .eof))).codeOf = codeUnknown := by decide

/-- **send_ctx_code (prefix write)**: `Send` on a call whose context is done fails at the first
    `Write` (the envelope prefix) with canceled / deadline_exceeded. -/
theorem send_ctx_code_prefix (k : CtxKind) :
    (envelopeWritePrefixError (duplexWriteCtxError k)).codeOf = ctxCode k := by
  cases k <;> decide

/-- **send_ctx_code (payload write)**: … and likewise if the context ends between the prefix
    write and the payload write of one `Send` (fix 1c4dc89). -/
theorem send_ctx_code_payload (k : CtxKind) :
    (envelopeWritePayloadError (duplexWriteCtxError k)).codeOf = ctxCode k := by
  cases k <;> decide

/-- **send_after_response_ended**: whatever the call has stored before - the server's error,
    the clean end of the response, a transport failure - a `Send` issued after the context ended
    reports the context's code, and what is stored stays what it was (a later `Receive` still
    reports the earlier outcome). -/
theorem send_after_response_ended (stored : GoError) (k : CtxKind) :
    (envelopeWritePrefixError (duplexWriteDone (some stored) k).1).codeOf = ctxCode k ∧
    (duplexWriteDone (some stored) k).2 = some stored := by
  refine ⟨?_, rfl⟩
  show (envelopeWritePrefixError (duplexWriteCtxError k)).codeOf = ctxCode k
  exact send_ctx_code_prefix k

/-- … and with nothing stored, the context's error is also what gets stored -/
theorem send_after_ctx_stores (k : CtxKind) :
    ((duplexWriteDone none k).2.map GoError.codeOf) = some (ctxCode k) := by
  cases k <;> decide

/-- **History, F11** — on the pinned tree this was *false*: the coded context error from the
    payload write was re-wrapped as `unknown`. Witness (replayed on the implementation by the
    `cancel-mid-send` scenario through the verif yield points): -/
theorem send_ctx_code_payload_fails_on_pinned :
    (envelopeWritePayloadErrorPinned (duplexWriteCtxError .canceled)).codeOf = codeUnknown := by decide

/-! ### fix F16: the state of the call's context classifies what the transport reports

  `net/http` reports `context.Cause(ctx)` when a request's context ends. For a context made with
  `WithCancelCause` / `WithTimeoutCause` (or a parent of that kind) the cause wraps neither
  `context.Canceled` nor `context.DeadlineExceeded`, so `wrapIfContextError` cannot see it; after
  the fix, `makeRequest` and `Read` also ask the context itself. -/

/-- `wrapIfContextError` on an uncoded error: one of three shapes -/
theorem wrapIfContextError_shape (e : GoError) (hu : e.asError = none) :
    wrapIfContextError e = .coded 1 e ∨ wrapIfContextError e = .coded 4 e ∨
      (wrapIfContextError e = e ∧ e.isCtx .canceled = false ∧ e.isCtx .deadline = false) := by
  unfold wrapIfContextError
  rw [hu]
  by_cases hc : e.isCtx .canceled = true
  · left; simp [hc]
  · by_cases hd : e.isCtx .deadline = true
    · right; left; simp [hc, hd]
    · right; right; simp [hc, hd]

/-- classifying twice is classifying once (`Read` after F16 applies `wrapIfContextError` before
    and after `wrapIfRSTError`) -/
theorem duplexReadError_idem (e : GoError) : duplexReadError (wrapIfContextError e) = duplexReadError e := by
  cases hu : e.asError with
  | some c => simp [wrapIfContextError, hu]
  | none =>
    by_cases hc : e.isCtx .canceled = true
    · have h1 : wrapIfContextError e = .coded 1 e := by simp [wrapIfContextError, hu, hc]
      rw [h1]
      show wrapIfContextError (wrapIfRSTError (GoError.coded 1 e)) = wrapIfContextError (wrapIfRSTError e)
      rw [wrapIfRST_ctx .canceled e hc, h1]
      simp [wrapIfRSTError, wrapIfContextError, GoError.asError]
    · by_cases hd : e.isCtx .deadline = true
      · have h1 : wrapIfContextError e = .coded 4 e := by simp [wrapIfContextError, hu, hc, hd]
        rw [h1]
        show wrapIfContextError (wrapIfRSTError (GoError.coded 4 e)) = wrapIfContextError (wrapIfRSTError e)
        rw [wrapIfRST_ctx .deadline e hd, h1]
        simp [wrapIfRSTError, wrapIfContextError, GoError.asError]
      · have h1 : wrapIfContextError e = e := by simp [wrapIfContextError, hu, hc, hd]
        rw [h1]

/-- **done_context_classifies**: once the call's context has ended, every uncoded transport error
    comes out of `wrapIfContextDone ∘ wrapIfContextError` coded canceled or deadline_exceeded —
    by the error itself when it is a context error, by the context's state otherwise. -/
theorem done_context_classifies (k : CtxKind) (e : GoError) (hu : e.asError = none) :
    let r := wrapIfContextDone (some k) (wrapIfContextError e)
    (r.asError = some 1 ∨ r.asError = some 4) ∧
    ((e.isCtx .canceled = false ∧ e.isCtx .deadline = false) → r.asError = some (ctxCode k)) := by
  rcases wrapIfContextError_shape e hu with h | h | ⟨h, hc, hd⟩
  · rw [h]; simp [wrapIfContextDone, GoError.asError]
    intro hc _
    have : e.isCtx .canceled = true := by
      have := only_context_errors_are_classified e (Or.inl ⟨hc, by assumption⟩)
      rw [h] at this
      exact absurd this (by intro heq; have := congrArg GoError.asError heq; simp [GoError.asError, hu] at this)
    rw [hc] at this; cases this
  · rw [h]; simp [wrapIfContextDone, GoError.asError]
    intro hc hd
    have := only_context_errors_are_classified e (Or.inl ⟨hc, hd⟩)
    rw [h] at this
    exact absurd this (by intro heq; have := congrArg GoError.asError heq; simp [GoError.asError, hu] at this)
  · rw [h]
    cases k <;> simp [wrapIfContextDone, hu, GoError.asError, ctxCode]

/-- while the context is live the fix changes nothing -/
theorem live_context_unchanged (e : GoError) : wrapIfContextDone none e = e := by
  unfold wrapIfContextDone
  cases e.asError <;> rfl

theorem live_request_unchanged (e : GoError) : doErrorDone none e = doError e := by
  simp [doErrorDone, doError, live_context_unchanged]

theorem live_receive_unchanged (stored : Option GoError) (e : GoError) :
    duplexReadErrorDone stored none e = duplexReadErrorStored stored e := by
  simp [duplexReadErrorDone, duplexReadErrorStored, live_context_unchanged, duplexReadError_idem]

/-- **done_request_code** (F16): `Do` fails after the call's context has ended, with *any* uncoded
    error (a `*url.Error` around the context's cause, a closed connection, …): the stored error —
    what the failing operation and every later one report — is canceled or deadline_exceeded,
    never unavailable; and when the error is not itself a context error, it is the code of the
    context's own state. -/
theorem done_request_code (k : CtxKind) (e : GoError) (hu : e.asError = none) :
    ((doErrorDone (some k) e).codeOf = 1 ∨ (doErrorDone (some k) e).codeOf = 4) ∧
    ((e.isCtx .canceled = false ∧ e.isCtx .deadline = false) → (doErrorDone (some k) e).codeOf = ctxCode k) := by
  obtain ⟨h1, h2⟩ := done_context_classifies k e hu
  have key : ∀ c, (wrapIfContextDone (some k) (wrapIfContextError e)).asError = some c →
      (doErrorDone (some k) e).codeOf = c := by
    intro c hc
    have hr : wrapIfRSTError (wrapIfContextDone (some k) (wrapIfContextError e)) =
        wrapIfContextDone (some k) (wrapIfContextError e) := by simp [wrapIfRSTError, hc]
    simp [doErrorDone, hr, hc, GoError.codeOf]
  refine ⟨?_, fun hn => key _ (h2 hn)⟩
  rcases h1 with h | h
  · left; exact key _ h
  · right; exact key _ h

/-- **done_receive_code** (F16): the response body read fails after the call's context has ended,
    with any uncoded error that is not the clean end of the body, and whether or not the context
    watcher has already stored the context's error: `Receive` fails with canceled or
    deadline_exceeded — at a prefix (after any `n` bytes) or inside a payload. -/
theorem done_receive_code (k : CtxKind) (bodyErr : GoError) (hne : bodyErr.isEOF = false)
    (hu : bodyErr.asError = none) (hn : bodyErr.isCtx .canceled = false ∧ bodyErr.isCtx .deadline = false)
    (stored : Option GoError) (hs : stored = none ∨ stored = setError none (.ctx k)) (n : Nat) :
    (clientReceiveError (envelopePrefixError n (duplexReadErrorDone stored (some k) bodyErr))).codeOf = ctxCode k ∧
    (clientReceiveError (envelopePayloadError (duplexReadErrorDone stored (some k) bodyErr))).codeOf = ctxCode k := by
  have hset : setError none (.ctx k) = some (.coded (ctxCode k) (.ctx k)) := by
    cases k <;> simp [setError, wrapIfContextError, GoError.asError, GoError.isCtx, ctxCode]
  have hw : wrapIfContextError bodyErr = bodyErr :=
    only_context_errors_are_classified bodyErr (Or.inl hn)
  have hd : wrapIfContextDone (some k) bodyErr = .coded (ctxCode k) bodyErr := by
    simp [wrapIfContextDone, hu]
  have hread : duplexReadError (GoError.coded (ctxCode k) bodyErr) = .coded (ctxCode k) bodyErr := by
    simp [duplexReadError, wrapIfRSTError, wrapIfContextError, GoError.asError]
  rcases hs with hs | hs
  · subst hs
    simp only [duplexReadErrorDone, hne, Bool.false_eq_true, if_false, hw, hd, hread]
    have hne2 : (GoError.coded (ctxCode k) bodyErr).isEOF = false := by simp [GoError.isEOF, hne]
    constructor
    · simp [envelopePrefixError, hne2, GoError.asError, clientReceiveError, GoError.codeOf]
    · simp [envelopePayloadError, GoError.asError, clientReceiveError, hne2, GoError.codeOf]
  · rw [hs, hset]
    simp only [duplexReadErrorDone, hne, Bool.false_eq_true, if_false]
    have hne2 : (GoError.coded (ctxCode k) (.ctx k)).isEOF = false := by simp [GoError.isEOF]
    constructor
    · simp [envelopePrefixError, hne2, GoError.asError, clientReceiveError, GoError.codeOf]
    · simp [envelopePayloadError, GoError.asError, clientReceiveError, hne2, GoError.codeOf]

/-- **History, F16** — before the fix this was *false*: a cause-carrying context's end reached the
    caller as unavailable (`Do`) or invalid_argument / unknown (body read). Witnesses, replayed on
    the implementation by scenario K17 and the `cflow … done=` operations: -/
theorem done_request_fails_on_pinned : (doError (.wrap .opaque)).codeOf = 14 := by decide

example : (doErrorDone (some .deadline) (.wrap .opaque)).codeOf = 4 := by decide
example : (doErrorDone none (.wrap .opaque)).codeOf = 14 := by decide
example : (clientReceiveError (envelopePrefixError 2 (duplexReadErrorDone none (some .canceled) .opaque))).codeOf = 1 := by decide

/-! ### fix F19: the context ends while an over-limit message is being discarded -/

/-- **discard_ctx_code** (F19): `Receive` has met a message over the read limit and is throwing
    its payload away when the call's context ends; the body read fails (with the context error,
    or — the watcher having stored it — with anything at all, or with any error while the context
    is done): `Receive` reports canceled / deadline_exceeded, on enveloped streams and on unary
    Connect responses alike, not unknown or invalid_argument. -/
theorem discard_ctx_code (k : CtxKind) (r : GoError) (hr : r.asError = some (ctxCode k)) (hne : r.isEOF = false) :
    (clientReceiveError (envelopeDiscardError r)).codeOf = ctxCode k ∧
    (unaryDiscardError r).codeOf = ctxCode k := by
  constructor
  · simp [envelopeDiscardError, hne, hr, clientReceiveError, GoError.codeOf]
  · simp [unaryDiscardError, hr, GoError.codeOf]

/-- … whichever way `duplexHTTPCall.Read` came by the context's code: the error itself … -/
theorem discard_ctx_code_direct (k : CtxKind) (bodyErr : GoError) (hk : bodyErr.isCtx k = true)
    (hu : bodyErr.asError = none) :
    (clientReceiveError (envelopeDiscardError (duplexReadErrorDone none none bodyErr))).codeOf = ctxCode k ∧
    (unaryDiscardError (duplexReadErrorDone none none bodyErr)).codeOf = ctxCode k := by
  have hne := isCtx_not_isEOF k bodyErr hk
  have hw : wrapIfContextError bodyErr = .coded (ctxCode k) bodyErr := by
    unfold wrapIfContextError
    rw [hu]
    cases k with
    | canceled => simp [hk, ctxCode]
    | deadline =>
      have hc : bodyErr.isCtx .canceled = false := by
        cases hcc : bodyErr.isCtx .canceled with
        | false => rfl
        | true => have := isCtx_unique bodyErr hcc; rw [hk] at this; cases this
      simp [hk, hc, ctxCode]
  have hrd : duplexReadErrorDone none none bodyErr = .coded (ctxCode k) bodyErr := by
    simp only [duplexReadErrorDone, hne, Bool.false_eq_true, if_false, hw, live_context_unchanged]
    simp [duplexReadError, wrapIfRSTError, wrapIfContextError, GoError.asError]
  rw [hrd]
  exact discard_ctx_code k _ (by simp [GoError.asError]) (by simp [GoError.isEOF, hne])

/-- … or the stored error of the watcher (F7), whatever the body read then reports -/
theorem discard_ctx_code_watched (k : CtxKind) (bodyErr : GoError) (hne : bodyErr.isEOF = false) (done : Option CtxKind) :
    (clientReceiveError (envelopeDiscardError (duplexReadErrorDone (setError none (.ctx k)) done bodyErr))).codeOf = ctxCode k ∧
    (unaryDiscardError (duplexReadErrorDone (setError none (.ctx k)) done bodyErr)).codeOf = ctxCode k := by
  have hs : setError none (.ctx k) = some (.coded (ctxCode k) (.ctx k)) := by
    cases k <;> simp [setError, wrapIfContextError, GoError.asError, GoError.isCtx, ctxCode]
  have hrd : duplexReadErrorDone (setError none (.ctx k)) done bodyErr = .coded (ctxCode k) (.ctx k) := by
    simp [duplexReadErrorDone, hne, hs]
  rw [hrd]
  exact discard_ctx_code k _ (by simp [GoError.asError]) (by simp [GoError.isEOF])

/-- **History, F19** — before the fix the discard paths re-coded the context's error: -/
theorem discard_ctx_code_fails_on_pinned :
    (clientReceiveError (envelopeDiscardErrorPinned (duplexReadError (.ctx .canceled)))).codeOf = codeUnknown ∧
    (unaryDiscardErrorPinned (duplexReadError (.ctx .canceled))).codeOf = codeInvalidArgument := by decide

/-- a body that simply runs out while an over-limit message is discarded is still "too large" -/
example : (clientReceiveError (envelopeDiscardError .eof)).codeOf = codeInvalidArgument := by decide

/-! ### fixes F25–F27: response validation and `CloseResponse` under a context that has ended -/

/-- **validation_after_context_end** (F25): response validation failed (for a unary Connect call
    that includes reading the error document from the body) and the call's context has ended by
    then: the call's error is the context's, whatever validation made of what it could read. -/
theorem validation_after_context_end (k : CtxKind) (v : GoError) :
    (validationError (some k) v).codeOf = ctxCode k := by
  cases k <;> simp [validationError, wrapIfContextError, GoError.asError, GoError.isCtx, GoError.codeOf, ctxCode]

theorem validation_live_unchanged (v : GoError) : validationError none v = v := rfl

/-- **close_done_code** (F26, F27): `CloseResponse` drains the response; the drain fails after the
    call's context has ended — with the watcher's stored error (the context is watched until the
    drain is over) or without it, with any uncoded error that is not the clean end of the body:
    `CloseResponse` reports canceled / deadline_exceeded. -/
theorem coded_passthrough (c : Nat) (e : GoError) (d : Option CtxKind) :
    wrapIfRSTError (.coded c e) = .coded c e ∧ wrapIfUncoded (.coded c e) = .coded c e ∧
      wrapIfContextDone d (.coded c e) = .coded c e := by
  refine ⟨by simp [wrapIfRSTError, GoError.asError], by simp [wrapIfUncoded, wrapIfContextError, GoError.asError],
    by simp [wrapIfContextDone, GoError.asError]⟩

theorem close_done_code (k : CtxKind) (bodyErr : GoError) (hu : bodyErr.asError = none)
    (hn : bodyErr.isCtx .canceled = false ∧ bodyErr.isCtx .deadline = false)
    (stored : Option GoError) (hs : stored = none ∨ stored = setError none (.ctx k)) :
    (clientCloseResponseErrorDone stored (some k) bodyErr).codeOf = ctxCode k := by
  have hset : setError none (.ctx k) = some (.coded (ctxCode k) (.ctx k)) := by
    cases k <;> simp [setError, wrapIfContextError, GoError.asError, GoError.isCtx, ctxCode]
  rcases hs with hs | hs
  · subst hs
    have hw : wrapIfContextError bodyErr = bodyErr := only_context_errors_are_classified bodyErr (Or.inl hn)
    have hd : wrapIfContextDone (some k) bodyErr = .coded (ctxCode k) bodyErr := by simp [wrapIfContextDone, hu]
    show (wrapIfUncoded (wrapIfRSTError (wrapIfContextDone (some k) (wrapIfContextError bodyErr)))).codeOf = ctxCode k
    rw [hw, hd, (coded_passthrough _ _ none).1, (coded_passthrough _ _ none).2.1]
    simp [GoError.codeOf, GoError.asError]
  · rw [hs, hset]
    show (wrapIfUncoded (GoError.coded (ctxCode k) (.ctx k))).codeOf = ctxCode k
    rw [(coded_passthrough _ _ none).2.1]
    simp [GoError.codeOf, GoError.asError]

/-- … and a drain that fails with the context error itself is classified as before -/
theorem close_ctx_error_code (k : CtxKind) (bodyErr : GoError) (hk : bodyErr.isCtx k = true)
    (hu : bodyErr.asError = none) (done : Option CtxKind) :
    (clientCloseResponseErrorDone none done bodyErr).codeOf = ctxCode k := by
  have hw : wrapIfContextError bodyErr = .coded (ctxCode k) bodyErr := by
    unfold wrapIfContextError
    rw [hu]
    cases k with
    | canceled => simp [hk, ctxCode]
    | deadline =>
      have hc : bodyErr.isCtx .canceled = false := by
        cases hcc : bodyErr.isCtx .canceled with
        | false => rfl
        | true => have := isCtx_unique bodyErr hcc; rw [hk] at this; cases this
      simp [hk, hc, ctxCode]
  show (wrapIfUncoded (wrapIfRSTError (wrapIfContextDone done (wrapIfContextError bodyErr)))).codeOf = ctxCode k
  rw [hw, (coded_passthrough _ _ done).2.2, (coded_passthrough _ _ done).1, (coded_passthrough _ _ done).2.1]
  simp [GoError.codeOf, GoError.asError]

/-- **History, F26/F27** — with the watcher stopped before the drain and no look at the context,
    the cause a cause-carrying context ended with came out of `CloseResponse` as unknown: -/
theorem close_done_fails_on_pinned : (clientCloseResponseError none (.wrap .opaque)).codeOf = codeUnknown := by decide

/-! ### fix F17: the second Receive of a unary call -/

/-- **unary_second_receive_keeps_error** (F17): `receiveUnaryResponse` has its message and asks
    once more, to collect the trailers; if that second `Receive` fails — the context ended between
    the message and the end of the response — the call fails with *that* error (canceled /
    deadline_exceeded, as every error from a conn's `Receive` is coded), not with a fresh
    `unknown`, and the message is not delivered. -/
theorem unary_second_receive_keeps_error (o : ClientObs) (m : Bytes) (e : CErr)
    (hm : o.msgs = [m]) (he : o.result = some e) :
    (unaryWrap o).result = some e ∧ (unaryWrap o).msgs = [] := by
  simp [unaryWrap, hm, he]

/-- with no failure the one message is the call's result, untouched -/
theorem unary_single_message_unchanged (o : ClientObs) (m : Bytes) (hm : o.msgs = [m]) (he : o.result = none) :
    unaryWrap o = o := by
  simp [unaryWrap, hm, he]

/-! ### fix F18: the handler's context over HTTP/1.1

  That the handler's context is cancelled when the client goes away is net/http's doing. Over
  HTTP/1.1 the server watches the connection only once the request body has been read to its end
  (or a response has been started). A handler whose request is a single enveloped message used
  to read just that message; user code then ran with a context that nothing would ever cancel.
  After the fix user code starts only when `Receive` has reported the clean end of the request
  side. (The net/http half is trusted and sampled: scenario K19.) -/

/-- **single_request_read_to_end**: user code of a unary / server-streaming handler runs only
    after the request side has been read to its clean end, and gets the one message it held. -/
theorem single_request_read_to_end (r : List Bytes × HEnd) (v : Bytes) (h : singleRequest r = .inl v) :
    r = ([v], .eof) := by
  obtain ⟨msgs, e⟩ := r
  match msgs, e, h with
  | [], .eof, h => simp [singleRequest] at h
  | [], .fail _, h => simp [singleRequest] at h
  | [w], .eof, h => simp [singleRequest] at h; rw [h]
  | [_], .fail _, h => simp [singleRequest] at h
  | _ :: _ :: _, _, h => simp [singleRequest] at h

/-- on a well-formed request the fix changes nothing … -/
theorem single_request_wellformed_unchanged (v : Bytes) :
    singleRequest ([v], .eof) = singleRequestPinned ([v], .eof) := rfl

/-- … and whatever made the single `Receive` fail before still fails the call with the same code -/
theorem single_request_first_failure_unchanged (e : HEnd) :
    singleRequest ([], e) = singleRequestPinned ([], e) := by
  cases e <;> rfl

/-- **History, F18** — before the fix user code ran with the request side unread: -/
theorem single_request_pinned_runs_early :
    ∃ r v, singleRequestPinned r = .inl v ∧ r ≠ ([v], .eof) :=
  ⟨([[1], [2]], .fail codeInternal), [1], rfl, by decide⟩

/-! non-vacuity: a `*url.Error` wrapping context.DeadlineExceeded -/
example : (doError (.wrap (.ctx .deadline))).codeOf = 4 := by decide
example : (clientReceiveError (envelopePrefixError 3 (duplexReadError (.ctx .canceled)))).codeOf = 1 := by decide

end ConnectModel.C15
