/-
  C19 — Handler panics are converted by WithRecover exactly as configured.
-/
import ConnectModel.Recover
import ConnectProofs.C16

namespace ConnectModel.C19
open ConnectModel

variable {α : Type}

/-- **recover_once**: a panic with any value other than the abort sentinel (including nil) leads
    to exactly one call of the recovery function, with the recovered value, and the wrapper
    returns what that function produced. -/
theorem recover_once (v : PanicVal) (h : v ≠ .abort) (onRecovered : PanicVal → α) :
    (recoverFrame (.panic v) onRecovered).handleCalls = [v] ∧
    (∃ a, (recoverFrame (.panic v) onRecovered).outcome = .ret a ∧ a = onRecovered v) := by
  simp [recoverFrame, h]

/-- nil panics are recovered like any other value -/
theorem recover_nil (onRecovered : PanicVal → α) :
    (recoverFrame (.panic .nil) onRecovered).handleCalls = [.nil] :=
  (recover_once .nil (by decide) onRecovered).1

/-- **abort_repanics**: net/http's abort sentinel is re-raised untouched; the recovery function
    is not called. -/
theorem abort_repanics (onRecovered : PanicVal → α) :
    (recoverFrame (.panic .abort) onRecovered).handleCalls = [] ∧
    (match (recoverFrame (.panic .abort) onRecovered).outcome with
      | .panic v => v = .abort | .ret _ => False) := by
  simp [recoverFrame]

/-- **no_panic_transparent**: calls that do not panic are unaffected. -/
theorem no_panic_transparent (a : α) (onRecovered : PanicVal → α) :
    (recoverFrame (.ret a) onRecovered).handleCalls = [] ∧
    (match (recoverFrame (.ret a) onRecovered).outcome with
      | .ret b => b = a | .panic _ => False) := by
  simp [recoverFrame]

/-- **client_only_passthrough**: on the client side the unary wrapper does nothing. -/
theorem client_only_passthrough (body : Outcome α) (onRecovered : PanicVal → α) :
    (recoverWrapUnary true body onRecovered).handleCalls = [] := by
  simp [recoverWrapUnary]

/-- the streaming wrapper and the handler-side unary wrapper are the same frame -/
theorem unary_handler_eq_streaming (body : Outcome α) (onRecovered : PanicVal → α) :
    (recoverWrapUnary false body onRecovered).handleCalls =
      (recoverWrapStreamingHandler body onRecovered).handleCalls := by
  simp [recoverWrapUnary, recoverWrapStreamingHandler]

/-- **exactly_once_or_never**: whatever the body does, the recovery function runs at most once,
    and it runs iff the body panicked with a non-sentinel value. -/
theorem exactly_once_or_never (body : Outcome α) (onRecovered : PanicVal → α) :
    (recoverFrame body onRecovered).handleCalls.length ≤ 1 ∧
    ((recoverFrame body onRecovered).handleCalls.length = 1 ↔
      ∃ v, body = .panic v ∧ v ≠ .abort) := by
  cases body with
  | ret a => simp [recoverFrame]
  | panic v =>
    by_cases h : v = .abort
    · subst h; simp [recoverFrame]
    · simp [recoverFrame, h]

/-- **position**: with interceptors declared `pre ++ [recover] ++ post` (any grouping — C16), the
    recover wrapper sits inside every `pre` interceptor and outside every `post` one, so a panic
    raised in the handler or in `post` reaches it, and `pre` sees the converted error. Stated via
    C16's chain theorem: the nesting is the declaration order. -/
theorem position {F : Type} (w : IcptId → F → F) (pre post : List IcptId) (rec : IcptId) (next : F) :
    wrapConfig w (applyOpts [.interceptors (pre.map some), .interceptors [some rec], .interceptors (post.map some)] none) next
      = pre.foldr w (w rec (post.foldr w next)) := by
  rw [C16.chain_flat]
  simp [Opt.flattenList, Opt.flatten, List.filterMap_map, List.foldr_append]

/-! ### chains in which interceptors panic too (model `runChain`) -/

theorem runChain_recover_snd (h : Nat → PanicVal → α) (id : Nat) (xs : List Layer) (body : Outcome α) :
    (runChain h (.recover id :: xs) body).2 =
      (runChain h xs body).2 ++ (recoverFrame (runChain h xs body).1 (h id)).handleCalls.map (fun v => (id, v)) := rfl

/-- a recover frame around something that returned or re-raised the sentinel calls nobody -/
theorem frame_quiet_of_contained (o : Outcome α) (g : PanicVal → α)
    (ho : (∃ a, o = .ret a) ∨ o = .panic .abort) : (recoverFrame o g).handleCalls = [] := by
  rcases ho with ⟨x, rfl⟩ | rfl <;> simp [recoverFrame]

/-- **chain_contains**: nothing but the abort sentinel ever leaves a recover frame as a panic,
    whatever the layers below it and the handler do. -/
theorem chain_contains (h : Nat → PanicVal → α) (id : Nat) (rest : List Layer) (body : Outcome α) :
    (∃ a, (runChain h (.recover id :: rest) body).1 = .ret a) ∨
    (runChain h (.recover id :: rest) body).1 = .panic .abort := by
  simp only [runChain]
  cases hb : (runChain h rest body).1 with
  | ret a => left; exact ⟨a, by simp [recoverFrame]⟩
  | panic v =>
    by_cases hv : v = .abort
    · right; simp [recoverFrame, hv]
    · left; exact ⟨h id v, by simp [recoverFrame, hv]⟩

/-- without a recover frame nobody is called -/
theorem chain_no_recover_no_calls (h : Nat → PanicVal → α) (ls : List Layer) (body : Outcome α)
    (hn : ∀ l ∈ ls, l.isRecover = false) : (runChain h ls body).2 = [] := by
  induction ls with
  | nil => simp [runChain]
  | cons l rest ih =>
    have ih' := ih (fun x hx => hn x (List.mem_cons_of_mem _ hx))
    cases l with
    | pass => simpa [runChain] using ih'
    | panicBefore v => simp [runChain]
    | panicAfter v =>
      simp only [runChain]
      split <;> simp_all
    | recover id => simpa [Layer.isRecover] using hn (.recover id) (List.mem_cons_self ..)

/-- **chain_pre_transparent**: interceptors declared before the recover frame that only pass the
    call on see - and hand up - exactly what the recover frame produced. -/
theorem chain_pre_transparent (h : Nat → PanicVal → α) (pre rest : List Layer) (body : Outcome α)
    (hp : ∀ l ∈ pre, l.isPass = true) :
    runChain h (pre ++ rest) body = runChain h rest body := by
  induction pre with
  | nil => rfl
  | cons l pre ih =>
    have ih' := ih (fun x hx => hp x (List.mem_cons_of_mem _ hx))
    cases l with
    | pass => simpa [runChain] using ih'
    | panicBefore v => simpa [Layer.isPass] using hp (.panicBefore v) (List.mem_cons_self ..)
    | panicAfter v => simpa [Layer.isPass] using hp (.panicAfter v) (List.mem_cons_self ..)
    | recover id => simpa [Layer.isPass] using hp (.recover id) (List.mem_cons_self ..)

/-- **chain_panic_below_reaches**: a panic raised anywhere below the recover frame - by the
    handler or by an interceptor declared after `WithRecover` - with a value other than the
    sentinel reaches that frame's recovery function exactly once, with that value, and the frame
    returns what the function produced. -/
theorem chain_panic_below_reaches (h : Nat → PanicVal → α) (id : Nat) (post : List Layer)
    (body : Outcome α) (v : PanicVal) (hn : ∀ l ∈ post, l.isRecover = false)
    (hpanic : (runChain h post body).1 = .panic v) (hv : v ≠ .abort) :
    runChain h (.recover id :: post) body = (.ret (h id v), [(id, v)]) := by
  have hc := chain_no_recover_no_calls h post body hn
  simp [runChain, hpanic, hc, recoverFrame, hv]

/-- **chain_nested_outer_quiet**: of two recover frames with only passing interceptors between
    them, the outer one's recovery function is never called: the inner frame has already turned
    the panic into an error (or re-raised the sentinel, which the outer frame re-raises too). -/
theorem chain_nested_outer_quiet (h : Nat → PanicVal → α) (a b : Nat) (mid rest : List Layer)
    (body : Outcome α) (hm : ∀ l ∈ mid, l.isPass = true) :
    (runChain h (.recover a :: (mid ++ .recover b :: rest)) body).2 =
      (runChain h (.recover b :: rest) body).2 := by
  have ht := chain_pre_transparent h mid (.recover b :: rest) body hm
  rw [runChain_recover_snd h a, ht, frame_quiet_of_contained _ _ (chain_contains h b rest body)]
  simp

/-- every recovery call is made by a frame of the chain, and there are no more calls than frames -/
theorem chain_calls_le_frames (h : Nat → PanicVal → α) (ls : List Layer) (body : Outcome α) :
    (runChain h ls body).2.length ≤ (ls.filter Layer.isRecover).length := by
  induction ls with
  | nil => simp [runChain]
  | cons l rest ih =>
    cases l with
    | pass => simpa [runChain, Layer.isRecover] using ih
    | panicBefore v => simp [runChain]
    | panicAfter v =>
      simp only [runChain]
      split <;> (rename_i heq; rw [heq] at ih; simpa [Layer.isRecover] using ih)
    | recover id =>
      have h1 := (exactly_once_or_never (runChain h rest body).1 (h id)).1
      have h2 : ((Layer.recover id :: rest).filter Layer.isRecover).length
          = (rest.filter Layer.isRecover).length + 1 := by
        rw [List.filter_cons_of_pos (by rfl)]; rfl
      rw [runChain_recover_snd]
      simp only [List.length_append, List.length_map]
      omega

/-- **chain_abort_passes_all**: the sentinel raised by the handler leaves a chain of passing
    interceptors and recover frames untouched, and nobody's recovery function runs. -/
theorem chain_abort_passes_all (h : Nat → PanicVal → α) (ls : List Layer)
    (hl : ∀ l ∈ ls, l.isPass = true ∨ l.isRecover = true) :
    runChain h ls (.panic .abort) = (.panic .abort, []) := by
  induction ls with
  | nil => rfl
  | cons l rest ih =>
    have ih' := ih (fun x hx => hl x (List.mem_cons_of_mem _ hx))
    cases l with
    | pass => simpa [runChain] using ih'
    | panicBefore v => simpa [Layer.isPass, Layer.isRecover] using hl (.panicBefore v) (List.mem_cons_self ..)
    | panicAfter v => simpa [Layer.isPass, Layer.isRecover] using hl (.panicAfter v) (List.mem_cons_self ..)
    | recover id => simp [runChain, ih', recoverFrame]

/-- a panic of an interceptor declared *before* `WithRecover` is not that frame's business -/
theorem chain_panic_above_escapes (h : Nat → PanicVal → α) (v : PanicVal) (rest : List Layer)
    (body : Outcome α) : runChain h (.panicBefore v :: rest) body = (.panic v, []) := rfl

/-! non-vacuity: an interceptor below the frame panics after the handler returned; the outer
    interceptor panics after the frame returned and a second, outer frame deals with that -/
example : runChain (α := Nat) (fun id _ => 90 + id) [.recover 1, .panicAfter (.other 5), .recover 2, .pass, .panicAfter .nil] (.ret 0)
    = (.ret 91, [(2, .nil), (1, .other 5)]) := by
  simp [runChain, recoverFrame]

/-! non-vacuity -/
example : (recoverFrame (α := Nat) (.panic (.other 7)) (fun _ => 99)).handleCalls = [.other 7] := by decide

end ConnectModel.C19
