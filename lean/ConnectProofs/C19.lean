/-
  C19 — Handler panics are converted by WithRecover exactly as configured.
-/
import ConnectModel.Recover
import ConnectProofs.C16

namespace ConnectModel.C19
open ConnectModel

variable {α : Type}

/-- **recover_once**: a panic with any value other than the abort sentinel (including nil) leads
    to exactly one call of the recovery function, with the recovered value, and the wrapper
    returns what that function produced. -/
theorem recover_once (v : PanicVal) (h : v ≠ .abort) (onRecovered : PanicVal → α) :
    (recoverFrame (.panic v) onRecovered).handleCalls = [v] ∧
    (∃ a, (recoverFrame (.panic v) onRecovered).outcome = .ret a ∧ a = onRecovered v) := by
  simp [recoverFrame, h]

/-- nil panics are recovered like any other value -/
theorem recover_nil (onRecovered : PanicVal → α) :
    (recoverFrame (.panic .nil) onRecovered).handleCalls = [.nil] :=
  (recover_once .nil (by decide) onRecovered).1

/-- **abort_repanics**: net/http's abort sentinel is re-raised untouched; the recovery function
    is not called. -/
theorem abort_repanics (onRecovered : PanicVal → α) :
    (recoverFrame (.panic .abort) onRecovered).handleCalls = [] ∧
    (match (recoverFrame (.panic .abort) onRecovered).outcome with
      | .panic v => v = .abort | .ret _ => False) := by
  simp [recoverFrame]

/-- **no_panic_transparent**: calls that do not panic are unaffected. -/
theorem no_panic_transparent (a : α) (onRecovered : PanicVal → α) :
    (recoverFrame (.ret a) onRecovered).handleCalls = [] ∧
    (match (recoverFrame (.ret a) onRecovered).outcome with
      | .ret b => b = a | .panic _ => False) := by
  simp [recoverFrame]

/-- **client_only_passthrough**: on the client side the unary wrapper does nothing. -/
theorem client_only_passthrough (body : Outcome α) (onRecovered : PanicVal → α) :
    (recoverWrapUnary true body onRecovered).handleCalls = [] := by
  simp [recoverWrapUnary]

/-- the streaming wrapper and the handler-side unary wrapper are the same frame -/
theorem unary_handler_eq_streaming (body : Outcome α) (onRecovered : PanicVal → α) :
    (recoverWrapUnary false body onRecovered).handleCalls =
      (recoverWrapStreamingHandler body onRecovered).handleCalls := by
  simp [recoverWrapUnary, recoverWrapStreamingHandler]

/-- **exactly_once_or_never**: whatever the body does, the recovery function runs at most once,
    and it runs iff the body panicked with a non-sentinel value. -/
theorem exactly_once_or_never (body : Outcome α) (onRecovered : PanicVal → α) :
    (recoverFrame body onRecovered).handleCalls.length ≤ 1 ∧
    ((recoverFrame body onRecovered).handleCalls.length = 1 ↔
      ∃ v, body = .panic v ∧ v ≠ .abort) := by
  cases body with
  | ret a => simp [recoverFrame]
  | panic v =>
    by_cases h : v = .abort
    · subst h; simp [recoverFrame]
    · simp [recoverFrame, h]

/-- **position**: with interceptors declared `pre ++ [recover] ++ post` (any grouping — C16), the
    recover wrapper sits inside every `pre` interceptor and outside every `post` one, so a panic
    raised in the handler or in `post` reaches it, and `pre` sees the converted error. Stated via
    C16's chain theorem: the nesting is the declaration order. -/
theorem position {F : Type} (w : IcptId → F → F) (pre post : List IcptId) (rec : IcptId) (next : F) :
    wrapConfig w (applyOpts [.interceptors (pre.map some), .interceptors [some rec], .interceptors (post.map some)] none) next
      = pre.foldr w (w rec (post.foldr w next)) := by
  rw [C16.chain_flat]
  simp [Opt.flattenList, Opt.flatten, List.filterMap_map, List.foldr_append]

/-! non-vacuity -/
example : (recoverFrame (α := Nat) (.panic (.other 7)) (fun _ => 99)).handleCalls = [.other 7] := by decide

end ConnectModel.C19
