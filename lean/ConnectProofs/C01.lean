/-
  C01 — Every message sent is received intact, in order, exactly once (envelope level).

  Writer: `envelopeWriter.Marshal` per message (any codec, any compression pool, any
  `compressMinBytes`). Reader: `envelopeReader.Unmarshal` in a loop with a *fresh* message per
  call (the typed stream wrappers after the fix: property fixed in commit 1fa5422). Transport:
  any segmentation (C03).
-/
import ConnectModel.Envelope
import ConnectModel.Proto
import ConnectProofs.Lemmas.Envelope
import ConnectProofs.C03

namespace ConnectModel.C01
open ConnectModel

/-- what a codec must satisfy (proto/protojson do; sampled by the harness) -/
structure CodecLaws {Val : Type} (cd : Codec Val) (zero : Val) : Prop where
  roundtrip : ∀ v, cd.unmarshal (cd.marshal v) = some v
  zero_of_empty : ∀ v, cd.marshal v = [] → v = zero     -- only the zero value has the empty encoding

/-- what a compression algorithm must satisfy -/
structure CompLaws (c : Compressor) : Prop where
  roundtrip : ∀ b, c.decompress (c.compress b) = { out := b, clean := true }
  nonempty : ∀ b, c.compress b = [] → b = []

/-- the value the application ends up with: the zero-length shortcut leaves the fresh message
    at its zero value -/
def yieldValue {Val : Type} (zero : Val) : Yield Val → Option Val
  | .msg (some v) => some v
  | .msg none => some zero
  | _ => none

/-- the bytes that go into the envelope for a message -/
def wirePayload {Val : Type} (w : WriterCfg Val) (v : Val) : Bytes :=
  match w.pool with
  | none => w.codec.marshal v
  | some c => if ((w.codec.marshal v).length : Int) < w.minBytes then w.codec.marshal v else c.compress (w.codec.marshal v)

/-- sizes the reader is configured to accept (`max = 0`: no limit) and that fit the prefix -/
def Fits {Val : Type} (w : WriterCfg Val) (max : Nat) (v : Val) : Prop :=
  (wirePayload w v).length < 2 ^ 32 ∧
  (max = 0 ∨ ((wirePayload w v).length ≤ max ∧ (w.codec.marshal v).length ≤ max))

theorem flag_or : UInt8.ofNat ((0 : UInt8).toNat ||| Gen.flagCompressed) = 1 := by decide

/-- one message: write it, read it back (followed by arbitrary further bytes) -/
theorem unmarshal_marshal {Val : Type} (w : WriterCfg Val) (rcfg : ReaderCfg Val) (zero : Val)
    (hcodec : rcfg.codec = w.codec) (hpool : rcfg.pool = w.pool)
    (hc : CodecLaws w.codec zero) (hz : ∀ c, w.pool = some c → CompLaws c)
    (v : Val) (rest : Bytes) (tail : RErr) (hfit : Fits w rcfg.max v) :
    ∃ y buffered, (envUnmarshal rcfg).run takeExact { flat := envMarshal w v ++ rest, tail := tail } =
        ({ outcome := .msg y, buffered := buffered }, { flat := rest, tail := tail }) ∧
      yieldValue zero (.msg y) = some v := by
  obtain ⟨hlen, hmax⟩ := hfit
  unfold envUnmarshal
  rw [Prog.run_bind]
  unfold envMarshal envWrite
  unfold wirePayload at hlen hmax
  cases hp : w.pool with
  | none =>
    simp only [hp] at hlen hmax ⊢
    rw [envRead_frame rcfg.max 0 _ rest tail hlen (by rcases hmax with h | h; exact Or.inl h; exact Or.inr h.1)]
    simp only [Prog.run, unmarshalFrame]
    by_cases h0 : (w.codec.marshal v).length = 0
    · have hnil : w.codec.marshal v = [] := List.eq_nil_of_length_eq_zero h0
      have hcond : (((0:UInt8).toNat = 0 ∨ (0:UInt8).toNat = Gen.flagCompressed) ∧ (w.codec.marshal v).length = 0) := ⟨Or.inl rfl, h0⟩
      simp only [hcond, and_self, if_true]
      exact ⟨none, _, rfl, by simp [yieldValue, hc.zero_of_empty v hnil]⟩
    · have hne : ¬ (((0:UInt8).toNat = 0 ∨ (0:UInt8).toNat = Gen.flagCompressed) ∧ (w.codec.marshal v).length = 0) := by
        intro h; exact h0 h.2
      have hnc : ¬ ((w.codec.marshal v).length > 0 ∧ isCompressed 0 = true) := by
        intro h; exact absurd h.2 (by decide)
      have hns : ¬ ((0:UInt8).toNat ≠ 0 ∧ (0:UInt8).toNat ≠ Gen.flagCompressed) := by decide
      simp only [hne, hnc, hns, if_false, hcodec, hc.roundtrip]
      exact ⟨some v, _, rfl, rfl⟩
  | some c =>
    have hlaws := hz c hp
    simp only [hp] at hlen hmax ⊢
    have hnc0 : isCompressed 0 = false := by decide
    simp only [hnc0, Bool.false_eq_true, false_or]
    by_cases hmin : ((w.codec.marshal v).length : Int) < w.minBytes
    · -- below the threshold: sent uncompressed
      simp only [hmin, if_true] at hlen hmax ⊢
      rw [envRead_frame rcfg.max 0 _ rest tail hlen (by rcases hmax with h | h; exact Or.inl h; exact Or.inr h.1)]
      simp only [Prog.run, unmarshalFrame]
      by_cases h0 : (w.codec.marshal v).length = 0
      · have hnil : w.codec.marshal v = [] := List.eq_nil_of_length_eq_zero h0
        have hcond : (((0:UInt8).toNat = 0 ∨ (0:UInt8).toNat = Gen.flagCompressed) ∧ (w.codec.marshal v).length = 0) := ⟨Or.inl rfl, h0⟩
        simp only [hcond, and_self, if_true]
        exact ⟨none, _, rfl, by simp [yieldValue, hc.zero_of_empty v hnil]⟩
      · have hne : ¬ (((0:UInt8).toNat = 0 ∨ (0:UInt8).toNat = Gen.flagCompressed) ∧ (w.codec.marshal v).length = 0) := by
          intro h; exact h0 h.2
        have hnc : ¬ ((w.codec.marshal v).length > 0 ∧ isCompressed 0 = true) := by
          intro h; exact absurd h.2 (by decide)
        have hns : ¬ ((0:UInt8).toNat ≠ 0 ∧ (0:UInt8).toNat ≠ Gen.flagCompressed) := by decide
        simp only [hne, hnc, hns, if_false, hcodec, hc.roundtrip]
        exact ⟨some v, _, rfl, rfl⟩
    · -- compressed
      simp only [hmin, if_false, flag_or] at hlen hmax ⊢
      rw [envRead_frame rcfg.max 1 _ rest tail hlen (by rcases hmax with h | h; exact Or.inl h; exact Or.inr h.1)]
      simp only [Prog.run, unmarshalFrame]
      by_cases h0 : (c.compress (w.codec.marshal v)).length = 0
      · have hznil : c.compress (w.codec.marshal v) = [] := List.eq_nil_of_length_eq_zero h0
        have hnil := hlaws.nonempty _ hznil
        have hcond : (((1:UInt8).toNat = 0 ∨ (1:UInt8).toNat = Gen.flagCompressed) ∧ (c.compress (w.codec.marshal v)).length = 0) := ⟨Or.inr (by decide), h0⟩
        simp only [hcond, and_self, if_true]
        exact ⟨none, _, rfl, by simp [yieldValue, hc.zero_of_empty v hnil]⟩
      · have hne : ¬ (((1:UInt8).toNat = 0 ∨ (1:UInt8).toNat = Gen.flagCompressed) ∧ (c.compress (w.codec.marshal v)).length = 0) := by
          intro h; exact h0 h.2
        have hyc : ((c.compress (w.codec.marshal v)).length > 0 ∧ isCompressed 1 = true) := ⟨by omega, by decide⟩
        have hns : ¬ ((1:UInt8).toNat ≠ 0 ∧ (1:UInt8).toNat ≠ Gen.flagCompressed) := by decide
        have hdec : decompressLimited c rcfg.max (c.compress (w.codec.marshal v)) =
            (.ok (w.codec.marshal v), (w.codec.marshal v).length) := by
          unfold decompressLimited
          simp only [hlaws.roundtrip]
          rcases hmax with hm | hm
          · simp [hm]
          · have : ¬ (w.codec.marshal v).length ≥ rcfg.max + 1 := by omega
            by_cases hpos : rcfg.max > 0 <;> simp [hpos, this]
        simp only [hne, hyc, and_self, if_true, if_false, hpool, hp, hdec, hns, hcodec, hc.roundtrip]
        exact ⟨some v, _, rfl, rfl⟩

/-- **recvAll_prefix**: receiving from `wire(msgs) ++ rest` yields the messages and then
    continues exactly like receiving from `rest` (any continuation, any ending). -/
theorem recvAll_prefix {Val : Type} (w : WriterCfg Val) (rcfg : ReaderCfg Val) (zero : Val)
    (hcodec : rcfg.codec = w.codec) (hpool : rcfg.pool = w.pool)
    (hc : CodecLaws w.codec zero) (hz : ∀ c, w.pool = some c → CompLaws c)
    (fuel : Nat) (rest : Bytes) (tail : RErr) :
    ∀ (msgs : List Val), (∀ v ∈ msgs, Fits w rcfg.max v) →
      ∃ ys peak, (recvAll rcfg (msgs.length + fuel)).run takeExact
          { flat := (msgs.map (envMarshal w)).flatten ++ rest, tail := tail } =
          ((ys ++ ((recvAll rcfg fuel).run takeExact { flat := rest, tail := tail }).1.1, peak),
            ((recvAll rcfg fuel).run takeExact { flat := rest, tail := tail }).2) ∧
        ys.length = msgs.length ∧
        ys.map (yieldValue zero) = msgs.map some := by
  intro msgs
  induction msgs with
  | nil =>
    intro _
    exact ⟨[], ((recvAll rcfg fuel).run takeExact { flat := rest, tail := tail }).1.2, by simp, rfl, rfl⟩
  | cons v vs ih =>
    intro hfit
    obtain ⟨ys, peak, hrun, hlen, hvals⟩ := ih (fun x hx => hfit x (List.mem_cons_of_mem _ hx))
    obtain ⟨y, buffered, hstep, hy⟩ := unmarshal_marshal w rcfg zero hcodec hpool hc hz v
      ((vs.map (envMarshal w)).flatten ++ rest) tail (hfit v (by simp))
    refine ⟨.msg y :: ys, Nat.max buffered peak, ?_, by simp [hlen], ?_⟩
    · simp only [List.length_cons, List.map_cons, List.flatten_cons, List.append_assoc]
      rw [show vs.length + 1 + fuel = (vs.length + fuel) + 1 by omega, recvAll, Prog.run_bind, hstep]
      simp only
      rw [Prog.run_bind, hrun]
      simp [Prog.run]
    · simp only [List.map_cons, hy, hvals]

/-- **stream_roundtrip** (specification view): the messages the receiving side yields are the
    messages the sending side passed in — same count, order and content, zero-valued (empty
    encoding) messages anywhere — followed by the clean end of stream. -/
theorem stream_roundtrip_flat {Val : Type} (w : WriterCfg Val) (rcfg : ReaderCfg Val) (zero : Val)
    (hcodec : rcfg.codec = w.codec) (hpool : rcfg.pool = w.pool)
    (hc : CodecLaws w.codec zero) (hz : ∀ c, w.pool = some c → CompLaws c)
    (msgs : List Val) (hfit : ∀ v ∈ msgs, Fits w rcfg.max v) :
      ∃ ys peak, (recvAll rcfg (msgs.length + 1)).run takeExact
          { flat := (msgs.map (envMarshal w)).flatten, tail := .eof } =
          ((ys, peak), { flat := [], tail := .eof }) ∧
        ys.length = msgs.length + 1 ∧
        (ys.take msgs.length).map (yieldValue zero) = msgs.map some ∧
        ys.getLast? = some (.fail { code := codeUnknown, wrapsEOF := true }) := by
  obtain ⟨ys, peak, hrun, hlen, hvals⟩ := recvAll_prefix w rcfg zero hcodec hpool hc hz 1 [] .eof msgs hfit
  have hend : (recvAll rcfg 1).run takeExact { flat := [], tail := .eof } =
      (([.fail { code := codeUnknown, wrapsEOF := true }], 0), { flat := [], tail := .eof }) := by
    rw [recvAll, Prog.run_bind]
    unfold envUnmarshal
    rw [Prog.run_bind, envRead_eof]
    simp [Prog.run, unmarshalFrame]
  rw [hend, List.append_nil] at hrun
  refine ⟨ys ++ [.fail { code := codeUnknown, wrapsEOF := true }], peak, hrun, by simp [hlen], ?_, by simp⟩
  rw [← hlen, List.take_left']
  · exact hvals
  · rfl

/-- **stream_roundtrip**: the same over any transport segmentation (via C03). -/
theorem stream_roundtrip {Val : Type} (w : WriterCfg Val) (rcfg : ReaderCfg Val) (zero : Val)
    (hcodec : rcfg.codec = w.codec) (hpool : rcfg.pool = w.pool)
    (hc : CodecLaws w.codec zero) (hz : ∀ c, w.pool = some c → CompLaws c)
    (msgs : List Val) (hfit : ∀ v ∈ msgs, Fits w rcfg.max v)
    (s : Script) (hwf : s.wf) (hflat : s.flat = (msgs.map (envMarshal w)).flatten) (htail : s.tail = .eof) :
    ∃ ys peak, ((recvAll rcfg (msgs.length + 1)).run readExact s).1 = (ys, peak) ∧
      (ys.take msgs.length).map (yieldValue zero) = msgs.map some ∧
      ys.getLast? = some (.fail { code := codeUnknown, wrapsEOF := true }) := by
  obtain ⟨ys, peak, hrun, _, hvals, hlast⟩ := stream_roundtrip_flat w rcfg zero hcodec hpool hc hz msgs hfit
  refine ⟨ys, peak, ?_, hvals, hlast⟩
  rw [C03.prog_eq_flat _ s hwf]
  have : s.abs = { flat := (msgs.map (envMarshal w)).flatten, tail := .eof } := by
    simp [Script.abs, hflat, htail]
  rw [this, hrun]

/-- **compress_flag_iff**: a frame is flagged compressed exactly when a pool is configured and
    the payload is at least `compressMinBytes` long; it then carries the compressed bytes. -/
theorem compress_flag_iff (pool : Option Compressor) (minBytes : Int) (data : Bytes) :
    envWrite pool minBytes 0 data =
      match pool with
      | some c => if (data.length : Int) < minBytes then envPrefix 0 data.length ++ data
                  else envPrefix 1 (c.compress data).length ++ c.compress data
      | none => envPrefix 0 data.length ++ data := by
  cases pool with
  | none => rfl
  | some c =>
    have : isCompressed 0 = false := by decide
    simp only [envWrite, this, Bool.false_eq_true, false_or, flag_or]

/-! ### a message that could not be encoded is not an empty message (fix F34) -/

/-- **refused_message_never_arrives**: the handler of a unary Connect call is given a body only if
    the client's codec produced one, and then exactly that one. -/
theorem refused_message_never_arrives (encoded : Option Bytes) (b : Bytes)
    (h : unaryRequestOnWire encoded = .body b) : encoded = some b := by
  cases encoded with
  | none => simp [unaryRequestOnWire] at h
  | some x => simp [unaryRequestOnWire] at h; rw [h]

/-- **History, F34**: the pinned tree delivered the empty body - a valid zero message -/
theorem refused_message_arrived_empty_on_pinned : unaryRequestOnWirePinned none = .body [] := rfl

end ConnectModel.C01
