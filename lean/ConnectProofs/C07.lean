/-
  C07 — Whatever a client sends, the handler rejects it safely.
  User code only ever receives messages that decoded successfully (within the limit); every
  class of malformed request the property names maps to the documented error code and never to
  a clean end of the request stream.
-/
import ConnectModel.HandlerSide
import ConnectProofs.Lemmas.Utf8
import ConnectProofs.Lemmas.Envelope
import ConnectProofs.C01
import ConnectProofs.C04
import ConnectProofs.C08
import ConnectProofs.C09

namespace ConnectModel.C07
open ConnectModel

/-! ### user code only sees decoded messages -/

/-- what it means for a yielded value to be legitimately decoded -/
def Decoded (cfg : ReaderCfg Bytes) (v : Option Bytes) : Prop :=
  match v with
  | none => True                                                 -- zero-length message: the zero value
  | some x => ∃ d, cfg.codec.unmarshal d = some x ∧ (0 < cfg.max → d.length ≤ cfg.max)

theorem unmarshalFrame_decoded (cfg : ReaderCfg Bytes) (r : ReadResult)
    (hlim : ∀ fl data, r.outcome = .frame fl data → 0 < cfg.max → data.length ≤ cfg.max)
    (v : Option Bytes) (h : (unmarshalFrame cfg r).outcome = .msg v) : Decoded cfg v := by
  unfold unmarshalFrame at h
  cases ho : r.outcome with
  | fail e => rw [ho] at h; cases h
  | frame fl data =>
    rw [ho] at h
    simp only at h
    split at h
    · cases h; trivial
    · split at h
      · cases hp : cfg.pool with
        | none => rw [hp] at h; cases h
        | some z =>
          rw [hp] at h
          simp only at h
          rcases hd : decompressLimited z cfg.max data with ⟨res, n⟩
          rw [hd] at h
          cases res with
          | fail => cases h
          | ok d =>
            simp only at h
            split at h
            · cases h
            · cases hu : cfg.codec.unmarshal d with
              | none => rw [hu] at h; cases h
              | some x =>
                rw [hu] at h; cases h
                refine ⟨d, hu, fun hm => ?_⟩
                have := (C09.decompress_within_limit z cfg.max hm data).2 d (by rw [hd])
                exact this
      · split at h
        · cases h
        · cases hu : cfg.codec.unmarshal data with
          | none => rw [hu] at h; cases h
          | some x =>
            rw [hu] at h; cases h
            exact ⟨data, hu, fun hm => hlim fl data ho hm⟩

theorem envUnmarshal_decoded (cfg : ReaderCfg Bytes) (src : Src) (v : Option Bytes)
    (h : ((envUnmarshal cfg).run takeExact src).1.outcome = .msg v) : Decoded cfg v := by
  unfold envUnmarshal at h
  rw [Prog.run_bind] at h
  simp only [Prog.run] at h
  apply unmarshalFrame_decoded cfg _ _ v h
  intro fl data ho hm
  exact (C09.read_within_limit cfg.max hm src).2 fl data ho

theorem recvAll_decoded (cfg : ReaderCfg Bytes) : ∀ (fuel : Nat) (src : Src) (v : Option Bytes),
    Yield.msg v ∈ ((recvAll cfg fuel).run takeExact src).1.1 → Decoded cfg v := by
  intro fuel
  induction fuel with
  | zero => intro src v h; simp [recvAll, Prog.run] at h
  | succ fuel ih =>
    intro src v h
    rw [recvAll, Prog.run_bind] at h
    rcases hr : (envUnmarshal cfg).run takeExact src with ⟨r, st⟩
    rw [hr] at h
    simp only at h
    cases ho : r.outcome with
    | msg w =>
      rw [ho] at h
      simp only at h
      rw [Prog.run_bind] at h
      simp only [Prog.run, List.mem_cons] at h
      rcases h with h | h
      · cases h
        exact envUnmarshal_decoded cfg src v (by rw [hr]; exact ho)
      · exact ih st v h
    | special fl d => rw [ho] at h; simp [Prog.run] at h
    | fail e => rw [ho] at h; simp [Prog.run] at h

theorem handlerYields_decoded (p : Proto) (sp : SpecialParsers) (cfg : ReaderCfg Bytes) :
    ∀ (ys : List (Yield Bytes)), (∀ v, Yield.msg v ∈ ys → Decoded cfg v) →
      ∀ x ∈ (handlerYields p sp ys).1, x = [] ∨ ∃ d, cfg.codec.unmarshal d = some x ∧ (0 < cfg.max → d.length ≤ cfg.max) := by
  intro ys
  induction ys with
  | nil => intro _ x hx; simp [handlerYields] at hx
  | cons y rest ih =>
    intro hall x hx
    cases y with
    | msg v =>
      simp only [handlerYields, List.mem_cons] at hx
      rcases hx with hx | hx
      · have := hall v (by simp)
        cases v with
        | none => left; simpa using hx
        | some w => right; simp at hx; subst hx; exact this
      · exact ih (fun v hv => hall v (List.mem_cons_of_mem _ hv)) x hx
    | endSpecial fl d => simp [handlerYields] at hx
    | fail e => simp [handlerYields] at hx

/-- **user_sees_only_decoded**: for *any* request body (any bytes, any ending) and any limit, a
    streaming handler's user code only receives values that the codec produced from a complete
    payload of at most `max` bytes (after decompression), or the zero value for a zero-length
    message. -/
theorem user_sees_only_decoded (p : Proto) (sp : SpecialParsers) (cfg : ReaderCfg Bytes) (src : Src) :
    ∀ x ∈ (handlerRecvStream p sp cfg src).1,
      x = [] ∨ ∃ d, cfg.codec.unmarshal d = some x ∧ (0 < cfg.max → d.length ≤ cfg.max) := by
  unfold handlerRecvStream
  exact handlerYields_decoded p sp cfg _ (fun v hv => recvAll_decoded cfg _ src v hv)

/-! ### the documented codes, class by class -/

/-- compressed flag without a negotiated compression → invalid_argument -/
theorem compressed_without_encoding (cfg : ReaderCfg Bytes) (r : ReadResult) (fl : UInt8) (data : Bytes)
    (ho : r.outcome = .frame fl data) (hlen : data.length > 0) (hc : isCompressed fl = true) (hp : cfg.pool = none) :
    (unmarshalFrame cfg r).outcome = .fail { code := codeInvalidArgument, wrapsEOF := false } := by
  unfold unmarshalFrame
  rw [ho]
  have h1 : ¬ ((fl.toNat = 0 ∨ fl.toNat = Gen.flagCompressed) ∧ data.length = 0) := by omega
  simp only [h1, if_false, hlen, hc, and_self, if_true, hp]

/-- undecodable payload → invalid_argument -/
theorem undecodable_payload (cfg : ReaderCfg Bytes) (r : ReadResult) (data : Bytes)
    (ho : r.outcome = .frame 0 data) (hlen : data.length > 0) (hu : cfg.codec.unmarshal data = none) :
    (unmarshalFrame cfg r).outcome = .fail { code := codeInvalidArgument, wrapsEOF := false } := by
  unfold unmarshalFrame
  rw [ho]
  have h1 : ¬ (((0 : UInt8).toNat = 0 ∨ (0 : UInt8).toNat = Gen.flagCompressed) ∧ data.length = 0) := by omega
  have h2 : ¬ (data.length > 0 ∧ isCompressed 0 = true) := by intro h; exact absurd h.2 (by decide)
  have h3 : ¬ ((0 : UInt8).toNat ≠ 0 ∧ (0 : UInt8).toNat ≠ Gen.flagCompressed) := by decide
  simp only [h1, h2, h3, if_false, hu]

/-- a frame with a flag bit the selected protocol does not define → internal -/
theorem undefined_flags (sp : SpecialParsers) (fl : UInt8) (data : Bytes) :
    specialEnvelope .grpc sp fl data = .fail codeInternal ∧
    (fl.toNat / 2 % 2 = 0 → specialEnvelope .connect sp fl data = .fail codeInternal) ∧
    (fl.toNat / 128 % 2 = 0 → specialEnvelope .grpcWeb sp fl data = .fail codeInternal) := by
  refine ⟨rfl, ?_, ?_⟩ <;> intro h <;> simp [specialEnvelope, h]

/-- incomplete prefix, cleanly ended → invalid_argument, not a clean end -/
theorem incomplete_prefix (max : Nat) (part : Bytes) (hj : 0 < part.length) (hj5 : part.length < 5) :
    ((envRead max).run takeExact { flat := part, tail := .eof }).1.outcome =
      .fail { code := codeInvalidArgument, wrapsEOF := false } := by
  have h5 : takeExact 5 { flat := part, tail := .eof } = (part, some .eof, { flat := [], tail := .eof }) := by
    simp [takeExact]; omega
  have hne : ¬ (part.length = 0) := by omega
  simp only [envRead, Prog.run, h5, RErr.isEOF, Bool.true_and, decide_eq_true_eq, hne, if_false]

/-- short payload, cleanly ended → invalid_argument, not a clean end -/
theorem short_payload (max : Nat) (fl : UInt8) (n : Nat) (got : Bytes) (hn : n < 2 ^ 32) (hgot : got.length < n)
    (hfit : ¬ (max > 0 ∧ n > max)) :
    ((envRead max).run takeExact { flat := envPrefix fl n ++ got, tail := .eof }).1.outcome =
      .fail { code := codeInvalidArgument, wrapsEOF := false } := by
  obtain ⟨a, b, c, d, hbe, hfrom⟩ := fromBe32_be32 n hn
  have hpfx : envPrefix fl n = [fl, a, b, c, d] := by simp [envPrefix, hbe]
  have h5 : takeExact 5 { flat := envPrefix fl n ++ got, tail := .eof } =
      ([fl, a, b, c, d], none, { flat := got, tail := .eof }) := by
    rw [hpfx]; exact takeExact_append' _ _ _ _ rfl
  have hshort : takeExact n { flat := got, tail := .eof } = (got, some .eof, { flat := [], tail := .eof }) := by
    simp [takeExact]; omega
  have hn0 : n ≠ 0 := by omega
  simp only [envRead, Prog.run, h5, envReadBody, hfrom, hn0, if_false, hfit]
  rw [Prog.run_bind]
  have hp : ((payloadLoop 3 n []).run takeExact { flat := got, tail := .eof }).1 =
      .fail { code := codeInvalidArgument, wrapsEOF := false } := by
    simp only [payloadLoop, hn0, if_false, Prog.run, hshort, RErr.isEOF, Bool.not_true, Bool.false_eq_true]
    by_cases hg : got.length = 0
    · simp [hg, Prog.run]
    · have hrem : n - got.length ≠ 0 := by omega
      have hempty : takeExact (n - got.length) { flat := [], tail := RErr.eof } = ([], some .eof, { flat := [], tail := .eof }) := by
        simp [takeExact]; omega
      simp [hg, payloadLoop, hrem, Prog.run, hempty, RErr.isEOF]
  rcases hr : (payloadLoop 3 n []).run takeExact { flat := got, tail := .eof } with ⟨o, st⟩
  rw [hr] at hp
  simp only at hp
  subst hp
  simp [Prog.run]

/-- unknown request compression → unimplemented, before user code; an invalid timeout →
    invalid_argument, before user code -/
theorem precheck_rejections (p : Proto) (reg : List Bytes) (sent accept tmo : Bytes) :
    (sent ≠ [] → sent ≠ Gen.compressionIdentity → sent ∉ reg →
      preCheck p reg sent accept tmo = .reject codeUnimplemented) ∧
    (∀ req resp, negotiate reg sent accept = .ok req resp →
      (match p with | .connect => connectParseTimeout tmo | _ => grpcParseTimeout tmo) = .invalid →
      preCheck p reg sent accept tmo = .reject codeInvalidArgument) := by
  constructor
  · intro h1 h2 h3
    simp [preCheck, C08.negotiate_unknown reg sent accept h1 h2 h3]
  · intro req resp hn ht
    simp only [preCheck, hn]
    cases p <;> simp_all

/-- oversize message → invalid_argument: `C09.oversize_wire_rejected`, `C09.decompressed_oversize_rejected` -/
theorem oversize_ref (max : Nat) (hmax : 0 < max) (fl : UInt8) (data rest : Bytes) (tail : RErr)
    (hlen : data.length < 2 ^ 32) (hbig : data.length > max) :
    ((envRead max).run takeExact { flat := envPrefix fl data.length ++ data ++ rest, tail := tail }).1.outcome =
      .fail { code := codeInvalidArgument, wrapsEOF := false } := by
  rw [C09.oversize_wire_rejected max hmax fl data rest tail hlen hbig]

/-- **malformed_never_clean_end**: none of these failures is reported to user code as a clean
    end of the request stream (`handlerYields` maps only EOF-wrapping errors to `.eof`). -/
theorem fail_not_eof (p : Proto) (sp : SpecialParsers) (code : Nat) (rest : List (Yield Bytes)) :
    (handlerYields p sp (.fail { code := code, wrapsEOF := false } :: rest)).2 = .fail code := by
  simp [handlerYields]

/-! non-vacuity -/
example : (handlerRecvStream .grpc ⟨fun _ => true, fun _ => true⟩
    { codec := { marshal := id, unmarshal := some }, pool := none, max := 0 }
    { flat := [0,0,0,0,1,7, 128,0,0,0,0], tail := .eof }) = ([[7]], .fail codeInternal) := by decide

/-! ### the request direction, positively: what a conforming client wrote is what user code gets -/

theorem be32_length (n : Nat) : (be32 n).length = 4 := by simp [be32]

theorem envMarshal_length_ge {Val : Type} (w : WriterCfg Val) (v : Val) : 5 ≤ (envMarshal w v).length := by
  unfold envMarshal envWrite
  split
  · simp [envPrefix, be32_length]
  · split <;> simp [envPrefix, be32_length]

theorem flatten_length_ge {Val : Type} (w : WriterCfg Val) (msgs : List Val) :
    5 * msgs.length ≤ ((msgs.map (envMarshal w)).flatten).length := by
  induction msgs with
  | nil => simp
  | cons v vs ih =>
    have := envMarshal_length_ge w v
    simp only [List.map_cons, List.flatten_cons, List.length_append, List.length_cons]
    omega

/-- at the end of the body every further `Receive` reports the clean end, whatever fuel is left -/
theorem recvAll_end {Val : Type} (rcfg : ReaderCfg Val) (fuel : Nat) :
    (recvAll rcfg (fuel + 1)).run takeExact { flat := [], tail := .eof } =
      (([.fail { code := codeUnknown, wrapsEOF := true }], 0), { flat := [], tail := .eof }) := by
  rw [recvAll, Prog.run_bind]
  unfold envUnmarshal
  rw [Prog.run_bind, envRead_eof]
  simp [Prog.run, unmarshalFrame]

theorem handlerYields_msgs (p : Proto) (sp : SpecialParsers) :
    ∀ (ys : List (Yield Bytes)) (msgs : List Bytes) (rest : List (Yield Bytes)),
      ys.map (C01.yieldValue []) = msgs.map some →
      handlerYields p sp (ys ++ rest) = (msgs ++ (handlerYields p sp rest).1, (handlerYields p sp rest).2)
  | [], msgs, rest, h => by
    cases msgs with
    | nil => simp
    | cons m ms => simp at h
  | y :: ys, msgs, rest, h => by
    cases msgs with
    | nil => simp at h
    | cons m ms =>
      simp only [List.map_cons, List.cons.injEq] at h
      obtain ⟨hy, hrest⟩ := h
      cases y with
      | msg v =>
        have hv : v.getD [] = m := by
          cases v with
          | none => simpa [C01.yieldValue] using hy
          | some x => simpa [C01.yieldValue] using hy
        simp only [List.cons_append, handlerYields, handlerYields_msgs p sp ys ms rest hrest, hv]
      | endSpecial fl d => simp [C01.yieldValue] at hy
      | fail e => simp [C01.yieldValue] at hy

/-- **handler_receives_what_client_sent**: a streaming handler (any protocol) that calls `Receive`
    until it fails, reading a request body that a conforming client wrote — any messages, any
    agreed compression and threshold, the empty encoding included — hands user code exactly
    those messages, in order, and then the clean end of the request stream. -/
theorem handler_receives_what_client_sent (p : Proto) (sp : SpecialParsers)
    (w : WriterCfg Bytes) (rcfg : ReaderCfg Bytes)
    (hcodec : rcfg.codec = w.codec) (hpool : rcfg.pool = w.pool)
    (hc : C01.CodecLaws w.codec []) (hz : ∀ c, w.pool = some c → C01.CompLaws c)
    (msgs : List Bytes) (hfit : ∀ v ∈ msgs, C01.Fits w rcfg.max v) :
    handlerRecvStream p sp rcfg { flat := (msgs.map (envMarshal w)).flatten, tail := .eof } = (msgs, .eof) := by
  unfold handlerRecvStream
  simp only
  have hlen := flatten_length_ge w msgs
  -- split the handler's fuel into one unit per message plus a positive remainder
  obtain ⟨k, hk⟩ : ∃ k, ((msgs.map (envMarshal w)).flatten).length / 5 + 2 = msgs.length + (k + 1) := by
    refine ⟨((msgs.map (envMarshal w)).flatten).length / 5 + 1 - msgs.length, ?_⟩
    have : msgs.length ≤ ((msgs.map (envMarshal w)).flatten).length / 5 := by omega
    omega
  rw [hk]
  obtain ⟨ys, peak, hrun, _, hvals⟩ := C01.recvAll_prefix w rcfg [] hcodec hpool hc hz (k + 1) [] .eof msgs hfit
  rw [List.append_nil] at hrun
  rw [hrun, recvAll_end]
  simp only
  rw [handlerYields_msgs p sp ys msgs _ hvals]
  simp [handlerYields]
/-- a `Receive` that fails on what is left of the body fails at once, whatever fuel is left -/
theorem recvAll_fail_now {Val : Type} (rcfg : ReaderCfg Val) (fuel : Nat) (partial_ : Bytes) (tail : RErr) (e : EnvErr)
    (hcut : ((envRead rcfg.max).run takeExact { flat := partial_, tail := tail }).1.outcome = .fail e) :
    ((recvAll rcfg (fuel + 1)).run takeExact { flat := partial_, tail := tail }).1.1 = [.fail e] := by
  rw [recvAll, Prog.run_bind]
  unfold envUnmarshal
  rw [Prog.run_bind]
  rcases hr : (envRead rcfg.max).run takeExact { flat := partial_, tail := tail } with ⟨r, st⟩
  rw [hr] at hcut
  simp only at hcut
  simp only [Prog.run, unmarshalFrame, hcut]

/-- **handler_truncated_request**: a conforming client wrote `msgs`, then the request body stops
    strictly inside the next envelope (prefix or payload) or the transport fails there: user code
    gets exactly `msgs` and then the failure — never a clean end of the request stream (C04's
    handler-side clause; `C04.cut_inside_prefix` / `cut_inside_payload` give `wrapsEOF = false`). -/
theorem handler_truncated_request (p : Proto) (sp : SpecialParsers)
    (w : WriterCfg Bytes) (rcfg : ReaderCfg Bytes)
    (hcodec : rcfg.codec = w.codec) (hpool : rcfg.pool = w.pool)
    (hc : C01.CodecLaws w.codec []) (hz : ∀ c, w.pool = some c → C01.CompLaws c)
    (msgs : List Bytes) (hfit : ∀ v ∈ msgs, C01.Fits w rcfg.max v)
    (partial_ : Bytes) (tail : RErr) (e : EnvErr)
    (hcut : ((envRead rcfg.max).run takeExact { flat := partial_, tail := tail }).1.outcome = .fail e)
    (hne : e.wrapsEOF = false) :
    handlerRecvStream p sp rcfg { flat := (msgs.map (envMarshal w)).flatten ++ partial_, tail := tail } =
      (msgs, .fail e.code) := by
  unfold handlerRecvStream
  simp only
  have hlen := flatten_length_ge w msgs
  obtain ⟨k, hk⟩ : ∃ k, ((msgs.map (envMarshal w)).flatten ++ partial_).length / 5 + 2 = msgs.length + (k + 1) := by
    refine ⟨((msgs.map (envMarshal w)).flatten ++ partial_).length / 5 + 1 - msgs.length, ?_⟩
    have : msgs.length ≤ ((msgs.map (envMarshal w)).flatten ++ partial_).length / 5 := by
      simp only [List.length_append]; omega
    omega
  rw [hk]
  obtain ⟨ys, peak, hrun, _, hvals⟩ := C01.recvAll_prefix w rcfg [] hcodec hpool hc hz (k + 1) partial_ tail msgs hfit
  rw [hrun, recvAll_fail_now rcfg k partial_ tail e hcut]
  simp only
  rw [handlerYields_msgs p sp ys msgs _ hvals]
  simp [handlerYields, hne]

/-! ### requests that hold a single message (fix F18)

  Before the fix a unary gRPC / gRPC-Web request (and a server-streaming request in any protocol)
  was served from its first envelope alone: whatever followed — a second message, a torn prefix,
  an envelope with undefined flags — was never looked at, and the peer got success. -/

/-- **single_request_served_only_wellformed**: user code of a unary / server-streaming handler runs
    only if `Receive` yields exactly one message and then the clean end of the request side —
    for any protocol, parsers, reader configuration and request body. -/
theorem single_request_served_only_wellformed (p : Proto) (sp : SpecialParsers) (cfg : ReaderCfg Bytes) (src : Src)
    (v : Bytes) (h : singleRequest (handlerRecvStream p sp cfg src) = .inl v) :
    handlerRecvStream p sp cfg src = ([v], .eof) := by
  generalize handlerRecvStream p sp cfg src = r at h
  obtain ⟨msgs, e⟩ := r
  match msgs, e, h with
  | [], .eof, h => simp [singleRequest] at h
  | [], .fail _, h => simp [singleRequest] at h
  | [w], .eof, h => simp [singleRequest] at h; rw [h]
  | [_], .fail _, h => simp [singleRequest] at h
  | _ :: _ :: _, _, h => simp [singleRequest] at h

/-- a second message is answered `unimplemented`, whatever follows it -/
theorem single_request_rejects_second_message (v w : Bytes) (rest : List Bytes) (e : HEnd) :
    singleRequest (v :: w :: rest, e) = .inr codeUnimplemented := rfl

/-- a failure after the one message (malformed framing, a failing body) is that failure, not success -/
theorem single_request_reports_late_failure (v : Bytes) (c : Nat) :
    singleRequest ([v], .fail c) = .inr c := rfl

/-- **History, F18**: the pinned tree served all three -/
theorem single_request_pinned_served_malformed (v w : Bytes) (c : Nat) :
    singleRequestPinned ([v, w], .eof) = .inl v ∧ singleRequestPinned ([v], .fail c) = .inl v := ⟨rfl, rfl⟩

/-! ### the text of an error never costs the error its code (fix F23) -/

/-- **error_message_always_serializable**: whatever bytes an error's message holds - the decoder's
    complaint quoting an undecodable payload, a panic value printed into it - what is handed to
    the status / error-JSON marshaller is valid UTF-8, so marshalling cannot fail on it and the
    peer gets the error with its code. -/
theorem error_message_always_serializable (m : Bytes) : marshalAcceptsMessage (wireErrorMessage m) = true :=
  toValidUTF8_valid m

/-- … and a message that is valid UTF-8 (C02's domain) travels byte for byte -/
theorem valid_message_unchanged (m : Bytes) (h : utf8Valid m = true) : wireErrorMessage m = m :=
  toValidUTF8_of_valid m h

/-- **History, F23**: the message went to the marshaller as it was - and `"\xff"` is refused -/
theorem raw_message_refused_on_pinned : marshalAcceptsMessage [0xff] = false := by decide

end ConnectModel.C07
