/-
  C03 — Decoding does not depend on how the transport segments the bytes.

  The transport is a `Script` (arbitrary non-empty chunks, EOF/failure delivered with the last
  data or on a separate read). Every receive path of the model is a reading program (`Prog`)
  run over `readExact`, the model of io.ReadFull / io.CopyN built on single `Read` calls.
-/
import ConnectModel.Envelope
import ConnectProofs.Lemmas.EnvelopeSim

namespace ConnectModel.C03
open ConnectModel

/-- **prog_segmentation_independent**: for *every* reading program (hence for Read, Unmarshal,
    whole-stream receive, and everything the protocol layers compute from them), two well-formed
    transports carrying the same bytes and ending the same way give the same result — whatever
    the chunking and whether or not the end is reported together with the last data. -/
theorem prog_segmentation_independent {α : Type} (p : Prog α) (s₁ s₂ : Script)
    (h₁ : s₁.wf) (h₂ : s₂.wf) (hflat : s₁.flat = s₂.flat) (htail : s₁.tail = s₂.tail) :
    (p.run readExact s₁).1 = (p.run readExact s₂).1 := by
  have e₁ := (Prog.run_sim readExact_sim p s₁ s₁.abs ⟨h₁, rfl⟩).1
  have e₂ := (Prog.run_sim readExact_sim p s₂ s₂.abs ⟨h₂, rfl⟩).1
  have habs : s₁.abs = s₂.abs := by simp [Script.abs, hflat, htail]
  rw [e₁, e₂, habs]

/-- the chunked run equals the run over the flat bytes (the specification view) -/
theorem prog_eq_flat {α : Type} (p : Prog α) (s : Script) (h : s.wf) :
    (p.run readExact s).1 = (p.run takeExact s.abs).1 :=
  (Prog.run_sim readExact_sim p s s.abs ⟨h, rfl⟩).1

/-- **recv_segmentation_independent**: the sequence of messages, the terminating special
    envelope or error, and the buffer peak of a whole receive direction. -/
theorem recv_segmentation_independent {Val : Type} (cfg : ReaderCfg Val) (fuel : Nat) (s₁ s₂ : Script)
    (h₁ : s₁.wf) (h₂ : s₂.wf) (hflat : s₁.flat = s₂.flat) (htail : s₁.tail = s₂.tail) :
    ((recvAll cfg fuel).run readExact s₁).1 = ((recvAll cfg fuel).run readExact s₂).1 :=
  prog_segmentation_independent _ s₁ s₂ h₁ h₂ hflat htail

/-- one envelope `Read` -/
theorem read_segmentation_independent (max : Nat) (s₁ s₂ : Script)
    (h₁ : s₁.wf) (h₂ : s₂.wf) (hflat : s₁.flat = s₂.flat) (htail : s₁.tail = s₂.tail) :
    ((envRead max).run readExact s₁).1 = ((envRead max).run readExact s₂).1 :=
  prog_segmentation_independent _ s₁ s₂ h₁ h₂ hflat htail

/-! ### the two extreme deliveries named by the property -/

def oneByteChunks (flat : Bytes) (tail : RErr) (withData : Bool) : Script :=
  { chunks := flat.map fun b => [b], tail := tail, withData := withData }

def onePiece (flat : Bytes) (tail : RErr) (withData : Bool) : Script :=
  { chunks := if flat = [] then [] else [flat], tail := tail, withData := withData }

theorem oneByteChunks_wf (flat : Bytes) (t : RErr) (w : Bool) : (oneByteChunks flat t w).wf := by
  intro c hc
  simp only [oneByteChunks, List.mem_map] at hc
  obtain ⟨b, _, rfl⟩ := hc
  simp

theorem oneByteChunks_flat (flat : Bytes) (t : RErr) (w : Bool) : (oneByteChunks flat t w).flat = flat := by
  simp only [oneByteChunks, Script.flat]
  induction flat with
  | nil => rfl
  | cons b bs ih => simp [ih]

theorem onePiece_wf (flat : Bytes) (t : RErr) (w : Bool) : (onePiece flat t w).wf := by
  intro c hc
  simp only [onePiece] at hc
  split at hc
  · simp at hc
  · simp at hc; subst hc; assumption

theorem onePiece_flat (flat : Bytes) (t : RErr) (w : Bool) : (onePiece flat t w).flat = flat := by
  simp only [onePiece, Script.flat]
  split
  · rename_i h; simp [h]
  · simp

/-- **one_byte_at_a_time**: delivering the body one byte per read, with EOF on a separate read or
    together with the last byte, gives exactly the outcome of delivering it in one piece. -/
theorem one_byte_at_a_time {α : Type} (p : Prog α) (flat : Bytes) (tail : RErr) (w₁ w₂ : Bool) :
    (p.run readExact (oneByteChunks flat tail w₁)).1 = (p.run readExact (onePiece flat tail w₂)).1 :=
  prog_segmentation_independent p _ _ (oneByteChunks_wf flat tail w₁) (onePiece_wf flat tail w₂)
    (by rw [oneByteChunks_flat, onePiece_flat]) rfl

/-! non-vacuity: a concrete two-message body, three segmentations -/
example :
    let body : Bytes := [0,0,0,0,2,7,8, 0,0,0,0,0, 0,0,0,0,1,9]
    let cfg : ReaderCfg Bytes := { codec := { marshal := id, unmarshal := some }, pool := none, max := 0 }
    ((recvAll cfg 5).run readExact (oneByteChunks body .eof true)).1.1.length = 4 ∧
    ((recvAll cfg 5).run readExact { chunks := [[0,0,0],[0,2,7,8,0,0],[0,0,0,0,0,0,0,1,9]], tail := .eof, withData := false }).1.1.length = 4 := by
  decide

end ConnectModel.C03
