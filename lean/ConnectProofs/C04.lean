/-
  C04 — A call succeeds only if the peer's end-of-stream marker arrived (envelope level):
  a stream that stops inside a frame, or whose transport fails, never looks like a clean end
  of stream to the receiver, and what was delivered before is a prefix of what was sent.
-/
import ConnectModel.Envelope
import ConnectProofs.Lemmas.Envelope
import ConnectProofs.C01

namespace ConnectModel.C04
open ConnectModel

/-- endings that are not "an already-coded error that itself wraps io.EOF" (the only such error
    the library ever installs is the one it installs *after* the stream's terminator was seen) -/
def PlainTail (t : RErr) : Prop := ∀ c, t ≠ .coded c true

/-- a coded tail carries a non-zero code (the library never constructs code 0) -/
def NonZeroTail (t : RErr) : Prop := ∀ w, t ≠ .coded 0 w

theorem plain_isEOF {t : RErr} (h : PlainTail t) (he : t.isEOF = true) : t = .eof := by
  cases t with
  | eof => rfl
  | unexpectedEOF => simp [RErr.isEOF] at he
  | other => simp [RErr.isEOF] at he
  | coded c w =>
    simp [RErr.isEOF] at he; subst he
    exact absurd rfl (h c)

/-- **cut_inside_prefix**: the stream stops after `j` bytes of a 5-byte prefix (`0 < j < 5`),
    cleanly or with any failure: `Read` fails and the error does not wrap io.EOF. -/
theorem cut_inside_prefix (max : Nat) (part : Bytes) (tail : RErr) (hj : 0 < part.length) (hj5 : part.length < 5)
    (hplain : PlainTail tail) :
    ∃ e, ((envRead max).run takeExact { flat := part, tail := tail }).1.outcome = .fail e ∧ e.wrapsEOF = false := by
  have h5 : takeExact 5 { flat := part, tail := tail } = (part, some tail, { flat := [], tail := tail }) := by
    simp [takeExact]; omega
  simp only [envRead, Prog.run, h5]
  have hne : ¬ (part.length = 0) := by omega
  have hc : (tail.isEOF && decide (part.length = 0)) = false := by simp [hne]
  simp only [hc, Bool.false_eq_true, if_false]
  cases tail with
  | coded c w =>
    cases w with
    | true => exact absurd rfl (hplain c)
    | false => exact ⟨_, rfl, rfl⟩
  | eof => exact ⟨_, rfl, rfl⟩
  | unexpectedEOF => exact ⟨_, rfl, rfl⟩
  | other => exact ⟨_, rfl, rfl⟩

/-- **cut_inside_payload**: the complete prefix announces `n > 0` bytes, only `got < n` arrive,
    then the stream ends cleanly or fails: `Read` fails and the error does not wrap io.EOF
    (so `ClientStream.Err()` is non-nil and a client never reports success). -/
theorem cut_inside_payload (max : Nat) (fl : UInt8) (n : Nat) (got : Bytes) (tail : RErr)
    (hn : n < 2 ^ 32) (hgot : got.length < n) (hplain : PlainTail tail) :
    ∃ e, ((envRead max).run takeExact { flat := envPrefix fl n ++ got, tail := tail }).1.outcome = .fail e ∧
      e.wrapsEOF = false := by
  obtain ⟨a, b, c, d, hbe, hfrom⟩ := fromBe32_be32 n hn
  have hpfx : envPrefix fl n = [fl, a, b, c, d] := by simp [envPrefix, hbe]
  have h5 : takeExact 5 { flat := envPrefix fl n ++ got, tail := tail } =
      ([fl, a, b, c, d], none, { flat := got, tail := tail }) := by
    rw [hpfx]; exact takeExact_append' _ _ _ _ rfl
  have hshort : takeExact n { flat := got, tail := tail } = (got, some tail, { flat := [], tail := tail }) := by
    simp [takeExact]; omega
  have hn0 : n ≠ 0 := by omega
  simp only [envRead, Prog.run, h5, envReadBody, hfrom, hn0, if_false]
  by_cases hover : max > 0 ∧ n > max
  · simp only [hover, and_self, if_true, Prog.run, hshort]
    cases h : tail.isEOF <;> simp [h, Prog.run]
  · simp only [hover, if_false]
    rw [Prog.run_bind]
    have hp : ∃ e, ((payloadLoop 3 n []).run takeExact { flat := got, tail := tail }).1 = .fail e ∧ e.wrapsEOF = false := by
      simp only [payloadLoop, hn0, if_false, Prog.run, hshort]
      by_cases he : tail.isEOF = true
      · have ht := plain_isEOF hplain he
        subst ht
        simp only [RErr.isEOF, Bool.not_true, Bool.false_eq_true, if_false]
        by_cases hg : got.length = 0
        · simp only [hg, if_true, Prog.run]; exact ⟨_, rfl, rfl⟩
        · simp only [hg, if_false, List.nil_append]
          have hrem : n - got.length ≠ 0 := by omega
          have hempty : takeExact (n - got.length) { flat := [], tail := RErr.eof } = ([], some .eof, { flat := [], tail := .eof }) := by
            simp [takeExact]; omega
          simp only [payloadLoop, hrem, if_false, Prog.run, hempty, RErr.isEOF]
          simp [Prog.run]
      · have he' : tail.isEOF = false := by cases h : tail.isEOF <;> simp_all
        simp only [he', Bool.not_false, if_true, Prog.run]
        refine ⟨_, rfl, ?_⟩
        cases tail with
        | coded c w => simp [RErr.isEOF] at he'; subst he'; rfl
        | eof => simp [RErr.isEOF] at he'
        | unexpectedEOF => rfl
        | other => rfl
    obtain ⟨e, he1, he2⟩ := hp
    rcases hr : (payloadLoop 3 n []).run takeExact { flat := got, tail := tail } with ⟨o, st⟩
    rw [hr] at he1
    simp only at he1
    subst he1
    exact ⟨e, by simp [Prog.run], he2⟩

/-- **failure_at_boundary**: nothing of the next frame arrived and the transport *failed*
    (anything but a clean EOF): the receiver gets an error that does not wrap io.EOF. -/
theorem failure_at_boundary (max : Nat) (tail : RErr) (hplain : PlainTail tail) (hfail : tail ≠ .eof) :
    ∃ e, ((envRead max).run takeExact { flat := [], tail := tail }).1.outcome = .fail e ∧ e.wrapsEOF = false := by
  have h5 : takeExact 5 { flat := [], tail := tail } = ([], some tail, { flat := [], tail := tail }) := by
    simp [takeExact]
  simp only [envRead, Prog.run, h5]
  cases tail with
  | eof => exact absurd rfl hfail
  | coded c w =>
    cases w with
    | true => exact absurd rfl (hplain c)
    | false => simp only [RErr.isEOF, Bool.false_and, Bool.false_eq_true, if_false]; exact ⟨_, rfl, rfl⟩
  | unexpectedEOF => simp only [RErr.isEOF, Bool.false_and, Bool.false_eq_true, if_false]; exact ⟨_, rfl, rfl⟩
  | other => simp only [RErr.isEOF, Bool.false_and, Bool.false_eq_true, if_false]; exact ⟨_, rfl, rfl⟩

/-- only a clean EOF at a frame boundary gives the EOF-wrapping "end of stream" result -/
theorem clean_end_only_at_boundary (max : Nat) (flat : Bytes) (tail : RErr) (hplain : PlainTail tail)
    (e : EnvErr) (h : ((envRead max).run takeExact { flat := flat, tail := tail }).1.outcome = .fail e)
    (hw : e.wrapsEOF = true) (hshort : flat.length < 5) : flat = [] ∧ tail = .eof := by
  by_cases h0 : flat.length = 0
  · have hnil : flat = [] := List.eq_nil_of_length_eq_zero h0
    subst hnil
    refine ⟨rfl, ?_⟩
    by_cases ht : tail = .eof
    · exact ht
    · obtain ⟨e', he', hw'⟩ := failure_at_boundary max tail hplain ht
      rw [h] at he'; cases he'; rw [hw] at hw'; cases hw'
  · obtain ⟨e', he', hw'⟩ := cut_inside_prefix max flat tail (by omega) hshort hplain
    rw [h] at he'; cases he'; rw [hw] at hw'; cases hw'

/-- **truncated_stream**: `msgs` were written; the stream is cut strictly inside the following
    frame (prefix or payload) or fails there. The receiver yields exactly `msgs` (a prefix of
    what the peer sent) and then an error that is *not* a clean end of stream. -/
theorem truncated_stream {Val : Type} (w : WriterCfg Val) (rcfg : ReaderCfg Val) (zero : Val)
    (hcodec : rcfg.codec = w.codec) (hpool : rcfg.pool = w.pool)
    (hc : C01.CodecLaws w.codec zero) (hz : ∀ c, w.pool = some c → C01.CompLaws c)
    (msgs : List Val) (hfit : ∀ v ∈ msgs, C01.Fits w rcfg.max v)
    (partial_ : Bytes) (tail : RErr) (e : EnvErr)
    (hcut : ((envRead rcfg.max).run takeExact { flat := partial_, tail := tail }).1.outcome = .fail e) :
    ∃ ys peak, ((recvAll rcfg (msgs.length + 1)).run takeExact
        { flat := (msgs.map (envMarshal w)).flatten ++ partial_, tail := tail }).1 = (ys ++ [.fail e], peak) ∧
      ys.map (C01.yieldValue zero) = msgs.map some := by
  obtain ⟨ys, peak, hrun, _, hvals⟩ := C01.recvAll_prefix w rcfg zero hcodec hpool hc hz 1 partial_ tail msgs hfit
  have hend : ((recvAll rcfg 1).run takeExact { flat := partial_, tail := tail }).1.1 = [.fail e] := by
    rw [recvAll, Prog.run_bind]
    unfold envUnmarshal
    rw [Prog.run_bind]
    rcases hr : (envRead rcfg.max).run takeExact { flat := partial_, tail := tail } with ⟨r, st⟩
    rw [hr] at hcut
    simp only at hcut
    simp only [Prog.run, unmarshalFrame, hcut]
  rw [hend] at hrun
  exact ⟨ys, peak, by rw [hrun], hvals⟩

/-! non-vacuity: a two-message stream cut inside the second payload, and inside the prefix -/
example : ((envRead 0).run takeExact { flat := [0,0,0,0,3,1,2], tail := .eof }).1.outcome
    = .fail { code := codeInvalidArgument, wrapsEOF := false } := by decide
example : ((envRead 0).run takeExact { flat := [0,0,0], tail := .eof }).1.outcome
    = .fail { code := codeInvalidArgument, wrapsEOF := false } := by decide
example : PlainTail .unexpectedEOF := by intro c h; cases h

end ConnectModel.C04
