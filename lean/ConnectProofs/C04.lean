/-
  C04 — A call succeeds only if the peer's end-of-stream marker arrived (envelope level):
  a stream that stops inside a frame, or whose transport fails, never looks like a clean end
  of stream to the receiver, and what was delivered before is a prefix of what was sent.
-/
import ConnectModel.Envelope
import ConnectModel.Proto
import ConnectModel.Toy
import ConnectModel.Duplex
import ConnectProofs.Lemmas.Envelope
import ConnectProofs.C01

namespace ConnectModel.C04
open ConnectModel

/-- endings that are not "an already-coded error that itself wraps io.EOF" (the only such error
    the library ever installs is the one it installs *after* the stream's terminator was seen) -/
def PlainTail (t : RErr) : Prop := ∀ c, t ≠ .coded c true

/-- a coded tail carries a non-zero code (the library never constructs code 0) -/
def NonZeroTail (t : RErr) : Prop := ∀ w, t ≠ .coded 0 w

theorem plain_isEOF {t : RErr} (h : PlainTail t) (he : t.isEOF = true) : t = .eof := by
  cases t with
  | eof => rfl
  | unexpectedEOF => simp [RErr.isEOF] at he
  | other => simp [RErr.isEOF] at he
  | coded c w =>
    simp [RErr.isEOF] at he; subst he
    exact absurd rfl (h c)

/-- **cut_inside_prefix**: the stream stops after `j` bytes of a 5-byte prefix (`0 < j < 5`),
    cleanly or with any failure: `Read` fails and the error does not wrap io.EOF. -/
theorem cut_inside_prefix (max : Nat) (part : Bytes) (tail : RErr) (hj : 0 < part.length) (hj5 : part.length < 5)
    (hplain : PlainTail tail) :
    ∃ e, ((envRead max).run takeExact { flat := part, tail := tail }).1.outcome = .fail e ∧ e.wrapsEOF = false := by
  have h5 : takeExact 5 { flat := part, tail := tail } = (part, some tail, { flat := [], tail := tail }) := by
    simp [takeExact]; omega
  simp only [envRead, Prog.run, h5]
  have hne : ¬ (part.length = 0) := by omega
  have hc : (tail.isEOF && decide (part.length = 0)) = false := by simp [hne]
  simp only [hc, Bool.false_eq_true, if_false]
  cases tail with
  | coded c w =>
    cases w with
    | true => exact absurd rfl (hplain c)
    | false => exact ⟨_, rfl, rfl⟩
  | eof => exact ⟨_, rfl, rfl⟩
  | unexpectedEOF => exact ⟨_, rfl, rfl⟩
  | other => exact ⟨_, rfl, rfl⟩

/-- **cut_inside_payload**: the complete prefix announces `n > 0` bytes, only `got < n` arrive,
    then the stream ends cleanly or fails: `Read` fails and the error does not wrap io.EOF
    (so `ClientStream.Err()` is non-nil and a client never reports success). -/
theorem cut_inside_payload (max : Nat) (fl : UInt8) (n : Nat) (got : Bytes) (tail : RErr)
    (hn : n < 2 ^ 32) (hgot : got.length < n) (hplain : PlainTail tail) :
    ∃ e, ((envRead max).run takeExact { flat := envPrefix fl n ++ got, tail := tail }).1.outcome = .fail e ∧
      e.wrapsEOF = false := by
  obtain ⟨a, b, c, d, hbe, hfrom⟩ := fromBe32_be32 n hn
  have hpfx : envPrefix fl n = [fl, a, b, c, d] := by simp [envPrefix, hbe]
  have h5 : takeExact 5 { flat := envPrefix fl n ++ got, tail := tail } =
      ([fl, a, b, c, d], none, { flat := got, tail := tail }) := by
    rw [hpfx]; exact takeExact_append' _ _ _ _ rfl
  have hshort : takeExact n { flat := got, tail := tail } = (got, some tail, { flat := [], tail := tail }) := by
    simp [takeExact]; omega
  have hn0 : n ≠ 0 := by omega
  simp only [envRead, Prog.run, h5, envReadBody, hfrom, hn0, if_false]
  by_cases hover : max > 0 ∧ n > max
  · simp only [hover, and_self, if_true, Prog.run, hshort]
    cases h : tail.isEOF with
    | true => simp [Prog.run]
    | false =>
      simp only [Bool.false_eq_true, if_false]
      cases tail with
      | coded c w => simp [RErr.isEOF] at h; subst h; simp [Prog.run]
      | eof => simp [RErr.isEOF] at h
      | unexpectedEOF => simp [Prog.run]
      | other => simp [Prog.run]
  · simp only [hover, if_false]
    rw [Prog.run_bind]
    have hp : ∃ e, ((payloadLoop 3 n []).run takeExact { flat := got, tail := tail }).1 = .fail e ∧ e.wrapsEOF = false := by
      simp only [payloadLoop, hn0, if_false, Prog.run, hshort]
      by_cases he : tail.isEOF = true
      · have ht := plain_isEOF hplain he
        subst ht
        simp only [RErr.isEOF, Bool.not_true, Bool.false_eq_true, if_false]
        by_cases hg : got.length = 0
        · simp only [hg, if_true, Prog.run]; exact ⟨_, rfl, rfl⟩
        · simp only [hg, if_false, List.nil_append]
          have hrem : n - got.length ≠ 0 := by omega
          have hempty : takeExact (n - got.length) { flat := [], tail := RErr.eof } = ([], some .eof, { flat := [], tail := .eof }) := by
            simp [takeExact]; omega
          simp only [payloadLoop, hrem, if_false, Prog.run, hempty, RErr.isEOF]
          simp [Prog.run]
      · have he' : tail.isEOF = false := by cases h : tail.isEOF <;> simp_all
        simp only [he', Bool.not_false, if_true, Prog.run]
        refine ⟨_, rfl, ?_⟩
        cases tail with
        | coded c w => simp [RErr.isEOF] at he'; subst he'; rfl
        | eof => simp [RErr.isEOF] at he'
        | unexpectedEOF => rfl
        | other => rfl
    obtain ⟨e, he1, he2⟩ := hp
    rcases hr : (payloadLoop 3 n []).run takeExact { flat := got, tail := tail } with ⟨o, st⟩
    rw [hr] at he1
    simp only at he1
    subst he1
    exact ⟨e, by simp [Prog.run], he2⟩

/-- **failure_at_boundary**: nothing of the next frame arrived and the transport *failed*
    (anything but a clean EOF): the receiver gets an error that does not wrap io.EOF. -/
theorem failure_at_boundary (max : Nat) (tail : RErr) (hplain : PlainTail tail) (hfail : tail ≠ .eof) :
    ∃ e, ((envRead max).run takeExact { flat := [], tail := tail }).1.outcome = .fail e ∧ e.wrapsEOF = false := by
  have h5 : takeExact 5 { flat := [], tail := tail } = ([], some tail, { flat := [], tail := tail }) := by
    simp [takeExact]
  simp only [envRead, Prog.run, h5]
  cases tail with
  | eof => exact absurd rfl hfail
  | coded c w =>
    cases w with
    | true => exact absurd rfl (hplain c)
    | false => simp only [RErr.isEOF, Bool.false_and, Bool.false_eq_true, if_false]; exact ⟨_, rfl, rfl⟩
  | unexpectedEOF => simp only [RErr.isEOF, Bool.false_and, Bool.false_eq_true, if_false]; exact ⟨_, rfl, rfl⟩
  | other => simp only [RErr.isEOF, Bool.false_and, Bool.false_eq_true, if_false]; exact ⟨_, rfl, rfl⟩

/-- only a clean EOF at a frame boundary gives the EOF-wrapping "end of stream" result -/
theorem clean_end_only_at_boundary (max : Nat) (flat : Bytes) (tail : RErr) (hplain : PlainTail tail)
    (e : EnvErr) (h : ((envRead max).run takeExact { flat := flat, tail := tail }).1.outcome = .fail e)
    (hw : e.wrapsEOF = true) (hshort : flat.length < 5) : flat = [] ∧ tail = .eof := by
  by_cases h0 : flat.length = 0
  · have hnil : flat = [] := List.eq_nil_of_length_eq_zero h0
    subst hnil
    refine ⟨rfl, ?_⟩
    by_cases ht : tail = .eof
    · exact ht
    · obtain ⟨e', he', hw'⟩ := failure_at_boundary max tail hplain ht
      rw [h] at he'; cases he'; rw [hw] at hw'; cases hw'
  · obtain ⟨e', he', hw'⟩ := cut_inside_prefix max flat tail (by omega) hshort hplain
    rw [h] at he'; cases he'; rw [hw] at hw'; cases hw'

/-- **truncated_stream**: `msgs` were written; the stream is cut strictly inside the following
    frame (prefix or payload) or fails there. The receiver yields exactly `msgs` (a prefix of
    what the peer sent) and then an error that is *not* a clean end of stream. -/
theorem truncated_stream {Val : Type} (w : WriterCfg Val) (rcfg : ReaderCfg Val) (zero : Val)
    (hcodec : rcfg.codec = w.codec) (hpool : rcfg.pool = w.pool)
    (hc : C01.CodecLaws w.codec zero) (hz : ∀ c, w.pool = some c → C01.CompLaws c)
    (msgs : List Val) (hfit : ∀ v ∈ msgs, C01.Fits w rcfg.max v)
    (partial_ : Bytes) (tail : RErr) (e : EnvErr)
    (hcut : ((envRead rcfg.max).run takeExact { flat := partial_, tail := tail }).1.outcome = .fail e) :
    ∃ ys peak, ((recvAll rcfg (msgs.length + 1)).run takeExact
        { flat := (msgs.map (envMarshal w)).flatten ++ partial_, tail := tail }).1 = (ys ++ [.fail e], peak) ∧
      ys.map (C01.yieldValue zero) = msgs.map some := by
  obtain ⟨ys, peak, hrun, _, hvals⟩ := C01.recvAll_prefix w rcfg zero hcodec hpool hc hz 1 partial_ tail msgs hfit
  have hend : ((recvAll rcfg 1).run takeExact { flat := partial_, tail := tail }).1.1 = [.fail e] := by
    rw [recvAll, Prog.run_bind]
    unfold envUnmarshal
    rw [Prog.run_bind]
    rcases hr : (envRead rcfg.max).run takeExact { flat := partial_, tail := tail } with ⟨r, st⟩
    rw [hr] at hcut
    simp only at hcut
    simp only [Prog.run, unmarshalFrame, hcut]
  rw [hend] at hrun
  exact ⟨ys, peak, by rw [hrun], hvals⟩

/-! ### at the API: `Err() == nil` after `Receive() == false` needs the terminator -/

/-- the conn reports the clean end only on a success terminator (or because it already had) -/
theorem receiveStep_eof (s : RState) (c : RState) (h : receiveStep s = (.eof, c)) :
    (∃ code, s.stored = some (code, true)) ∨ (s.stored = none ∧ ∃ rest, s.items = .endOK :: rest) := by
  unfold receiveStep at h
  split at h
  · rename_i code _; exact Or.inl ⟨code, by assumption⟩
  · simp at h
  · split at h <;> simp at h
    · rename_i rest _; exact Or.inr ⟨by assumption, rest, by assumption⟩

/-- stored clean ends come from a success terminator: an invariant of `receiveStep` -/
def CleanOnlyAfterEndOK (all : List RItem) (s : RState) : Prop :=
  (∀ code, s.stored = some (code, true) → RItem.endOK ∈ all) ∧ (∀ x ∈ s.items, x ∈ all)

theorem receiveStep_inv (all : List RItem) (s : RState) (h : CleanOnlyAfterEndOK all s) :
    CleanOnlyAfterEndOK all (receiveStep s).2 := by
  obtain ⟨h1, h2⟩ := h
  unfold receiveStep
  split
  · exact ⟨h1, h2⟩
  · exact ⟨h1, h2⟩
  · split
    · refine ⟨?_, h2⟩; intro code hc; simp at hc
    · rename_i m rest hi
      exact ⟨h1, fun x hx => h2 x (by rw [hi]; exact List.mem_cons_of_mem _ hx)⟩
    · rename_i c rest hi
      refine ⟨?_, fun x hx => h2 x (by rw [hi]; exact List.mem_cons_of_mem _ hx)⟩
      intro code hc; simp at hc
    · rename_i rest hi
      refine ⟨fun _ _ => h2 _ (by rw [hi]; simp), fun x hx => h2 x (by rw [hi]; exact List.mem_cons_of_mem _ hx)⟩
    · rename_i c rest hi
      refine ⟨?_, fun x hx => h2 x (by rw [hi]; exact List.mem_cons_of_mem _ hx)⟩
      intro code hc; simp at hc

/-- the wrapper's invariant: a recorded clean end means the success terminator was in the body -/
def WrapperInv (all : List RItem) (s : SState) : Prop :=
  CleanOnlyAfterEndOK all s.conn ∧ (∀ code, s.receiveErr = some (code, true) → RItem.endOK ∈ all)

theorem sstep_inv (all : List RItem) (s : SState) (op : SOp) (h : WrapperInv all s) : WrapperInv all (sstep s op).2 := by
  obtain ⟨hc, hr⟩ := h
  cases op with
  | err => exact ⟨hc, hr⟩
  | close => exact ⟨hc, hr⟩
  | receive =>
    simp only [sstep]
    split
    · exact ⟨hc, hr⟩
    · have hinv := receiveStep_inv all s.conn hc
      rcases hstep : receiveStep s.conn with ⟨cls, c⟩
      rw [hstep] at hinv
      cases cls with
      | msg m => exact ⟨hinv, by simpa using hr⟩
      | fail code => exact ⟨hinv, by intro code' h'; simp at h'⟩
      | eof =>
        refine ⟨hinv, ?_⟩
        intro _ _
        rcases receiveStep_eof s.conn c hstep with ⟨code, hs⟩ | ⟨_, rest, hi⟩
        · exact hc.1 code hs
        · exact hc.2 _ (by rw [hi]; simp)

theorem srun_inv (all : List RItem) : ∀ (ops : List SOp) (s : SState), WrapperInv all s → WrapperInv all (srun s ops).2
  | [], s, h => by simpa [srun] using h
  | op :: rest, s, h => by
    simp only [srun]
    exact srun_inv all rest _ (sstep_inv all s op h)

/-- **api_success_needs_terminator**: on a `ServerStreamForClient`, after any sequence of
    `Receive`, `Err` and `Close` calls: if `Receive` has returned false and `Err()` is nil - the
    caller's picture of a call that ended well - then the body contained the protocol's success
    terminator. No sequence of calls (asking again, closing first) turns a stream that was cut or
    failed into one that ended cleanly. -/
theorem api_success_needs_terminator (items : List RItem) (ops : List SOp)
    (hfalse : (sstep (srun (SState.start items) ops).2 .receive).1 = .recv none)
    (hnil : (sstep (srun (SState.start items) ops).2 .err).1 = .err none)
    (hdone : (srun (SState.start items) ops).2.receiveErr.isSome = true) :
    RItem.endOK ∈ items := by
  have hinv : WrapperInv items (srun (SState.start items) ops).2 :=
    srun_inv items ops _ ⟨⟨by intro code h; simp [SState.start] at h, by intro x hx; simpa [SState.start] using hx⟩,
      by intro code h; simp [SState.start] at h⟩
  cases hr : (srun (SState.start items) ops).2.receiveErr with
  | none => simp [hr] at hdone
  | some e =>
    obtain ⟨code, eof⟩ := e
    cases eof with
    | true => exact hinv.2 code hr
    | false => simp [sstep, hr] at hnil

/-! non-vacuity: a two-message stream cut inside the second payload, and inside the prefix -/
example : ((envRead 0).run takeExact { flat := [0,0,0,0,3,1,2], tail := .eof }).1.outcome
    = .fail { code := codeInvalidArgument, wrapsEOF := false } := by decide
example : ((envRead 0).run takeExact { flat := [0,0,0], tail := .eof }).1.outcome
    = .fail { code := codeInvalidArgument, wrapsEOF := false } := by decide
example : PlainTail .unexpectedEOF := by intro c h; cases h

/-! ## protocol level: success only with the terminator

  `clientDecode` is defined on *arbitrary* structured responses. The theorems below say that its
  verdict "success" (`result = none`) implies that the response carried the protocol's terminator. -/

/-- the terminal reported by `recvItems` is an item of the body -/
theorem recvItems_endStream_mem (cfg : CCfg) (enc : Option Compressor) :
    ∀ (items : List BodyItem) (e : Option WireErr) (md : Header),
      (recvItems cfg enc items).2 = .endStream e md → BodyItem.endStream e md ∈ items := by
  intro items
  induction items with
  | nil => intro e md h; simp [recvItems] at h
  | cons it rest ih =>
    intro e md h
    cases it with
    | frame fl p =>
      simp only [recvItems] at h
      split at h
      · split at h
        · exact List.mem_cons_of_mem _ (ih e md h)
        · split at h
          · cases h
          · split at h
            · split at h
              · cases h
              · split at h
                · exact List.mem_cons_of_mem _ (ih e md h)
                · cases h
            · exact List.mem_cons_of_mem _ (ih e md h)
      · cases h
    | endStream e' m' =>
      simp only [recvItems] at h
      split at h
      · cases h; exact List.mem_cons_self
      · cases h
    | webTrailer b => simp only [recvItems] at h; split at h <;> cases h
    | raw d =>
      simp only [recvItems, recvCutTail] at h
      by_cases hr : rest.isEmpty = true <;> by_cases hd : d.isEmpty = true <;> simp [hr, hd] at h
    | errorJSON w => simp [recvItems] at h
    | errorJSONz w => simp [recvItems] at h

theorem recvItems_webTrailer_mem (cfg : CCfg) (enc : Option Compressor) :
    ∀ (items : List BodyItem) (blk : Header),
      (recvItems cfg enc items).2 = .webTrailer blk → ∃ b, BodyItem.webTrailer b ∈ items ∧ blk = sanitizeBlock b := by
  intro items
  induction items with
  | nil => intro blk h; simp [recvItems] at h
  | cons it rest ih =>
    intro blk h
    cases it with
    | frame fl p =>
      have lift : (∃ b, BodyItem.webTrailer b ∈ rest ∧ blk = sanitizeBlock b) →
          ∃ b, BodyItem.webTrailer b ∈ BodyItem.frame fl p :: rest ∧ blk = sanitizeBlock b :=
        fun ⟨b, hb, he⟩ => ⟨b, List.mem_cons_of_mem _ hb, he⟩
      simp only [recvItems] at h
      split at h
      · split at h
        · exact lift (ih blk h)
        · split at h
          · cases h
          · split at h
            · split at h
              · cases h
              · split at h
                · exact lift (ih blk h)
                · cases h
            · exact lift (ih blk h)
      · cases h
    | endStream e' m' => simp only [recvItems] at h; split at h <;> cases h
    | webTrailer b =>
      simp only [recvItems] at h
      split at h
      · cases h; exact ⟨b, List.mem_cons_self, rfl⟩
      · cases h
    | raw d =>
      simp only [recvItems, recvCutTail] at h
      by_cases hr : rest.isEmpty = true <;> by_cases hd : d.isEmpty = true <;> simp [hr, hd] at h
    | errorJSON w => simp [recvItems] at h
    | errorJSONz w => simp [recvItems] at h

/-- **connect_stream_success_needs_end_stream**: a Connect streaming client reports success only
    if the status was 200 and the body contains an end-of-stream envelope without an error. -/
theorem connect_stream_success_needs_end_stream (cfg : CCfg) (r : Resp)
    (h : (clientConnectStream cfg r).result = none) :
    r.status = 200 ∧ ∃ md, BodyItem.endStream none md ∈ r.body := by
  unfold clientConnectStream at h
  by_cases hs : r.status ≠ 200
  · rw [if_pos hs] at h; cases h
  · rw [if_neg hs] at h
    refine ⟨by omega, ?_⟩
    simp only at h
    split at h
    · cases h
    · cases hterm : (recvItems cfg (encodingPool cfg (r.header.get Gen.hdrConnectStreamEncoding)) r.body).2 with
      | cleanEOF => simp [hterm] at h
      | fail c => simp [hterm] at h
      | webTrailer b => simp [hterm] at h
      | endStream e md =>
        cases e with
        | some w => simp [hterm] at h
        | none => exact ⟨md, recvItems_endStream_mem _ _ _ _ _ hterm⟩

/-- what "the gRPC status says OK" means -/
theorem grpcVerdict_ok (dec : Bytes → Option WireErr) (t : Header) (h : grpcErrorFromTrailer dec t = .ok) :
    parseUint32 (t.get Gen.hdrGrpcStatus) = some 0 := by
  simp only [grpcErrorFromTrailer] at h
  split at h
  · cases h
  · split at h
    · cases h
    · rename_i code hc
      split at h
      · rename_i h0; rw [hc, h0]
      · split at h
        · cases h
        · split at h
          · cases h
          · split at h
            · cases h
            · split at h <;> cases h

theorem grpc_success_needs_status (dec : Bytes → Option WireErr) (cfg : CCfg) (r : Resp)
    (h : (clientGrpc dec cfg r).result = none) :
    r.status = 200 ∧
    ((mergeHeaders [] r.header).get Gen.hdrGrpcStatus ≠ [] ∨
     ∃ T : Header, grpcErrorFromTrailer dec (mergeHeaders [] T) = .ok ∧
       ((cfg.proto ≠ .grpcWeb ∧ T = r.trailer) ∨ ∃ b, BodyItem.webTrailer b ∈ r.body ∧ T = sanitizeBlock b)) := by
  simp only [clientGrpc] at h
  by_cases hs : r.status ≠ 200
  · rw [if_pos hs] at h; cases h
  · rw [if_neg hs] at h
    refine ⟨by omega, ?_⟩
    by_cases hk : (!encodingKnown cfg (r.header.get Gen.hdrGrpcEncoding)) = true
    · rw [if_pos hk] at h; cases h
    · rw [if_neg hk] at h
      by_cases hto : (mergeHeaders [] r.header).get Gen.hdrGrpcStatus ≠ []
      · exact Or.inl hto
      · right
        cases hv : grpcErrorFromTrailer dec r.header <;> rw [hv] at h <;> simp only at h <;>
          first
          | (cases h; done)
          | (rcases hr : recvItems cfg (encodingPool cfg (r.header.get Gen.hdrGrpcEncoding)) r.body with ⟨msgs, term⟩
             rw [hr] at h
             simp only at h
             rw [if_neg hto] at h
             revert h
             cases term with
             | cleanEOF =>
               simp only
               intro h
               split at h
               · cases h
               · cases h
               · simp at h
               · rename_i hok
                 by_cases hw : cfg.proto = .grpcWeb
                 · simp [hw, mergeHeaders, grpcErrorFromTrailer, Header.get, Header.vals] at hok
                 · simp only [hw, if_false] at hok
                   exact ⟨r.trailer, hok, Or.inl ⟨hw, rfl⟩⟩
             | webTrailer b =>
               simp only
               intro h
               split at h
               · cases h
               · cases h
               · simp at h
               · rename_i hok
                 obtain ⟨b0, hb0, hbe⟩ := recvItems_webTrailer_mem cfg _ r.body b (by rw [hr])
                 exact ⟨b, hok, Or.inr ⟨b0, hb0, hbe⟩⟩
             | fail c =>
               simp only
               intro h
               split at h <;> simp at h
             | endStream eo m =>
               simp only
               intro h
               split at h <;> simp at h)

/-- the protocol's terminator in a structured response -/
def Terminated (dec : Bytes → Option WireErr) (cfg : CCfg) (r : Resp) : Prop :=
  r.status = 200 ∧
  match cfg.proto with
  | .connect => cfg.kind = .unary ∨ ∃ md, BodyItem.endStream none md ∈ r.body
  | _ =>
    (mergeHeaders [] r.header).get Gen.hdrGrpcStatus ≠ [] ∨
    ∃ T : Header, grpcErrorFromTrailer dec (mergeHeaders [] T) = .ok ∧
      ((cfg.proto ≠ .grpcWeb ∧ T = r.trailer) ∨ ∃ b, BodyItem.webTrailer b ∈ r.body ∧ T = sanitizeBlock b)

theorem connect_unary_success_needs_200 (cfg : CCfg) (st : Bytes) (r : Resp)
    (h : (clientConnectUnary cfg st r).result = none) : r.status = 200 := by
  simp only [clientConnectUnary] at h
  by_cases hk : (!encodingKnown cfg (r.header.get Gen.hdrConnectUnaryEncoding)) = true
  · rw [if_pos hk] at h; split at h <;> cases h
  · rw [if_neg hk] at h
    by_cases hs : r.status ≠ 200
    · rw [if_pos hs] at h
      split at h
      · cases h
      · split at h <;> cases h
      · cases h
    · omega

theorem unaryWrap_success (o : ClientObs) (h : (unaryWrap o).result = none) : o.result = none := by
  unfold unaryWrap at h
  split at h <;> first | assumption | cases h | rfl

/-- **success_needs_terminator**: for every protocol, RPC kind, client configuration and every
    structured response whatsoever, the client's verdict "success" implies that the response had
    status 200 and carried the protocol's terminator: a Connect end-of-stream envelope without an
    error, `grpc-status: 0` in the HTTP trailers (or headers, the trailers-only form), or a
    gRPC-Web trailer frame saying so. (Unary Connect has no in-band terminator; completeness of
    the HTTP body is the transport's Content-Length / chunked framing, outside the model.) -/
theorem success_needs_terminator (dec : Bytes → Option WireErr) (cfg : CCfg) (st : Bytes) (r : Resp)
    (h : (clientDecode dec cfg st r).result = none) : Terminated dec cfg r := by
  have hS : (match cfg.proto with
      | .connect => if cfg.kind = StreamKind.unary then clientConnectUnary cfg st r else clientConnectStream cfg r
      | _ => clientGrpc dec cfg r).result = none → Terminated dec cfg r := by
    intro he
    unfold Terminated
    cases hp : cfg.proto with
    | connect =>
      rw [hp] at he
      simp only at he
      split at he
      · rename_i hk; exact ⟨connect_unary_success_needs_200 cfg st r he, Or.inl hk⟩
      · have := connect_stream_success_needs_end_stream cfg r he
        exact ⟨this.1, Or.inr this.2⟩
    | grpc => rw [hp] at he; have := grpc_success_needs_status dec cfg r he; rw [hp] at this; exact this
    | grpcWeb => rw [hp] at he; have := grpc_success_needs_status dec cfg r he; rw [hp] at this; exact this
  unfold clientDecode at h
  simp only at h
  split at h
  · exact hS h
  · exact hS (unaryWrap_success _ h)
  · exact hS (unaryWrap_success _ h)
  · exact hS h

/-- non-vacuity: a terminated response that is accepted, and the same response without its
    terminator that is not -/
example : (clientConnectStream { proto := .connect, kind := .server, accepts := [], pool := rleCompressor, max := 0 }
    { status := 200, header := [], body := [.frame 0 [1], .endStream none []], trailer := [] }).result = none := by decide
example : (clientConnectStream { proto := .connect, kind := .server, accepts := [], pool := rleCompressor, max := 0 }
    { status := 200, header := [], body := [.frame 0 [1]], trailer := [] }).result ≠ none := by decide

/-! ### a streaming body that ends inside an envelope (round 13) -/

/-- **cut_tail_never_clean**: bytes of an unfinished envelope at the end of a streaming body are
    never the clean end of the stream - whatever follows in the HTTP trailers. -/
theorem cut_tail_never_clean (cfg : CCfg) (enc : Option Compressor) (d : Bytes) (hd : d ≠ []) :
    (recvItems cfg enc [.raw d]).2 = .fail codeInvalidArgument := by
  cases d with
  | nil => exact absurd rfl hd
  | cons x xs => simp [recvItems, recvCutTail]

/-- ... and that is what `envelopeReader.Read` says about 1-4 bytes followed by a clean end of
    the body ("incomplete envelope"), under any read limit: the model of the structured body and
    the model of the reader agree on the prefix case. -/
theorem cut_tail_prefix_is_envRead (max : Nat) (d : Bytes) (h0 : 0 < d.length) (h5 : d.length < 5) :
    ((envRead max).run takeExact { flat := d, tail := .eof }).1.outcome =
      .fail { code := codeInvalidArgument, wrapsEOF := false } := by
  have hne : ¬ (5 ≤ d.length) := by omega
  have hl : d ≠ [] := by intro h; subst h; simp at h0
  simp [envRead, Prog.run, takeExact, hne, RErr.isEOF, hl]

/-- a cut tail after any number of whole messages: the messages are delivered, the call fails -/
theorem cut_after_messages_fails (cfg : CCfg) (p : Bytes) (d : Bytes) (hd : d ≠ [])
    (hp : p.length ≠ 0) (hfit : ¬ (cfg.max > 0 ∧ p.length > cfg.max)) :
    recvItems cfg none [.frame 0 p, .raw d] = ([p], .fail codeInvalidArgument) := by
  have := cut_tail_never_clean cfg none d hd
  cases d with
  | nil => exact absurd rfl hd
  | cons x xs => simp [recvItems, recvCutTail, hp, hfit]

example : (recvItems { proto := .grpc, kind := .server, accepts := [], pool := rleCompressor, max := 0 } none
    [.frame 0 [1], .raw [0, 0, 0]]).2 = .fail codeInvalidArgument := by decide

end ConnectModel.C04
