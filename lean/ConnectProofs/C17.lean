/-
  C17 — Generated code routes every RPC at its canonical path (the part of the generator that is
  logic: path strings, identifiers, constructor choice). "Syntactically valid Go that type-checks"
  for all descriptors is not expressible here; the harness parses and builds generated samples.
-/
import ConnectModel.Codegen
import ConnectProofs.C12

namespace ConnectModel.C17
open ConnectModel

/-- **paths_agree**: for every service and method, the string the generated client appends to the
    base URL, the pattern registered on the mux and the procedure given to the handler
    constructor are the same canonical path "/<fully-qualified service>/<method>", and the mount
    prefix is "/<fully-qualified service>/" — with no leading dot when the file has no package. -/
theorem paths_agree (s : ServiceDesc) (m : MethodDesc) :
    clientURLSuffix s m = muxPattern s m ∧ muxPattern s m = handlerProcedure s m ∧
    handlerProcedure s m = [47] ++ s.fullName ++ [47] ++ m.name ∧
    mountPrefix s = [47] ++ s.fullName ++ [47] ∧
    (s.pkg = [] → s.fullName = s.name) ∧ (s.pkg ≠ [] → s.fullName = s.pkg ++ [46] ++ s.name) := by
  refine ⟨rfl, rfl, rfl, rfl, ?_, ?_⟩ <;> intro h <;> simp [ServiceDesc.fullName, h]

/-- the mux pattern starts with the mount prefix (so mounting the returned handler at the
    returned path routes the method) -/
theorem pattern_under_prefix (s : ServiceDesc) (m : MethodDesc) :
    (mountPrefix s).isPrefixOf (muxPattern s m) = true := by
  simp [mountPrefix, muxPattern, procedureName, List.isPrefixOf_iff_prefix, List.append_assoc]

/-- with C12's `procedure_agrees`: the client's `Spec.Procedure` (derived from base URL + suffix)
    equals the handler's, for every base URL -/
theorem client_and_handler_spec_agree (base : Bytes) (s : ServiceDesc) (m : MethodDesc)
    (hs : C12.noSlash s.fullName) (hm : C12.noSlash m.name) (hsne : s.fullName ≠ []) (hmne : m.name ≠ []) :
    extractProtoPath (base ++ clientURLSuffix s m) = extractProtoPath (handlerProcedure s m) := by
  have := C12.procedure_agrees base s.fullName m.name hs hm hsne hmne
  have e1 : base ++ clientURLSuffix s m = base ++ 47 :: (s.fullName ++ 47 :: m.name) := by
    simp [clientURLSuffix, procedureName]
  have e2 : handlerProcedure s m = 47 :: (s.fullName ++ 47 :: m.name) := by
    simp [handlerProcedure, procedureName]
  rw [e1, e2, this.1, this.2]

/-- **constructor_matches_kind**: the decision table over the two streaming flags -/
theorem constructor_matches_kind (m : MethodDesc) :
    (rpcKind m = .unary ↔ (m.clientStreaming = false ∧ m.serverStreaming = false)) ∧
    (rpcKind m = .clientStream ↔ (m.clientStreaming = true ∧ m.serverStreaming = false)) ∧
    (rpcKind m = .serverStream ↔ (m.clientStreaming = false ∧ m.serverStreaming = true)) ∧
    (rpcKind m = .bidi ↔ (m.clientStreaming = true ∧ m.serverStreaming = true)) := by
  cases hc : m.clientStreaming <;> cases hs : m.serverStreaming <;> simp [rpcKind, hc, hs]

/-- the generator's keyword table is exactly Go's keyword list (re-extracted from main.go) -/
theorem keyword_table_complete :
    (∀ k ∈ goKeywords, k ∈ Gen.unexportKeywords) ∧ (∀ k ∈ Gen.unexportKeywords, k ∈ goKeywords) := by
  decide

/-- **field_ident_valid**: the struct field derived from any method GoName is never a Go keyword -/
theorem field_ident_not_keyword (goName : Bytes) : unexport goName ∉ goKeywords ∨ goName = [] := by
  cases goName with
  | nil => right; rfl
  | cons c rest =>
    left
    simp only [unexport]
    split
    · -- "_" ++ keyword is not a keyword: no keyword starts with '_'
      intro hmem
      have hall : ∀ k ∈ goKeywords, k.head? ≠ some (95 : UInt8) := by decide
      have := hall _ hmem
      simp at this
    · rename_i hnot
      intro hmem
      exact hnot (keyword_table_complete.1 _ hmem)

/-- distinct GoNames (upper-case initial, as protogen produces) give distinct fields -/
theorem unexport_injective (a b : Bytes) (ca cb : UInt8) (ra rb : Bytes)
    (ha : a = ca :: ra) (hb : b = cb :: rb)
    (hua : 65 ≤ ca.toNat ∧ ca.toNat ≤ 90) (hub : 65 ≤ cb.toNat ∧ cb.toNat ≤ 90)
    (h : unexport a = unexport b) : a = b := by
  subst ha; subst hb
  have hlow : ∀ c : UInt8, 65 ≤ c.toNat ∧ c.toNat ≤ 90 → (toLower c).toNat = c.toNat + 32 := by
    intro c hc
    simp only [toLower, hc.1, hc.2, decide_true, Bool.and_self, if_true, UInt8.toNat_ofNat']
    omega
  have hne95 : ∀ c : UInt8, 65 ≤ c.toNat ∧ c.toNat ≤ 90 → toLower c ≠ 95 := by
    intro c hc heq
    have := hlow c hc
    rw [heq] at this
    simp at this; omega
  have key : toLower ca :: ra = toLower cb :: rb := by
    simp only [unexport] at h
    split at h <;> split at h
    · simpa using h
    · exfalso
      have := congrArg List.head? h
      simp at this
      exact hne95 cb hub this.symm
    · exfalso
      have := congrArg List.head? h
      simp at this
      exact hne95 ca hua this
    · exact h
  simp only [List.cons.injEq] at key
  obtain ⟨h1, h2⟩ := key
  have := congrArg UInt8.toNat h1
  rw [hlow ca hua, hlow cb hub] at this
  have hc : ca = cb := UInt8.toNat_inj.mp (by omega)
  subst hc; subst h2; rfl

/-! non-vacuity -/
example : procedureName { pkg := [], name := [83, 118, 99], methods := [] } { name := [68, 111], goName := [68, 111], clientStreaming := false, serverStreaming := false }
    = [47, 83, 118, 99, 47, 68, 111] := by decide
example : unexport [73, 109, 112, 111, 114, 116] = [95, 105, 109, 112, 111, 114, 116] := by decide

end ConnectModel.C17
