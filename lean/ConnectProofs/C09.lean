/-
  C09 — Read limits are enforced exactly, before a message reaches user code (envelope level).
-/
import ConnectModel.Envelope
import ConnectProofs.Lemmas.Envelope
import ConnectProofs.C01
import ConnectModel.Options

namespace ConnectModel.C09
open ConnectModel

theorem takeExact_length_le (n : Nat) (src : Src) : (takeExact n src).1.length ≤ n := by
  unfold takeExact
  split
  · simp [List.length_take]; omega
  · simp; omega

theorem takeExact_length_of_ok (n : Nat) (src : Src) (h : (takeExact n src).2.1 = none) :
    (takeExact n src).1.length = n := by
  unfold takeExact at h ⊢
  split
  · simp [List.length_take]; omega
  · rename_i hh; simp [hh] at h

/-- the payload loop only ever returns a frame of exactly the promised size -/
theorem payloadLoop_length : ∀ (fuel remaining : Nat) (acc : Bytes) (src : Src) (data : Bytes) (fl : UInt8),
    ((payloadLoop fuel remaining acc).run takeExact src).1 = .frame fl data →
    data.length = acc.length + remaining := by
  intro fuel
  induction fuel with
  | zero => intro remaining acc src data fl h; simp [payloadLoop, Prog.run] at h
  | succ fuel ih =>
    intro remaining acc src data fl h
    simp only [payloadLoop] at h
    by_cases hr : remaining = 0
    · simp only [hr, if_true, Prog.run] at h
      cases h; simp [hr]
    · simp only [hr, if_false, Prog.run] at h
      have hle := takeExact_length_le remaining src
      cases he : (takeExact remaining src).2.1 with
      | none =>
        have hlen := takeExact_length_of_ok remaining src he
        rw [he] at h
        simp only at h
        have := ih _ _ _ _ _ h
        simp only [List.length_append] at this
        omega
      | some err =>
        rw [he] at h
        simp only at h
        by_cases h1 : (!err.isEOF) = true
        · simp only [h1, if_true, Prog.run] at h; cases h
        · simp only [h1, if_false] at h
          by_cases h2 : (takeExact remaining src).1.length = 0
          · simp only [h2, if_true, Prog.run] at h; cases h
          · simp only [h2, if_false] at h
            have := ih _ _ _ _ _ h
            simp only [List.length_append] at this
            omega

/-- **read_within_limit**: with a limit `N ≥ 1`, whatever the peer sends (any bytes, any
    declared length, any ending), a frame returned by `Read` carries at most `N` payload bytes,
    and the buffer was grown by at most `N`. -/
theorem read_within_limit (max : Nat) (hmax : 0 < max) (src : Src) :
    ((envRead max).run takeExact src).1.grown ≤ max ∧
    ∀ fl data, ((envRead max).run takeExact src).1.outcome = .frame fl data → data.length ≤ max := by
  simp only [envRead, Prog.run]
  cases he : (takeExact 5 src).2.1 with
  | some err =>
    simp only
    split
    · simp [Prog.run]
    · cases err <;> simp [Prog.run]
  | none =>
    simp only
    unfold envReadBody
    split
    · rename_i fl a b c d _
      simp only
      by_cases h0 : fromBe32 a b c d = 0
      · simp [h0, Prog.run]
      · simp only [h0, if_false]
        by_cases hover : max > 0 ∧ fromBe32 a b c d > max
        · simp only [hover, and_self, if_true, Prog.run]
          cases (takeExact (fromBe32 a b c d) (takeExact 5 src).2.2).2.1 with
          | none => simp [Prog.run]
          | some e =>
            simp only
            split
            · simp [Prog.run]
            · cases e <;> simp [Prog.run]
        · simp only [hover, if_false]
          rw [Prog.run_bind]
          have hsz : fromBe32 a b c d ≤ max := by omega
          rcases hp : (payloadLoop 3 (fromBe32 a b c d) []).run takeExact (takeExact 5 src).2.2 with ⟨o, st⟩
          cases o with
          | fail e => simp [Prog.run, hsz]
          | frame f data =>
            have := payloadLoop_length 3 _ [] _ data f (by rw [hp])
            simp only [Prog.run]
            refine ⟨hsz, ?_⟩
            intro fl' data' hh
            cases hh
            simp at this; omega
    · simp [Prog.run]

/-- **oversize_wire_rejected**: a frame whose payload on the wire exceeds the limit is rejected
    with invalid_argument (and nothing is buffered for it), wherever it sits in the stream. -/
theorem oversize_wire_rejected (max : Nat) (hmax : 0 < max) (fl : UInt8) (data rest : Bytes) (tail : RErr)
    (hlen : data.length < 2 ^ 32) (hbig : data.length > max) :
    (envRead max).run takeExact { flat := envPrefix fl data.length ++ data ++ rest, tail := tail } =
      ({ outcome := .fail { code := codeInvalidArgument, wrapsEOF := false }, grown := 0 }, { flat := rest, tail := tail }) := by
  obtain ⟨a, b, c, d, hbe, hfrom⟩ := fromBe32_be32 data.length hlen
  have hpfx : envPrefix fl data.length = [fl, a, b, c, d] := by simp [envPrefix, hbe]
  have h5 : takeExact 5 { flat := envPrefix fl data.length ++ data ++ rest, tail := tail } =
      ([fl, a, b, c, d], none, { flat := data ++ rest, tail := tail }) := by
    rw [hpfx, List.append_assoc]; exact takeExact_append' _ _ _ _ rfl
  have h0 : data.length ≠ 0 := by omega
  have hover : max > 0 ∧ data.length > max := ⟨hmax, hbig⟩
  simp only [envRead, Prog.run, h5, envReadBody, hfrom, h0, if_false, hover, and_self, if_true, takeExact_append]

/-- **decompress_within_limit**: with a limit `N ≥ 1`, decompression never hands more than `N`
    bytes to the codec and never buffers more than `N + 1` bytes, however far the payload
    would expand. -/
theorem decompress_within_limit (c : Compressor) (max : Nat) (hmax : 0 < max) (z : Bytes) :
    (decompressLimited c max z).2 ≤ max + 1 ∧
    ∀ d, (decompressLimited c max z).1 = .ok d → d.length ≤ max := by
  unfold decompressLimited
  simp only [hmax, if_true]
  by_cases h : (c.decompress z).out.length ≥ max + 1
  · simp [h]
  · simp only [h, if_false]
    by_cases hc : (c.decompress z).clean = true
    · simp only [hc, if_true]
      refine ⟨by omega, ?_⟩
      intro d hd; cases hd; omega
    · simp only [hc]
      refine ⟨by simp; omega, ?_⟩
      intro d hd; simp at hd

/-- **decompressed_oversize_rejected**: a payload whose decompressed size exceeds the limit is
    rejected (the wire size may be tiny). -/
theorem decompressed_oversize_rejected (c : Compressor) (max : Nat) (hmax : 0 < max) (z : Bytes)
    (hbig : (c.decompress z).out.length > max) : (decompressLimited c max z).1 = .fail := by
  unfold decompressLimited
  have : (c.decompress z).out.length ≥ max + 1 := by omega
  simp [hmax, this]

/-- **no_oversize_delivery** + **buffer_bound**: with a limit `N ≥ 1`, for *any* bytes a peer
    sends, a message handed to the application was decoded from at most `N` bytes, and the
    receiver buffered at most `2·N + 1` bytes for it. -/
theorem no_oversize_delivery {Val : Type} (cfg : ReaderCfg Val) (hmax : 0 < cfg.max) (src : Src) :
    ((envUnmarshal cfg).run takeExact src).1.buffered ≤ 2 * cfg.max + 1 ∧
    ∀ v, ((envUnmarshal cfg).run takeExact src).1.outcome = .msg (some v) →
      ∃ d, cfg.codec.unmarshal d = some v ∧ d.length ≤ cfg.max := by
  unfold envUnmarshal
  rw [Prog.run_bind]
  obtain ⟨hg, hf⟩ := read_within_limit cfg.max hmax src
  rcases hr : (envRead cfg.max).run takeExact src with ⟨r, st⟩
  rw [hr] at hg hf
  simp only at hg hf
  simp only [Prog.run, unmarshalFrame]
  cases ho : r.outcome with
  | fail e => simp only; exact ⟨by omega, by intro v h; cases h⟩
  | frame fl data =>
    have hd := hf fl data ho
    simp only
    split
    · exact ⟨by simp; omega, by intro v h; simp at h⟩
    · split
      · cases hp : cfg.pool with
        | none => simp only; exact ⟨by omega, by intro v h; cases h⟩
        | some c =>
          simp only
          obtain ⟨hb, hok⟩ := decompress_within_limit c cfg.max hmax data
          rcases hdl : decompressLimited c cfg.max data with ⟨res, n⟩
          rw [hdl] at hb hok
          simp only at hb hok
          cases res with
          | fail => simp only; exact ⟨by omega, by intro v h; cases h⟩
          | ok d =>
            simp only
            have hdlen := hok d rfl
            split
            · exact ⟨by simp; omega, by intro v h; simp at h⟩
            · cases hu : cfg.codec.unmarshal d with
              | none => simp only; exact ⟨by omega, by intro v h; cases h⟩
              | some v' =>
                simp only
                refine ⟨by omega, ?_⟩
                intro v h; simp at h; subst h
                exact ⟨d, hu, hdlen⟩
      · split
        · exact ⟨by simp; omega, by intro v h; simp at h⟩
        · cases hu : cfg.codec.unmarshal data with
          | none => simp only; exact ⟨by omega, by intro v h; cases h⟩
          | some v' =>
            simp only
            refine ⟨by omega, ?_⟩
            intro v h; simp at h; subst h
            exact ⟨data, hu, hd⟩

/-- **within_limit_accepted**: the other half of "exactly" - with a limit `N ≥ 1`, a message whose
    encoded size and whose size on the wire (after the writer's compression decision) are both
    at most `N` is delivered intact, at every position of a stream (arbitrary bytes `rest` may
    follow; by `C03` under every segmentation). Corollary of `C01.unmarshal_marshal`. -/
theorem within_limit_accepted {Val : Type} (w : WriterCfg Val) (rcfg : ReaderCfg Val) (zero : Val)
    (hcodec : rcfg.codec = w.codec) (hpool : rcfg.pool = w.pool)
    (hc : C01.CodecLaws w.codec zero) (hz : ∀ c, w.pool = some c → C01.CompLaws c)
    (v : Val) (rest : Bytes) (tail : RErr)
    (hwire : (C01.wirePayload w v).length ≤ rcfg.max) (hplain : (w.codec.marshal v).length ≤ rcfg.max)
    (h32 : rcfg.max < 2 ^ 32) :
    ∃ y buffered, (envUnmarshal rcfg).run takeExact { flat := envMarshal w v ++ rest, tail := tail } =
        ({ outcome := .msg y, buffered := buffered }, { flat := rest, tail := tail }) ∧
      C01.yieldValue zero (.msg y) = some v :=
  C01.unmarshal_marshal w rcfg zero hcodec hpool hc hz v rest tail
    ⟨by omega, Or.inr ⟨hwire, hplain⟩⟩

/-! ### the largest limit there is: `n + 1` in 64-bit arithmetic

  The model above counts in `Nat`; the code computes `readMaxBytes + 1` in `int64` for the
  `io.LimitReader` that bounds what is buffered. These three statements tie the two: under the
  guard the code uses, 64-bit `n + 1` is the natural-number `n + 1`; without it the largest
  limit wraps to a negative bound (a `LimitReader` that yields nothing: every message would
  arrive empty, and "at most N is accepted intact" would fail for N = 2^63 - 1); and every site
  that computes such a bound is under that guard (fact regenerated from the source). -/

/-- **limit_plus_one_no_wrap**: for `0 < n < math.MaxInt64`, `n + 1` does not wrap. -/
theorem limit_plus_one_no_wrap (n : BitVec 64) (h0 : 0 < n.toInt) (h1 : n.toInt < 2 ^ 63 - 1) :
    (n + 1).toInt = n.toInt + 1 ∧ 0 < (n + 1).toInt := by
  have : (n + 1).toInt = n.toInt + 1 := by
    rw [BitVec.toInt_add]
    simp only [BitVec.toInt_ofNat, Nat.reducePow]
    simp only [Int.bmod_def]
    omega
  omega

/-- … and at `math.MaxInt64` it does: the bound would be negative. -/
theorem limit_plus_one_wraps_at_max : ((BitVec.ofInt 64 (2 ^ 63 - 1)) + 1#64).toInt < 0 := by decide

/-- **limit_sites_guarded**: every `io.LimitReader(r, n+1)` in the package sits under an `if`
    that compares against `math.MaxInt64` (`Gen.limitReaderPlusOneSites`, rebuilt by
    `tools/extract` from the syntax tree on every run). -/
theorem limit_sites_guarded : ∀ w ∈ Gen.limitReaderPlusOneSites, w.2 = 0 := by decide

example : Gen.limitReaderPlusOneSites.length = 2 := by decide

/-! ### which N? - the last `WithReadMaxBytes` given -/

mutual
theorem SOpt.apply_eq_last : ∀ (o : SOpt) (cur : Nat), o.apply cur = (o.values.getLast?).getD cur
  | .readMax n, cur => by simp [SOpt.apply, SOpt.values]
  | .group os, cur => by simpa [SOpt.apply, SOpt.values] using SOpt.applyList_eq_last os cur
  | .other, cur => by simp [SOpt.apply, SOpt.values]
theorem SOpt.applyList_eq_last : ∀ (os : List SOpt) (cur : Nat),
    SOpt.applyList os cur = ((SOpt.valuesList os).getLast?).getD cur
  | [], cur => by simp [SOpt.applyList, SOpt.valuesList]
  | o :: os, cur => by
    simp only [SOpt.applyList, SOpt.valuesList]
    rw [SOpt.applyList_eq_last os, SOpt.apply_eq_last o cur]
    cases hv : SOpt.valuesList os with
    | nil => simp
    | cons v vs => simp [List.getLast?_append]
end

/-- **read_limit_last_wins**: however the options are grouped and nested, the limit in force is the
    value of the last `WithReadMaxBytes` in declaration order (and the default, none, if there
    is none): an earlier, tighter limit does not survive a later override, and `0` lifts it. -/
theorem read_limit_last_wins (os : List SOpt) :
    SOpt.applyList os 0 = ((SOpt.valuesList os).getLast?).getD 0 := SOpt.applyList_eq_last os 0

example : SOpt.applyList [.group [.readMax 64, .other], .group [.group [.readMax 0]]] 0 = 0 := by decide
example : SOpt.applyList [.readMax 64, .group [.readMax 4096]] 0 = 4096 := by decide

/-! non-vacuity: N = 2; a 3-byte frame is rejected, a lying prefix allocates nothing -/
example : ((envRead 2).run takeExact { flat := [0,0,0,0,3,1,2,3,9], tail := .eof }).1 =
    { outcome := .fail { code := codeInvalidArgument, wrapsEOF := false }, grown := 0 } := by decide
example : ((envRead 2).run takeExact { flat := [0,255,255,255,255,1], tail := .eof }).1.grown = 0 := by decide

end ConnectModel.C09
