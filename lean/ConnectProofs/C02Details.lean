/-
  C02, continued - errors whose details cannot be put on the wire.

  C02 quantifies over errors whose details are Any-wrapped messages; its last clause - "an error
  is never delivered as success" - does not depend on that. `serveD` (ConnectModel/Proto) says
  what the handler side writes when a detail cannot be rendered as JSON (an `Any` of a type the
  binary does not know: fix F38) or cannot be converted to an `Any` at all; the theorems here say
  what a client then sees: with an unrenderable detail the code and the message still arrive
  (Connect) or everything does (gRPC, whose `Status` is binary); with an unencodable one the call
  fails, in every protocol, after the messages that were sent.
-/
import ConnectProofs.C02

namespace ConnectModel.C02
open ConnectModel

/-! ### `serveD` is `serve` where there is nothing special about the details -/

theorem serveD_good (enc : WireErr → Bytes) (c : HConn) (p : HProg) : serveD .good enc c p = serve enc c p := by
  unfold serveD; split <;> rfl

theorem serveD_no_details (ds : DetailState) (enc : WireErr → Bytes) (c : HConn) (p : HProg)
    (h : carriesDetails p.result = false) : serveD ds enc c p = serve enc c p := by
  unfold serveD; simp [h]

/-- **unrenderable_grpc_unchanged**: the gRPC protocols carry the details in binary; a detail
    that JSON cannot render changes nothing there (so `grpc_call_roundtrip` applies: the details
    arrive, the unknown one included). -/
theorem unrenderable_grpc_unchanged (enc : WireErr → Bytes) (c : HConn) (p : HProg) (h : c.proto ≠ .connect) :
    serveD .unrenderable enc c p = serve enc c p := by
  unfold serveD
  split
  · rfl
  · cases hp : c.proto <;> simp_all

/-! ### a detail that cannot be rendered (fix F38) -/

/-- **unrenderable_unary_on_wire**: a unary Connect handler fails with a coded error one of whose
    details cannot be rendered: the response has the code's HTTP status and a well-formed error
    body with the code and the message - without details. -/
theorem unrenderable_unary_on_wire (enc : WireErr → Bytes) (c : HConn) (p : HProg) (e : CErr)
    (hp : c.proto = .connect) (hk : c.kind = .unary) (hr : p.result = some (.coded e)) :
    (serveD .unrenderable enc c p).status = codeToHTTP e.code ∧
    (serveD .unrenderable enc c p).body = [.errorJSON { code := e.code, msg := e.msg, details := [] }] := by
  simp [serveD, hr, carriesDetails, hp, serve, hk, serveConnectUnary, stripDetails, toWire, wireOf]

/-- **unrenderable_stream_on_wire**: ... and a Connect stream still ends with an end-of-stream
    message that carries the code and the message. -/
theorem unrenderable_stream_on_wire (enc : WireErr → Bytes) (c : HConn) (p : HProg) (e : CErr)
    (hp : c.proto = .connect) (hk : c.kind ≠ .unary) (hr : p.result = some (.coded e)) :
    ∃ md, (serveD .unrenderable enc c p).body.getLast? =
      some (.endStream (some { code := e.code, msg := e.msg, details := [] }) md) := by
  simp [serveD, hr, carriesDetails, hp, serve, hk, serveConnectStream, stripDetails, toWire, wireOf]

/-- **unrenderable_unary_client**: what the client makes of it: the handler's code and message,
    no details. -/
theorem unrenderable_unary_client (enc : WireErr → Bytes) (c : HConn) (cfg : CCfg) (st : Bytes) (p : HProg) (e : CErr)
    (hp : c.proto = .connect) (hk : c.kind = .unary) (hr : p.result = some (.coded e)) (h0 : e.code ≠ 0)
    (henc : encodingKnown cfg ((serveD .unrenderable enc c p).header.get Gen.hdrConnectUnaryEncoding) = true) :
    ∃ md, (clientConnectUnary cfg st (serveD .unrenderable enc c p)).result =
      some { code := e.code, msg := e.msg, details := [], md := md } := by
  obtain ⟨hs, hb⟩ := unrenderable_unary_on_wire enc c p e hp hk hr
  have h200 : (serveD .unrenderable enc c p).status ≠ 200 := by
    rw [hs]; have := C18.code_http_range e.code; omega
  exact ⟨_, connect_unary_error_decoded cfg st _ { code := e.code, msg := e.msg, details := [] } h200 hb h0 henc⟩

/-- **unrenderable_lost_everything_on_pinned** (history): before F38 the JSON marshalling failed as
    a whole: a handler's `aborted` with such a detail reached a unary Connect client as `unknown`
    (HTTP 409 has no code of its own), its message replaced by the HTTP status text. -/
theorem unrenderable_lost_everything_on_pinned :
    ∃ (c : HConn) (cfg : CCfg) (p : HProg) (e : CErr), p.result = some (.coded e) ∧ e.code = 10 ∧
      ∀ enc st, (clientConnectUnary cfg st (serveDPinned .unrenderable enc c p)).result =
        some { code := codeUnknown, msg := st, details := [], md := [] } := by
  refine ⟨{ proto := .connect, kind := .unary, contentType := [97], names := [], respCompression := Gen.compressionIdentity,
            pool := none, minBytes := 0 },
          { proto := .connect, kind := .unary, accepts := [], pool := rleCompressor, max := 0 },
          { header := [], trailer := [], sends := [], result := some (.coded { code := 10, msg := [110, 111], details := [[1]], md := [] }) },
          { code := 10, msg := [110, 111], details := [[1]], md := [] }, rfl, rfl, ?_⟩
  intro enc st
  have hs : codeToHTTP 10 = 409 := by decide
  have hc : connectHTTPToCode 409 = codeUnknown := by decide
  simp [serveDPinned, serveD, carriesDetails, serveConnectUnary, toWire, wireOf, clientConnectUnary, encodingKnown, hs, hc,
    Header.get, Header.set, mergeHeaders, addTrailerPrefixed]

/-! ### a detail that cannot be converted to an `Any` at all: the call fails, in every protocol -/

def IsFrame : BodyItem → Prop
  | .frame _ _ => True
  | _ => False

theorem msgFrame_isFrame (c : HConn) (m : Bytes) : IsFrame (msgFrame c m) := by
  unfold msgFrame; split
  · trivial
  · split <;> trivial

/-- frames in front do not change how a body ends - unless one of them fails -/
theorem recvItems_frames_terminal (cfg : CCfg) (enc : Option Compressor) (fs rest : List BodyItem)
    (hf : ∀ it ∈ fs, IsFrame it) :
    (recvItems cfg enc (fs ++ rest)).2 = (recvItems cfg enc rest).2 ∨
      ∃ code, (recvItems cfg enc (fs ++ rest)).2 = .fail code := by
  induction fs with
  | nil => exact Or.inl rfl
  | cons it fs ih =>
    have ih' := ih (fun x hx => hf x (List.mem_cons_of_mem _ hx))
    have hit := hf it (List.mem_cons_self ..)
    cases it with
    | frame fl pl =>
      simp only [List.cons_append, recvItems]
      split
      · split
        · exact ih'
        · split
          · exact Or.inr ⟨_, rfl⟩
          · split
            · split
              · exact Or.inr ⟨_, rfl⟩
              · split
                · exact ih'
                · exact Or.inr ⟨_, rfl⟩
            · exact ih'
      · exact Or.inr ⟨_, rfl⟩
    | endStream _ _ => exact absurd hit (by simp [IsFrame])
    | webTrailer _ => exact absurd hit (by simp [IsFrame])
    | raw _ => exact absurd hit (by simp [IsFrame])
    | errorJSON _ => exact absurd hit (by simp [IsFrame])
    | errorJSONz _ => exact absurd hit (by simp [IsFrame])

/-- **unencodable_never_success_connect_unary**: the status is out before the body is attempted:
    an error status and no body; the client reports a failure (coded by the HTTP status). -/
theorem unencodable_never_success_connect_unary (enc : WireErr → Bytes) (c : HConn) (cfg : CCfg) (st : Bytes)
    (p : HProg) (e : CErr) (hp : c.proto = .connect) (hk : c.kind = .unary) (hr : p.result = some (.coded e)) :
    400 ≤ (serveD .unencodable enc c p).status ∧ (serveD .unencodable enc c p).status ≤ 599 ∧
    (clientConnectUnary cfg st (serveD .unencodable enc c p)).result ≠ none ∧
    (clientConnectUnary cfg st (serveD .unencodable enc c p)).msgs = [] := by
  have hs : (serveD .unencodable enc c p).status = codeToHTTP e.code := by
    simp [serveD, hr, carriesDetails, hp, hk, serveConnectUnary, toWire, wireOf]
  have hb : (serveD .unencodable enc c p).body = [] := by
    simp [serveD, hr, carriesDetails, hp, hk]
  have hrange := C18.code_http_range e.code
  have h200 : (serveD .unencodable enc c p).status ≠ 200 := by rw [hs]; omega
  refine ⟨by rw [hs]; exact hrange.1, by rw [hs]; exact hrange.2, ?_, ?_⟩
  · unfold clientConnectUnary
    simp only [h200, ne_eq, not_false_eq_true, if_true, hb]
    split <;> simp
  · unfold clientConnectUnary
    simp only [h200, ne_eq, not_false_eq_true, if_true, hb]
    split <;> simp

/-- **unencodable_never_success_connect_stream**: no end-of-stream message is written; a body that
    ends without one is a failure for the client, whatever was sent before. -/
theorem unencodable_never_success_connect_stream (enc : WireErr → Bytes) (c : HConn) (cfg : CCfg)
    (p : HProg) (e : CErr) (hp : c.proto = .connect) (hk : c.kind ≠ .unary) (hr : p.result = some (.coded e)) :
    (clientConnectStream cfg (serveD .unencodable enc c p)).result ≠ none := by
  have hb : (serveD .unencodable enc c p).body = p.sends.map (msgFrame c) := by
    simp [serveD, hr, carriesDetails, hp, hk]
  have hterm : ∀ z, (recvItems cfg z (p.sends.map (msgFrame c))).2 = .cleanEOF ∨
      ∃ code, (recvItems cfg z (p.sends.map (msgFrame c))).2 = .fail code := by
    intro z
    have := recvItems_frames_terminal cfg z (p.sends.map (msgFrame c)) []
      (by intro it hit; obtain ⟨m, _, rfl⟩ := List.mem_map.1 hit; exact msgFrame_isFrame c m)
    simpa [recvItems] using this
  unfold clientConnectStream
  split
  · simp
  · simp only []
    split
    · simp
    · simp only [hb]
      generalize hrec : recvItems cfg (encodingPool cfg ((serveD .unencodable enc c p).header.get Gen.hdrConnectStreamEncoding))
        (p.sends.map (msgFrame c)) = res
      have ht := hterm (encodingPool cfg ((serveD .unencodable enc c p).header.get Gen.hdrConnectStreamEncoding))
      rw [hrec] at ht
      obtain ⟨msgs, term⟩ := res
      simp only at ht
      rcases ht with h | ⟨code, h⟩ <;> subst h <;> simp

def NotOK (dec : Bytes → Option WireErr) (raw : Header) : Prop :=
  grpcErrorFromTrailer dec (mergeHeaders [] raw) ≠ .ok

theorem notOK_nil (dec : Bytes → Option WireErr) : NotOK dec [] := by
  simp [NotOK, grpcErrorFromTrailer, mergeHeaders, Header.get, Header.vals]

theorem clientGrpc_fails (dec : Bytes → Option WireErr) (cfg : CCfg) (r : Resp)
    (hS : (mergeHeaders [] r.header).get Gen.hdrGrpcStatus = [] ∨
          (∃ w, grpcErrorFromTrailer dec r.header = .serverErr w) ∨ grpcErrorFromTrailer dec r.header = .protocolErr)
    (h1 : NotOK dec r.trailer)
    (h2 : ∀ z b, (recvItems cfg z r.body).2 = .webTrailer b → NotOK dec b) :
    (clientGrpc dec cfg r).result ≠ none := by
  unfold clientGrpc
  simp only []
  split
  · simp
  · split
    · simp
    · split
      · simp
      · simp
      · rename_i hv1 hv2
        have hS' : (mergeHeaders [] r.header).get Gen.hdrGrpcStatus = [] := by
          rcases hS with h | ⟨w, h⟩ | h
          · exact h
          · exact absurd h (hv1 w)
          · exact absurd h hv2
        generalize hrec : recvItems cfg (encodingPool cfg (r.header.get Gen.hdrGrpcEncoding)) r.body = res
        obtain ⟨msgs, term⟩ := res
        have h2' := h2 (encodingPool cfg (r.header.get Gen.hdrGrpcEncoding))
        rw [hrec] at h2'
        simp only [hS', ne_eq, not_true_eq_false, if_false]
        have hnil := notOK_nil dec
        cases term with
        | cleanEOF =>
          by_cases hw : cfg.proto = Proto.grpcWeb
          · simp only [hw, if_true]
            unfold NotOK at hnil
            cases hv : grpcErrorFromTrailer dec (mergeHeaders [] []) <;> simp_all
          · simp only [hw, if_false]
            unfold NotOK at h1
            cases hv : grpcErrorFromTrailer dec (mergeHeaders [] r.trailer) <;> simp_all
        | webTrailer b =>
          have hb := h2' b rfl
          unfold NotOK at hb
          simp only []
          cases hv : grpcErrorFromTrailer dec (mergeHeaders [] b) <;> simp_all
        | fail c =>
          by_cases hw : cfg.proto = Proto.grpcWeb
          · simp only [hw, if_true]
            unfold NotOK at hnil
            cases hv : grpcErrorFromTrailer dec (mergeHeaders [] []) <;> simp_all
          · simp only [hw, if_false]
            unfold NotOK at h1
            cases hv : grpcErrorFromTrailer dec (mergeHeaders [] r.trailer) <;> simp_all
        | endStream e m =>
          by_cases hw : cfg.proto = Proto.grpcWeb
          · simp only [hw, if_true]
            unfold NotOK at hnil
            cases hv : grpcErrorFromTrailer dec (mergeHeaders [] []) <;> simp_all
          · simp only [hw, if_false]
            unfold NotOK at h1
            cases hv : grpcErrorFromTrailer dec (mergeHeaders [] r.trailer) <;> simp_all

/-- a status that parses to a non-zero number is a failure, whatever else the map carries -/
theorem verdict_of_nonzero_status (dec : Bytes → Option WireErr) (T : Header) (s : Bytes) (n : Nat)
    (hS : T.get Gen.hdrGrpcStatus = s) (hne : s ≠ []) (hp : parseUint32 s = some n) (h0 : n ≠ 0) :
    (∃ w, grpcErrorFromTrailer dec T = .serverErr w) ∨ grpcErrorFromTrailer dec T = .protocolErr := by
  unfold grpcErrorFromTrailer
  simp only [hS, hne, if_false, hp, h0]
  split
  · exact Or.inl ⟨_, rfl⟩
  · split
    · exact Or.inr rfl
    · split
      · exact Or.inr rfl
      · split
        · exact Or.inr rfl
        · exact Or.inl ⟨_, rfl⟩

theorem parse13 : parseUint32 (showDec codeInternal) = some 13 := parseUint32_showDec 13 (by decide)
theorem graphic13 : Graphic (showDec codeInternal) := showDec_graphic _
theorem ne13 : showDec codeInternal ≠ [] := showDec_ne_nil _

theorem grpcTrailersUnencodable_wf (t : Header) : (grpcTrailersUnencodable t).wf :=
  Header.set_wf _ _ _ (Header.set_wf _ _ _ (mergeHeaders_wf _ _ Header.nil_wf))

theorem grpcTrailersUnencodable_status (t : Header) :
    (grpcTrailersUnencodable t).get Gen.hdrGrpcStatus = showDec codeInternal := by
  obtain ⟨d1, _, _⟩ := hdr_keys_distinct
  unfold grpcTrailersUnencodable
  rw [Header.get_set_ne _ _ _ _ d1, Header.get_set]

theorem notOK_of_status13 (dec : Bytes → Option WireErr) (T : Header) (hw : T.wf)
    (hS : T.get Gen.hdrGrpcStatus = showDec codeInternal) : NotOK dec T := by
  unfold NotOK
  rw [verdict_copy dec T hw]
  rcases verdict_of_nonzero_status dec T _ 13 hS ne13 parse13 (by decide) with ⟨w, h⟩ | h <;> simp [h]

/-- **unencodable_never_success_grpc**: gRPC and gRPC-Web: the trailers say `internal`, wherever
    they travel (HTTP trailers, the trailer frame of gRPC-Web, or the headers of a response
    without messages); the client reports a failure. -/
theorem unencodable_never_success_grpc (dec : Bytes → Option WireErr) (web : Bool) (c : HConn) (cfg : CCfg) (p : HProg)
    (hH : p.header.wf) (hHs : p.header.vals Gen.hdrGrpcStatus = []) :
    (clientGrpc dec cfg (serveGrpcWith (grpcTrailersUnencodable p.trailer) web c p)).result ≠ none := by
  have n1 : Gen.hdrGrpcStatus ≠ Gen.hdrContentType := by decide
  have n2 : Gen.hdrGrpcStatus ≠ Gen.hdrGrpcAcceptEncoding := by decide
  have n3 : Gen.hdrGrpcStatus ≠ Gen.hdrGrpcEncoding := by decide
  let T := grpcTrailersUnencodable p.trailer
  have hTwf : T.wf := grpcTrailersUnencodable_wf _
  have hTS : T.get Gen.hdrGrpcStatus = showDec codeInternal := grpcTrailersUnencodable_status _
  let h0 : Header := [(Gen.hdrContentType, [c.contentType]), (Gen.hdrGrpcAcceptEncoding, [c.names])] ++
    (if c.respCompression = Gen.compressionIdentity then [] else [(Gen.hdrGrpcEncoding, [c.respCompression])])
  have h0wf : h0.wf := by simp only [h0]; split <;> simp [Header.wf] <;> decide
  have h1wf : (mergeHeaders h0 p.header).wf := mergeHeaders_wf _ _ h0wf
  have h1S : (mergeHeaders h0 p.header).vals Gen.hdrGrpcStatus = [] := by
    rw [vals_mergeHeaders _ _ hH, hHs]
    simp only [h0]; split <;> simp [Header.vals, n1, n2, n3]
  have hframes : ∀ it ∈ p.sends.map (msgFrame c), IsFrame it := by
    intro it hit; obtain ⟨m, _, rfl⟩ := List.mem_map.1 hit; exact msgFrame_isFrame c m
  apply clientGrpc_fails
  · -- the headers
    by_cases hweb : web = true
    · by_cases hs : p.sends = []
      · -- trailers-only: the status is in the headers
        have hhdr : (serveGrpcWith T web c p).header = mergeHeaders (mergeHeaders h0 p.header) T := by
          simp [serveGrpcWith, hweb, hs, h0]
        have hget : (serveGrpcWith T web c p).header.get Gen.hdrGrpcStatus = showDec codeInternal := by
          rw [hhdr]
          simp only [Header.get, vals_mergeHeaders _ _ hTwf, h1S, List.nil_append]
          exact hTS
        right
        rcases verdict_of_nonzero_status dec _ _ 13 hget ne13 parse13 (by decide) with h | h
        · exact Or.inl h
        · exact Or.inr h
      · left
        have hhdr : (serveGrpcWith T web c p).header = mergeHeaders h0 p.header := by
          simp [serveGrpcWith, hweb, hs, h0]
        rw [hhdr]; simp only [Header.get, vals_copy _ h1wf, h1S]; rfl
    · left
      have hhdr : (serveGrpcWith T web c p).header = mergeHeaders h0 p.header := by
        simp [serveGrpcWith, hweb, h0]
      rw [hhdr]; simp only [Header.get, vals_copy _ h1wf, h1S]; rfl
  · -- the HTTP trailers
    by_cases hweb : web = true
    · have : (serveGrpcWith T web c p).trailer = [] := by
        simp only [serveGrpcWith, hweb, if_true]; split <;> rfl
      rw [this]; exact notOK_nil dec
    · have : (serveGrpcWith T web c p).trailer = T := by simp [serveGrpcWith, hweb]
      rw [this]; exact notOK_of_status13 dec T hTwf hTS
  · -- a trailer frame in the body
    intro z b hb
    have hbody : (serveGrpcWith T web c p).body = p.sends.map (msgFrame c) ++
        (if web = true ∧ p.sends ≠ [] then [.webTrailer (sanitizeBlock T)] else []) := by
      by_cases hweb : web = true
      · by_cases hs : p.sends = []
        · simp [serveGrpcWith, hweb, hs]
        · simp [serveGrpcWith, hweb, hs]
      · simp [serveGrpcWith, hweb]
    rw [hbody] at hb
    rcases recvItems_frames_terminal cfg z _ (if web = true ∧ p.sends ≠ [] then [.webTrailer (sanitizeBlock T)] else []) hframes with h | ⟨code, h⟩
    · rw [h] at hb
      split at hb
      · simp only [recvItems] at hb
        split at hb
        · simp only [Terminal.webTrailer.injEq] at hb
          subst hb
          apply notOK_of_status13 dec _ (sanitizeBlock_wf _ (sanitizeBlock_wf _ hTwf))
          rw [sanitizeBlock_get, sanitizeBlock_get, hTS, sanitize_graphic _ graphic13, sanitize_graphic _ graphic13]
        · simp at hb
      · simp [recvItems] at hb
    · rw [h] at hb; simp at hb


theorem unaryWrap_keeps_failure (o : ClientObs) (h : o.result ≠ none) : (unaryWrap o).result ≠ none := by
  unfold unaryWrap
  split <;> simp_all

/-- **unencodable_never_success**: all protocols, all kinds, at the level the `serve` and `cdec`
    correspondence ops tie to the code: a handler's coded error with a detail that cannot be
    converted to an `Any` is a failure for the client of the same protocol. -/
theorem unencodable_never_success (enc : WireErr → Bytes) (dec : Bytes → Option WireErr) (c : HConn) (cfg : CCfg)
    (st : Bytes) (p : HProg) (e : CErr) (hcp : cfg.proto = c.proto) (hck : cfg.kind = c.kind)
    (hr : p.result = some (.coded e)) (hH : p.header.wf) (hHs : p.header.vals Gen.hdrGrpcStatus = []) :
    (clientDecode dec cfg st (serveD .unencodable enc c p)).result ≠ none := by
  cases hp : c.proto with
  | connect =>
    by_cases hk : c.kind = .unary
    · have := (unencodable_never_success_connect_unary enc c cfg st p e hp hk hr).2.2.1
      simpa [clientDecode, hcp, hp, hck, hk] using this
    · have := unencodable_never_success_connect_stream enc c cfg p e hp hk hr
      have hk' : cfg.kind ≠ .unary := by rw [hck]; exact hk
      unfold clientDecode
      simp only [hcp, hp, hk', if_false]
      cases hkk : cfg.kind <;> simp only [] <;> first | exact this | exact unaryWrap_keeps_failure _ this | exact absurd hkk hk'
  | grpc =>
    have hs : serveD .unencodable enc c p = serveGrpcWith (grpcTrailersUnencodable p.trailer) false c p := by
      simp [serveD, hr, carriesDetails, hp]
    have := unencodable_never_success_grpc dec false c cfg p hH hHs
    rw [hs]
    unfold clientDecode
    simp only [hcp, hp]
    cases hkk : cfg.kind <;> simp only [] <;> first | exact this | exact unaryWrap_keeps_failure _ this
  | grpcWeb =>
    have hs : serveD .unencodable enc c p = serveGrpcWith (grpcTrailersUnencodable p.trailer) true c p := by
      simp [serveD, hr, carriesDetails, hp]
    have := unencodable_never_success_grpc dec true c cfg p hH hHs
    rw [hs]
    unfold clientDecode
    simp only [hcp, hp]
    cases hkk : cfg.kind <;> simp only [] <;> first | exact this | exact unaryWrap_keeps_failure _ this

/-! non-vacuity: a handler program and a connection the hypotheses hold for -/
example : ∃ (c : HConn) (cfg : CCfg) (p : HProg) (e : CErr), cfg.proto = c.proto ∧ cfg.kind = c.kind ∧
    p.result = some (.coded e) ∧ p.header.wf ∧ p.header.vals Gen.hdrGrpcStatus = [] ∧ p.sends ≠ [] :=
  ⟨{ proto := .grpcWeb, kind := .server, contentType := [97], names := [], respCompression := Gen.compressionIdentity,
     pool := none, minBytes := 0 },
   { proto := .grpcWeb, kind := .server, accepts := [], pool := rleCompressor, max := 0 },
   { header := [([88], [[1]])], trailer := [([89], [[2]])], sends := [[1], [2]],
     result := some (.coded { code := 10, msg := [110], details := [], md := [] }) },
   { code := 10, msg := [110], details := [], md := [] }, rfl, rfl, rfl, by simp [Header.wf], by decide, by simp⟩

end ConnectModel.C02
