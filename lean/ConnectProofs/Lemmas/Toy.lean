/-
  The toy codec and compressor that the harness plugs into the real library satisfy the laws
  the theorems assume (`CodecLaws`-style round trip, `CompLaws`): the hypotheses of C01/C02/C08
  are discharged for the very instances the correspondence runs use.
-/
import ConnectModel.Toy
import ConnectProofs.C01
namespace ConnectModel

theorem rleAux_some_ne_nil : ∀ (xs : Bytes) (b : UInt8) (n : Nat), rleCompressAux xs (some (b, n)) ≠ []
  | [], b, n => by simp [rleCompressAux]
  | x :: xs, b, n => by
    simp only [rleCompressAux]
    split
    · exact rleAux_some_ne_nil xs b (n + 1)
    · simp

theorem rleDecompress_pair (n : Nat) (b : UInt8) (rest : Bytes) (h1 : 1 ≤ n) (h2 : n ≤ 255) :
    rleDecompress (UInt8.ofNat n :: b :: rest) =
      { out := List.replicate n b ++ (rleDecompress rest).out, clean := (rleDecompress rest).clean } := by
  have hn : (UInt8.ofNat n).toNat = n := by
    simp [UInt8.toNat_ofNat']; omega
  simp only [rleDecompress, hn]
  have : ¬ n = 0 := by omega
  simp [this]

theorem rleAux_roundtrip : ∀ (xs : Bytes) (b : UInt8) (n : Nat), 1 ≤ n → n ≤ 255 →
    rleDecompress (rleCompressAux xs (some (b, n))) = { out := List.replicate n b ++ xs, clean := true }
  | [], b, n, h1, h2 => by
    simp only [rleCompressAux]
    rw [rleDecompress_pair n b [] h1 h2]
    simp [rleDecompress]
  | x :: xs, b, n, h1, h2 => by
    simp only [rleCompressAux]
    split
    · rename_i hc
      rw [rleAux_roundtrip xs b (n + 1) (by omega) (by omega)]
      rw [hc.1]
      simp [List.replicate_succ', List.append_assoc]
    · rw [rleDecompress_pair n b _ h1 h2, rleAux_roundtrip xs x 1 (by omega) (by omega)]
      simp

theorem rle_roundtrip (b : Bytes) : rleDecompress (rleCompress b) = { out := b, clean := true } := by
  cases b with
  | nil => simp [rleCompress, rleCompressAux, rleDecompress]
  | cons x xs =>
    simp only [rleCompress, rleCompressAux]
    rw [rleAux_roundtrip xs x 1 (by omega) (by omega)]
    simp

/-- the harness' compressor satisfies the compressor laws -/
theorem rle_laws : C01.CompLaws rleCompressor where
  roundtrip := rle_roundtrip
  nonempty := by
    intro b h
    cases b with
    | nil => rfl
    | cons x xs => exact absurd h (by simp only [rleCompressor, rleCompress, rleCompressAux]; exact rleAux_some_ne_nil xs x 1)

/-- the harness' codec round-trips every payload it accepts -/
theorem raw_roundtrip (d : Bytes) (h : d.head? ≠ some 0xEE) : rawCodec.unmarshal (rawCodec.marshal d) = some d := by
  simp only [rawCodec, id]
  split
  · rename_i hd; simp at h
  · rfl

end ConnectModel
