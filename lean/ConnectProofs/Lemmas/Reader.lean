import ConnectModel.Reader
namespace ConnectModel

theorem Script.wf_tail {c : Bytes} {rest : List Bytes} {t : RErr} {w : Bool}
    (h : Script.wf { chunks := c :: rest, tail := t, withData := w }) :
    Script.wf { chunks := rest, tail := t, withData := w } :=
  fun x hx => h x (List.mem_cons_of_mem _ hx)

/-- The reading loop, characterised by the flat bytes: independent of the segmentation. -/
theorem readLoop_spec : ∀ (fuel : Nat) (s : Script) (n : Nat) (acc : Bytes), s.wf → n < fuel →
    (readLoop fuel s n acc).1 = acc ++ (takeExact n s.abs).1 ∧
    (readLoop fuel s n acc).2.1 = (takeExact n s.abs).2.1 ∧
    (readLoop fuel s n acc).2.2.abs = (takeExact n s.abs).2.2 ∧
    (readLoop fuel s n acc).2.2.wf := by
  intro fuel
  induction fuel with
  | zero => intro s n acc _ h; omega
  | succ fuel ih =>
    intro s n acc hwf hf
    obtain ⟨chunks, tail, withData⟩ := s
    by_cases hn : n = 0
    · subst hn
      simp [readLoop, takeExact, Script.abs, Script.flat, hwf]
    · simp only [readLoop, hn, if_false]
      cases chunks with
      | nil =>
        have hpos : ¬ (0 ≥ n) := by omega
        simp [read1, takeExact, Script.abs, Script.flat, hpos, hwf]
      | cons c rest =>
        have hc : c ≠ [] := hwf c (by simp)
        have hclen : 0 < c.length := List.length_pos_iff.mpr hc
        have hwf' := Script.wf_tail hwf
        by_cases hle : c.length ≤ n
        · simp only [read1, hle, if_true]
          by_cases hge : c.length ≥ n
          · -- exactly n bytes in this chunk
            have heq : c.length = n := by omega
            simp only [hge, if_true]
            simp only [takeExact, Script.abs, Script.flat, List.flatten_cons, List.length_append]
            have : n ≤ c.length + rest.flatten.length := by omega
            simp only [this, if_true]
            refine ⟨?_, trivial, ?_, hwf'⟩
            · rw [List.take_append_of_le_length (by omega), List.take_of_length_le (by omega)]
            · simp [List.drop_append_of_le_length (show n ≤ c.length by omega), List.drop_of_length_le (show c.length ≤ n by omega)]
          · simp only [hge, if_false]
            have hlt : c.length < n := by omega
            by_cases hend : (rest.isEmpty && withData) = true
            · -- last chunk arrives together with the tail error
              simp only [hend, if_true]
              have hrest : rest = [] := by
                simp only [Bool.and_eq_true, List.isEmpty_iff] at hend; exact hend.1
              subst hrest
              simp only [takeExact, Script.abs, Script.flat, List.flatten_cons, List.flatten_nil, List.append_nil]
              have : ¬ n ≤ c.length := by omega
              simp only [this, if_false]
              exact ⟨trivial, trivial, trivial, hwf'⟩
            · have hend' : (rest.isEmpty && withData) = false := by
                cases h : (rest.isEmpty && withData) <;> simp_all
              simp only [if_neg hend]
              have := ih { chunks := rest, tail := tail, withData := withData } (n - c.length) (acc ++ c) hwf' (by omega)
              obtain ⟨h1, h2, h3, h4⟩ := this
              simp only [takeExact, Script.abs, Script.flat, List.flatten_cons, List.length_append] at h1 h2 h3 ⊢
              by_cases hfit : n ≤ c.length + rest.flatten.length
              · have hfit' : n - c.length ≤ rest.flatten.length := by omega
                simp only [hfit, hfit', if_true] at h1 h2 h3 ⊢
                refine ⟨?_, h2, ?_, h4⟩
                · rw [h1, List.take_append, List.take_of_length_le (show c.length ≤ n by omega)]
                  simp [List.append_assoc]
                · rw [h3]; congr 1
                  rw [List.drop_append, List.drop_of_length_le (show c.length ≤ n by omega)]
                  simp
              · have hfit' : ¬ n - c.length ≤ rest.flatten.length := by omega
                simp only [hfit, hfit', if_false] at h1 h2 h3 ⊢
                refine ⟨?_, h2, h3, h4⟩
                rw [h1]; simp [List.append_assoc]
        · -- the chunk is larger than the request: it is split
          have hgt : c.length > n := by omega
          simp only [read1, hle, if_false]
          have hlen : (c.take n).length = n := by simp [List.length_take]; omega
          simp only [hlen, ge_iff_le, Nat.le_refl, if_true]
          simp only [takeExact, Script.abs, Script.flat, List.flatten_cons, List.length_append]
          have : n ≤ c.length + rest.flatten.length := by omega
          simp only [this, if_true]
          refine ⟨?_, trivial, ?_, ?_⟩
          · rw [List.take_append_of_le_length (by omega)]
          · simp [List.drop_append_of_le_length (show n ≤ c.length by omega)]
          · intro x hx
            simp only [List.mem_cons] at hx
            rcases hx with hx | hx
            · subst hx
              intro hd
              have := congrArg List.length hd
              simp [List.length_drop] at this; omega
            · exact hwf x (List.mem_cons_of_mem _ hx)

/-- **readExact is segmentation-independent**: on a well-formed script it returns exactly what
    the flat-bytes specification returns, and leaves a well-formed script with the same abstraction. -/
theorem readExact_spec (n : Nat) (s : Script) (hwf : s.wf) :
    (readExact n s).1 = (takeExact n s.abs).1 ∧
    (readExact n s).2.1 = (takeExact n s.abs).2.1 ∧
    (readExact n s).2.2.abs = (takeExact n s.abs).2.2 ∧
    (readExact n s).2.2.wf := by
  have := readLoop_spec (n + 1) s n [] hwf (by omega)
  simpa [readExact] using this

end ConnectModel
