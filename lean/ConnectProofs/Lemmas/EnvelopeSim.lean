import ConnectModel.Envelope
import ConnectProofs.Lemmas.Reader
namespace ConnectModel

/-- two byte sources are in simulation w.r.t. `R` if "read exactly n" returns the same bytes and
    error on related states and leaves related states -/
def Sim {σ₁ σ₂ : Type} (R : σ₁ → σ₂ → Prop)
    (rd₁ : Nat → σ₁ → Bytes × Option RErr × σ₁) (rd₂ : Nat → σ₂ → Bytes × Option RErr × σ₂) : Prop :=
  ∀ n a b, R a b → (rd₁ n a).1 = (rd₂ n b).1 ∧ (rd₁ n a).2.1 = (rd₂ n b).2.1 ∧ R (rd₁ n a).2.2 (rd₂ n b).2.2

/-- the relation between a chunked script and its flat-bytes abstraction -/
def AbsRel (s : Script) (src : Src) : Prop := s.wf ∧ s.abs = src

theorem readExact_sim : Sim AbsRel readExact takeExact := by
  intro n a b ⟨hwf, habs⟩
  subst habs
  obtain ⟨h1, h2, h3, h4⟩ := readExact_spec n a hwf
  exact ⟨h1, h2, h4, h3⟩

/-- **Any** reading program gives the same result over two sources in simulation. Since every
    receive path of the model is a `Prog`, this one lemma carries segmentation independence
    through all of them. -/
theorem Prog.run_sim {σ₁ σ₂ α : Type} {R : σ₁ → σ₂ → Prop}
    {rd₁ : Nat → σ₁ → Bytes × Option RErr × σ₁} {rd₂ : Nat → σ₂ → Bytes × Option RErr × σ₂}
    (h : Sim R rd₁ rd₂) (p : Prog α) : ∀ (a : σ₁) (b : σ₂), R a b →
      (p.run rd₁ a).1 = (p.run rd₂ b).1 ∧ R (p.run rd₁ a).2 (p.run rd₂ b).2 := by
  induction p with
  | done x => intro a b hab; exact ⟨rfl, hab⟩
  | read n k ih =>
    intro a b hab
    obtain ⟨h1, h2, h3⟩ := h n a b hab
    simp only [Prog.run]
    rw [h1, h2]
    exact ih _ _ _ _ h3

theorem Prog.run_bind {σ α β : Type} (rd : Nat → σ → Bytes × Option RErr × σ) (p : Prog α) (f : α → Prog β) :
    ∀ st, (p.bind f).run rd st = (f (p.run rd st).1).run rd (p.run rd st).2 := by
  induction p with
  | done a => intro st; rfl
  | read n k ih => intro st; simp only [Prog.bind, Prog.run]; exact ih _ _ _

end ConnectModel
