import ConnectModel.Header
namespace ConnectModel

/-- keys are pairwise distinct (a Go map) -/
def Header.wf (h : Header) : Prop := (h.map (·.1)).Nodup

theorem Header.vals_nil (k : Bytes) : Header.vals [] k = [] := rfl

theorem Header.vals_of_not_mem (h : Header) (k : Bytes) (hk : k ∉ h.map (·.1)) : h.vals k = [] := by
  induction h with
  | nil => rfl
  | cons p rest ih =>
    obtain ⟨k', vs⟩ := p
    simp only [List.map_cons, List.mem_cons, not_or] at hk
    simp only [Header.vals, hk.1, if_false]
    exact ih hk.2

theorem Header.vals_put (h : Header) (k k' : Bytes) (vs : List Bytes) :
    (h.put k vs).vals k' = if k' = k then vs else h.vals k' := by
  induction h with
  | nil =>
    simp only [Header.put, Header.vals]
  | cons p rest ih =>
    obtain ⟨k₀, vs₀⟩ := p
    simp only [Header.put]
    by_cases h1 : k = k₀
    · subst h1
      simp only [if_true, Header.vals]
      by_cases h2 : k' = k <;> simp [h2]
    · simp only [h1, if_false, Header.vals, ih]
      by_cases h2 : k' = k₀
      · subst h2
        have : ¬ k' = k := fun e => h1 e.symm
        simp [this]
      · simp [h2]

theorem Header.keys_put (h : Header) (k : Bytes) (vs : List Bytes) (x : Bytes) :
    x ∈ (h.put k vs).map (·.1) ↔ x = k ∨ x ∈ h.map (·.1) := by
  induction h with
  | nil => simp [Header.put]
  | cons p rest ih =>
    obtain ⟨k₀, vs₀⟩ := p
    simp only [Header.put]
    by_cases h1 : k = k₀
    · subst h1; simp
    · simp only [h1, if_false, List.map_cons, List.mem_cons, ih]
      constructor
      · rintro (h | h | h) <;> simp [h]
      · rintro (h | h | h) <;> simp [h]

theorem Header.put_wf (h : Header) (k : Bytes) (vs : List Bytes) (hw : h.wf) : (h.put k vs).wf := by
  induction h with
  | nil => simp [Header.put, Header.wf]
  | cons p rest ih =>
    obtain ⟨k₀, vs₀⟩ := p
    simp only [Header.wf, List.map_cons, List.nodup_cons] at hw
    simp only [Header.put]
    by_cases h1 : k = k₀
    · subst h1
      simp only [if_true, Header.wf, List.map_cons, List.nodup_cons]
      exact hw
    · simp only [h1, if_false, Header.wf, List.map_cons, List.nodup_cons]
      refine ⟨?_, ih hw.2⟩
      intro hm
      rw [Header.keys_put] at hm
      rcases hm with hm | hm
      · exact h1 hm.symm
      · exact hw.1 hm

theorem Header.nil_wf : Header.wf [] := by simp [Header.wf]

/-- `mergeHeaders` appends, per key, the values of `from` after those of `into` -/
theorem vals_mergeHeaders (a b : Header) (hb : b.wf) (k : Bytes) :
    (mergeHeaders a b).vals k = a.vals k ++ b.vals k := by
  induction b generalizing a with
  | nil => simp [mergeHeaders, Header.vals]
  | cons p rest ih =>
    obtain ⟨k₁, v₁⟩ := p
    simp only [Header.wf, List.map_cons, List.nodup_cons] at hb
    have hrest : Header.wf rest := hb.2
    simp only [mergeHeaders, List.foldl_cons]
    have := ih (a.put k₁ (a.vals k₁ ++ v₁)) hrest
    simp only [mergeHeaders] at this
    rw [this, Header.vals_put]
    by_cases hk : k = k₁
    · subst hk
      simp only [if_true, Header.vals]
      rw [Header.vals_of_not_mem rest k hb.1]
      simp
    · simp only [hk, if_false, Header.vals]

theorem mergeHeaders_wf (a b : Header) (ha : a.wf) : (mergeHeaders a b).wf := by
  induction b generalizing a with
  | nil => simpa [mergeHeaders] using ha
  | cons p rest ih =>
    simp only [mergeHeaders, List.foldl_cons]
    exact ih _ (Header.put_wf _ _ _ ha)

theorem Header.get_set (h : Header) (k v : Bytes) : (h.set k v).get k = v := by
  simp [Header.get, Header.set, Header.vals_put]

theorem Header.get_set_ne (h : Header) (k k' v : Bytes) (hne : k' ≠ k) : (h.set k v).get k' = h.get k' := by
  simp [Header.get, Header.set, Header.vals_put, hne]

theorem Header.vals_set_ne (h : Header) (k k' v : Bytes) (hne : k' ≠ k) : (h.set k v).vals k' = h.vals k' := by
  simp [Header.set, Header.vals_put, hne]

theorem Header.set_wf (h : Header) (k v : Bytes) (hw : h.wf) : (h.set k v).wf := Header.put_wf _ _ _ hw

end ConnectModel
