/-
  Lemmas about the UTF-8 model: `toValidUTF8` always yields valid UTF-8 and is the identity on
  valid input (fix F23: what goes into a status message / error JSON can always be serialized,
  and a valid message is never altered).
-/
import ConnectModel.Utf8

namespace ConnectModel

/-- well-formedness as an inductive predicate: a sequence of well-formed runes -/
inductive Utf8WF : Bytes → Prop where
  | nil : Utf8WF []
  | rune (bs : Bytes) (h : runeLen bs ≠ 0) (rest : Utf8WF (bs.drop (runeLen bs))) : Utf8WF bs

theorem runeLen_le_four (bs : Bytes) : runeLen bs ≤ 4 := by
  unfold runeLen
  repeat' (first | omega | split)

theorem runeLen_le_length (bs : Bytes) : runeLen bs ≤ bs.length := by
  unfold runeLen
  repeat' (first | (simp only [List.length_cons, List.length_nil]; omega) | split)

/-- the rune at the head is determined by its own bytes: whatever follows it -/
theorem runeLen_take_append (bs x : Bytes) (h : runeLen bs ≠ 0) :
    runeLen (bs.take (runeLen bs) ++ x) = runeLen bs := by
  cases bs with
  | nil => simp [runeLen] at h
  | cons b0 rest =>
    by_cases h1 : b0.toNat < 0x80
    · have hk : runeLen (b0 :: rest) = 1 := by simp [runeLen, h1]
      rw [hk]; simp [runeLen, h1]
    · by_cases h2 : (decide (0xC2 ≤ b0.toNat) && decide (b0.toNat ≤ 0xDF)) = true
      · cases rest with
        | nil => simp [runeLen, h1, h2] at h
        | cons b1 r =>
          by_cases c1 : isCont b1 = true
          · have hk : runeLen (b0 :: b1 :: r) = 2 := by simp [runeLen, h1, h2, c1]
            rw [hk]; simp [runeLen, h1, h2, c1]
          · simp [runeLen, h1, h2, c1] at h
      · by_cases h3 : (decide (0xE0 ≤ b0.toNat) && decide (b0.toNat ≤ 0xEF)) = true
        · match rest with
          | [] => simp [runeLen, h1, h2, h3] at h
          | [_] => simp [runeLen, h1, h2, h3] at h
          | b1 :: b2 :: r =>
            by_cases c : (secondOK b0.toNat b1.toNat && isCont b2) = true
            · have hk : runeLen (b0 :: b1 :: b2 :: r) = 3 := by simp [runeLen, h1, h2, h3, c]
              rw [hk]; simp [runeLen, h1, h2, h3, c]
            · simp [runeLen, h1, h2, h3, c] at h
        · by_cases h4 : (decide (0xF0 ≤ b0.toNat) && decide (b0.toNat ≤ 0xF4)) = true
          · match rest with
            | [] => simp [runeLen, h1, h2, h3, h4] at h
            | [_] => simp [runeLen, h1, h2, h3, h4] at h
            | [_, _] => simp [runeLen, h1, h2, h3, h4] at h
            | b1 :: b2 :: b3 :: r =>
              by_cases c : (secondOK b0.toNat b1.toNat && isCont b2 && isCont b3) = true
              · have hk : runeLen (b0 :: b1 :: b2 :: b3 :: r) = 4 := by simp [runeLen, h1, h2, h3, h4, c]
                rw [hk]; simp [runeLen, h1, h2, h3, h4, c]
              · simp [runeLen, h1, h2, h3, h4, c] at h
          · simp [runeLen, h1, h2, h3, h4] at h

theorem runeLen_replacement (x : Bytes) : runeLen (replacementChar ++ x) = 3 := by
  simp [replacementChar, runeLen, secondOK, isCont]

theorem Utf8WF_rune_append (bs rest : Bytes) (h : runeLen bs ≠ 0) (hr : Utf8WF rest) :
    Utf8WF (bs.take (runeLen bs) ++ rest) := by
  have hk := runeLen_take_append bs rest h
  have hlen : (bs.take (runeLen bs)).length = runeLen bs := by
    rw [List.length_take]; exact Nat.min_eq_left (runeLen_le_length bs)
  refine Utf8WF.rune _ (by rw [hk]; exact h) ?_
  rw [hk]
  have : (bs.take (runeLen bs) ++ rest).drop (runeLen bs) = rest := by
    rw [List.drop_append_of_le_length (by omega)]
    simp [List.drop_eq_nil_of_le (Nat.le_of_eq hlen)]
  rw [this]; exact hr

theorem toValidAux_wf : ∀ (fuel : Nat) (bs : Bytes) (inBad : Bool), Utf8WF (toValidAux fuel bs inBad)
  | _, [], _ => by simp [toValidAux]; exact Utf8WF.nil
  | 0, _ :: _, _ => by simp [toValidAux]; exact Utf8WF.nil
  | fuel + 1, b :: rest, inBad => by
    simp only [toValidAux]
    by_cases hk : runeLen (b :: rest) = 0
    · simp only [hk, if_true]
      cases inBad with
      | true => simpa using toValidAux_wf fuel rest true
      | false =>
        simp only [Bool.false_eq_true, if_false]
        refine Utf8WF.rune _ (by rw [runeLen_replacement]; omega) ?_
        rw [runeLen_replacement]
        simpa [replacementChar] using toValidAux_wf fuel rest true
    · simp only [hk, if_false]
      exact Utf8WF_rune_append (b :: rest) _ hk (toValidAux_wf fuel _ false)

theorem Utf8WF_valid {bs : Bytes} (h : Utf8WF bs) : ∀ fuel, bs.length ≤ fuel → utf8ValidAux fuel bs = true := by
  induction h with
  | nil => intro fuel _; cases fuel <;> rfl
  | rune bs hk _ ih =>
    intro fuel hf
    have hle := runeLen_le_length bs
    cases bs with
    | nil => simp [runeLen] at hk
    | cons b rest =>
      cases fuel with
      | zero => simp at hf
      | succ f =>
        simp only [utf8ValidAux, hk, if_false]
        apply ih
        rw [List.length_drop]
        simp only [List.length_cons] at hf hle ⊢
        omega

/-- **toValidUTF8_valid**: whatever the bytes, the result is valid UTF-8 -/
theorem toValidUTF8_valid (bs : Bytes) : utf8Valid (toValidUTF8 bs) = true :=
  Utf8WF_valid (toValidAux_wf bs.length bs false) _ (Nat.le_refl _)

theorem toValidAux_of_valid : ∀ (fuel : Nat) (bs : Bytes), bs.length ≤ fuel → utf8ValidAux fuel bs = true →
    toValidAux fuel bs false = bs
  | _, [], _, _ => by simp [toValidAux]
  | 0, _ :: _, h, _ => by simp at h
  | fuel + 1, b :: rest, hl, hv => by
    simp only [utf8ValidAux] at hv
    by_cases hk : runeLen (b :: rest) = 0
    · simp [hk] at hv
    · simp only [hk, if_false] at hv
      simp only [toValidAux, hk, if_false]
      have hle := runeLen_le_length (b :: rest)
      have hrec := toValidAux_of_valid fuel ((b :: rest).drop (runeLen (b :: rest)))
        (by rw [List.length_drop]; simp only [List.length_cons] at hl hle ⊢; omega) hv
      rw [hrec, List.take_append_drop]

/-- **toValidUTF8_of_valid**: valid UTF-8 is left exactly as it is -/
theorem toValidUTF8_of_valid (bs : Bytes) (h : utf8Valid bs = true) : toValidUTF8 bs = bs :=
  toValidAux_of_valid bs.length bs (Nat.le_refl _) h

end ConnectModel
