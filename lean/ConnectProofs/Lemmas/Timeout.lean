import ConnectModel.Timeout
import ConnectProofs.Lemmas.Dec
namespace ConnectModel

theorem showDec_length_pos (n : Nat) : 1 ≤ (showDec n).length := by
  have := showDec_ne_nil n
  cases h : showDec n with
  | nil => exact absurd h this
  | cons _ _ => simp

theorem showDec_length_le (k : Nat) : ∀ n, (showDec n).length ≤ k + 1 ↔ n < 10 ^ (k + 1) := by
  induction k with
  | zero =>
    intro n
    rw [showDec]
    by_cases h : n < 10
    · simp [h]
    · have := showDec_length_pos (n / 10)
      simp only [h, if_false, List.length_append, List.length_singleton, Nat.zero_add, Nat.pow_one, iff_false]
      omega
  | succ k ih =>
    intro n
    rw [showDec]
    have hpos : 1 ≤ 10 ^ (k + 1) := Nat.pow_pos (by omega)
    have hp : 10 ^ (k + 1 + 1) = 10 ^ (k + 1) * 10 := Nat.pow_succ ..
    by_cases h : n < 10
    · simp only [h, if_true, List.length_singleton]
      omega
    · simp only [h, if_false, List.length_append, List.length_singleton]
      have := ih (n / 10)
      rw [hp]
      constructor
      · intro hl
        have := this.mp (by omega)
        omega
      · intro hl
        have := this.mpr (by omega)
        omega

theorem showDec_length_lt8 (n : Nat) : (showDec n).length < 8 ↔ n < 10000000 := by
  have := showDec_length_le 6 n
  simp only [Nat.reduceAdd, Nat.reducePow] at this
  omega

theorem showDec_length_le10 (n : Nat) : (showDec n).length ≤ 10 ↔ n < 10000000000 := by
  have := showDec_length_le 9 n
  simpa using this

/-- value of a digit string -/
def decVal : Bytes → Nat → Nat
  | [], acc => acc
  | b :: bs, acc => decVal bs (acc * 10 + digitVal b)

theorem parseDigits_all_digits (ds : Bytes) (acc : Nat) (h : ∀ b ∈ ds, isDigit b = true) :
    parseDigits ds acc = some (decVal ds acc) := by
  induction ds generalizing acc with
  | nil => rfl
  | cons b bs ih =>
    simp only [parseDigits, h b (by simp), if_true, decVal]
    exact ih _ (fun x hx => h x (List.mem_cons_of_mem _ hx))

theorem digitVal_le {b : UInt8} (h : isDigit b = true) : digitVal b ≤ 9 := by
  simp [isDigit] at h; unfold digitVal; omega

theorem decVal_lt (ds : Bytes) (acc : Nat) (h : ∀ b ∈ ds, isDigit b = true) :
    decVal ds acc < (acc + 1) * 10 ^ ds.length := by
  induction ds generalizing acc with
  | nil => simp [decVal]
  | cons b bs ih =>
    simp only [decVal, List.length_cons, Nat.pow_succ]
    have hb := digitVal_le (h b (by simp))
    have := ih (acc * 10 + digitVal b) (fun x hx => h x (List.mem_cons_of_mem _ hx))
    calc decVal bs (acc * 10 + digitVal b) < (acc * 10 + digitVal b + 1) * 10 ^ bs.length := this
      _ ≤ ((acc + 1) * 10) * 10 ^ bs.length := Nat.mul_le_mul_right _ (by omega)
      _ = (acc + 1) * (10 ^ bs.length * 10) := by rw [Nat.mul_assoc, Nat.mul_comm 10]

/-- `parseInt64` on a non-empty all-digit string of at most 18 digits is its decimal value -/
theorem parseInt64_digits (ds : Bytes) (hne : ds ≠ []) (hlen : ds.length ≤ 18)
    (h : ∀ b ∈ ds, isDigit b = true) : parseInt64 ds = some (decVal ds 0 : Int) := by
  have hlt := decVal_lt ds 0 h
  have hpow : 10 ^ ds.length ≤ 10 ^ 18 := Nat.pow_le_pow_right (by omega) hlen
  have hv : decVal ds 0 < 2 ^ 63 := by
    have : (10 : Nat) ^ 18 < 2 ^ 63 := by decide
    omega
  match ds, hne with
  | b :: rest, _ =>
    have hd := h b (by simp)
    have h43 : b ≠ 43 := by intro hb; subst hb; simp [isDigit] at hd
    have h45 : b ≠ 45 := by intro hb; subst hb; simp [isDigit] at hd
    have hp : parseDec (b :: rest) = some (decVal (b :: rest) 0) := by
      unfold parseDec; simp only; exact parseDigits_all_digits _ _ h
    unfold parseInt64
    split
    · simp at *
    · rename_i heq; simp at heq; exact absurd heq.1 h43
    · rename_i heq; simp at heq; exact absurd heq.1 h45
    · simp [hp, hv]

end ConnectModel
