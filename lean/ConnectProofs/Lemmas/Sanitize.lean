/-
  Values in an HTTP/1 header block (the gRPC-Web trailer frame): which values survive
  `http.Header.Write` + textproto parsing unchanged.
-/
import ConnectModel.Header
namespace ConnectModel

/-- values that survive an HTTP/1 header block unchanged: no CR/LF, no blank at either end -/
def CleanValue (v : Bytes) : Prop :=
  (∀ c ∈ v, c.toNat ≠ 10 ∧ c.toNat ≠ 13) ∧
  (∀ c, v.head? = some c → isOWS c = false) ∧ (∀ c, v.getLast? = some c → isOWS c = false)

theorem dropWhile_head_false (l : Bytes) (h : ∀ c, l.head? = some c → isOWS c = false) : l.dropWhile isOWS = l := by
  cases l with
  | nil => rfl
  | cons c cs => simp [List.dropWhile, h c rfl]

/-- a clean value is unchanged by the gRPC-Web
    trailer block (http.Header.Write + textproto parsing) -/
theorem sanitize_clean_core (v : Bytes) (h : CleanValue v) : sanitizeValue v = v := by
  obtain ⟨h1, h2, h3⟩ := h
  have hmap : v.map (fun c => if c.toNat = 10 || c.toNat = 13 then (32 : UInt8) else c) = v := by
    have : ∀ c ∈ v, (fun c : UInt8 => if c.toNat = 10 || c.toNat = 13 then (32 : UInt8) else c) c = c := by
      intro c hc; have := h1 c hc; simp [this.1, this.2]
    rw [List.map_congr_left this]; simp
  simp only [sanitizeValue, hmap]
  rw [dropWhile_head_false v h2]
  have : v.reverse.dropWhile isOWS = v.reverse := by
    apply dropWhile_head_false
    intro c hc
    rw [List.head?_reverse] at hc
    exact h3 c hc
  rw [this, List.reverse_reverse]

end ConnectModel
