import ConnectModel.Envelope
import ConnectProofs.Lemmas.EnvelopeSim
namespace ConnectModel

theorem fromBe32_be32 (n : Nat) (h : n < 2 ^ 32) :
    ∃ a b c d, be32 n = [a, b, c, d] ∧ fromBe32 a b c d = n := by
  refine ⟨_, _, _, _, rfl, ?_⟩
  simp only [fromBe32, UInt8.toNat_ofNat']
  omega

theorem takeExact_append (a rest : Bytes) (tail : RErr) :
    takeExact a.length { flat := a ++ rest, tail := tail } = (a, none, { flat := rest, tail := tail }) := by
  simp [takeExact]

theorem takeExact_append' (a rest : Bytes) (tail : RErr) (n : Nat) (h : n = a.length) :
    takeExact n { flat := a ++ rest, tail := tail } = (a, none, { flat := rest, tail := tail }) := by
  subst h; exact takeExact_append a rest tail

/-- reading back one frame the writer put on the wire, followed by anything -/
theorem envRead_frame (max : Nat) (fl : UInt8) (data rest : Bytes) (tail : RErr)
    (hlen : data.length < 2 ^ 32) (hfit : max = 0 ∨ data.length ≤ max) :
    (envRead max).run takeExact { flat := envPrefix fl data.length ++ data ++ rest, tail := tail } =
      ({ outcome := .frame fl data, grown := data.length }, { flat := rest, tail := tail }) := by
  obtain ⟨a, b, c, d, hbe, hfrom⟩ := fromBe32_be32 data.length hlen
  have hpfx : envPrefix fl data.length = [fl, a, b, c, d] := by simp [envPrefix, hbe]
  have h5 : takeExact 5 { flat := envPrefix fl data.length ++ data ++ rest, tail := tail } =
      ([fl, a, b, c, d], none, { flat := data ++ rest, tail := tail }) := by
    rw [hpfx, List.append_assoc]
    exact takeExact_append' _ _ _ _ rfl
  simp only [envRead, Prog.run, h5, envReadBody, hfrom]
  by_cases h0 : data.length = 0
  · have : data = [] := List.eq_nil_of_length_eq_zero h0
    subst this
    simp [Prog.run]
  · have hnot : ¬ (max > 0 ∧ data.length > max) := by omega
    simp only [h0, if_false, hnot]
    rw [Prog.run_bind]
    have hp : (payloadLoop 3 data.length []).run takeExact { flat := data ++ rest, tail := tail } =
        (.frame 0 data, { flat := rest, tail := tail }) := by
      simp only [payloadLoop, h0, if_false, Prog.run, takeExact_append]
      simp [payloadLoop, Prog.run]
    rw [hp]
    simp [Prog.run]

/-- an empty source with a clean end: `Read` reports the EOF-wrapping error -/
theorem envRead_eof (max : Nat) :
    (envRead max).run takeExact { flat := [], tail := .eof } =
      ({ outcome := .fail { code := codeUnknown, wrapsEOF := true }, grown := 0 }, { flat := [], tail := .eof }) := by
  simp [envRead, Prog.run, takeExact, RErr.isEOF]

end ConnectModel
