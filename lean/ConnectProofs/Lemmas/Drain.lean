import ConnectProofs.Lemmas.Reader

namespace ConnectModel

theorem read1_nil_iff (s : Script) (hwf : s.wf) (n : Nat) (hn : 0 < n) :
    (read1 s n).1 = [] ↔ s.flat = [] := by
  unfold read1 Script.flat
  cases hc : s.chunks with
  | nil => simp
  | cons c rest =>
    have hne : c ≠ [] := hwf c (by rw [hc]; exact List.mem_cons_self ..)
    simp only [List.flatten_cons]
    split
    · simp [hne]
    · have : c.take n ≠ [] := by
        intro h
        have := congrArg List.length h
        simp at this
        rcases this with h0 | h0
        · omega
        · exact hne (List.eq_nil_of_length_eq_zero (by simpa using congrArg List.length h0))
      simp [this, hne]

theorem read1_of_flat_nil (s : Script) (hwf : s.wf) (n : Nat) (h : s.flat = []) :
    read1 s n = ([], some s.tail, s) := by
  unfold read1
  cases hc : s.chunks with
  | nil => rfl
  | cons c rest =>
    have hne : c ≠ [] := hwf c (by rw [hc]; exact List.mem_cons_self ..)
    exfalso
    unfold Script.flat at h
    rw [hc] at h
    simp at h
    exact hne h.1

theorem tail_verdict (t : RErr) :
    (match (some t : Option RErr) with
      | some RErr.eof => DrainResult.atEnd
      | some err => DrainResult.failed err
      | none => DrainResult.more) = if t = RErr.eof then DrainResult.atEnd else DrainResult.failed t := by
  cases t <;> simp

/-- **drain_spec**: on every well-formed script, whatever its segmentation and whichever way it
    reports its end, `drainUpTo` answers what the specification says: at the end iff at most
    `limit` bytes were left and the stream ends with `io.EOF`. -/
theorem drain_spec (limit : Nat) (s : Script) (hwf : s.wf) : drain limit s = drainSpec limit s.abs := by
  obtain ⟨_, h2, h3, h4⟩ := readExact_spec limit s hwf
  have hflat_abs : s.abs.flat = s.flat := rfl
  have htail_abs : s.abs.tail = s.tail := rfl
  unfold drain
  rcases hre : readExact limit s with ⟨b, e, s'⟩
  rw [hre] at h2 h3 h4
  simp only at h2 h3 h4
  simp only [takeExact] at h2 h3
  have hs'flat : s'.flat = s'.abs.flat := rfl
  have hs'tail : s'.tail = s'.abs.tail := rfl
  by_cases hle : limit ≤ s.abs.flat.length
  · -- the budget was used up: the probe decides
    rw [if_pos hle] at h2 h3
    simp only at h2 h3
    subst h2
    simp only
    by_cases heq : s.abs.flat.length ≤ limit
    · -- exactly `limit` bytes were left
      have hflat : s'.flat = [] := by
        rw [hs'flat, h3]
        exact List.drop_eq_nil_of_le heq
      have htail : s'.tail = s.tail := by rw [hs'tail, h3]; rfl
      rw [read1_of_flat_nil s' h4 1 hflat]
      have hspec : drainSpec limit s.abs = if s.tail = .eof then .atEnd else .failed s.tail := by
        unfold drainSpec; rw [if_pos heq, htail_abs]
      rw [hspec]
      simp only [ne_eq, not_true_eq_false, if_false, htail]
      exact tail_verdict _
    · -- more than `limit` bytes were left
      have hflat : s'.flat ≠ [] := by
        rw [hs'flat, h3]
        intro hnil
        have := congrArg List.length hnil
        simp only [List.length_drop, List.length_nil] at this
        omega
      have hpb : (read1 s' 1).1 ≠ [] := fun h => hflat ((read1_nil_iff s' h4 1 (by omega)).1 h)
      have hspec : drainSpec limit s.abs = .more := by unfold drainSpec; rw [if_neg heq]
      rw [hspec]
      rcases hr1 : read1 s' 1 with ⟨pb, pe, s''⟩
      rw [hr1] at hpb
      simp only at hpb
      simp [hpb]
  · -- fewer than `limit` bytes were left: the copy met the end
    rw [if_neg hle] at h2
    simp only at h2
    subst h2
    have heq : s.abs.flat.length ≤ limit := by omega
    have hspec : drainSpec limit s.abs = if s.tail = .eof then .atEnd else .failed s.tail := by
      unfold drainSpec; rw [if_pos heq, htail_abs]
    rw [hspec, htail_abs]
    simp only
    cases ht : s.tail <;> simp

/-- **drain_segmentation_independent** (C03 for the drain): two transports that deliver the same
    bytes and end the same way are drained alike - however the bytes are split across reads, and
    whether the last of them come together with `io.EOF` or before it. -/
theorem drain_segmentation_independent (limit : Nat) (s₁ s₂ : Script) (h₁ : s₁.wf) (h₂ : s₂.wf)
    (h : s₁.abs = s₂.abs) : drain limit s₁ = drain limit s₂ := by
  rw [drain_spec limit s₁ h₁, drain_spec limit s₂ h₂, h]

/-- **drain_at_end_iff**: the end is reached exactly when at most `limit` bytes were left (and the
    stream ends cleanly) - the budget is about bytes, not about reads. -/
theorem drain_at_end_iff (limit : Nat) (s : Script) (hwf : s.wf) :
    drain limit s = .atEnd ↔ s.flat.length ≤ limit ∧ s.tail = .eof := by
  rw [drain_spec limit s hwf]
  have hflat_abs : s.abs.flat = s.flat := rfl
  have htail_abs : s.abs.tail = s.tail := rfl
  unfold drainSpec
  rw [hflat_abs, htail_abs]
  by_cases h : s.flat.length ≤ limit
  · rw [if_pos h]
    by_cases ht : s.tail = .eof
    · rw [if_pos ht]; exact ⟨fun _ => ⟨h, ht⟩, fun _ => rfl⟩
    · rw [if_neg ht]
      constructor
      · intro hc; cases hc
      · intro hc; exact absurd hc.2 ht
  · rw [if_neg h]
    constructor
    · intro hc; cases hc
    · intro hc; exact absurd hc.1 h

/-- **discard_depended_on_delivery_on_pinned** (history): the pinned `discard` saw the end of a
    body of exactly `limit` bytes only when the transport reported it together with the last
    bytes: one body, two deliveries, two answers (and with them: trailers or no trailers). -/
theorem discard_depended_on_delivery_on_pinned :
    ∃ (limit : Nat) (s₁ s₂ : Script), s₁.wf ∧ s₂.wf ∧ s₁.abs = s₂.abs ∧
      drainSawEOFPinned limit s₁ = true ∧ drainSawEOFPinned limit s₂ = false ∧
      drain limit s₁ = .atEnd ∧ drain limit s₂ = .atEnd := by
  refine ⟨2, { chunks := [[1, 2]], tail := .eof, withData := true },
             { chunks := [[1], [2]], tail := .eof, withData := false }, ?_, ?_, rfl, ?_, ?_, ?_, ?_⟩
  · intro c hc; simp at hc; subst hc; simp
  · intro c hc; simp at hc; rcases hc with rfl | rfl <;> simp
  · decide
  · decide
  · decide
  · decide

end ConnectModel
