import ConnectProofs.Lemmas.Reader

namespace ConnectModel

theorem read1_nil_iff (s : Script) (hwf : s.wf) (n : Nat) (hn : 0 < n) :
    (read1 s n).1 = [] ↔ s.flat = [] := by
  unfold read1 Script.flat
  cases hc : s.chunks with
  | nil => simp
  | cons c rest =>
    have hne : c ≠ [] := hwf c (by rw [hc]; exact List.mem_cons_self ..)
    simp only [List.flatten_cons]
    split
    · simp [hne]
    · have : c.take n ≠ [] := by
        intro h
        have := congrArg List.length h
        simp at this
        rcases this with h0 | h0
        · omega
        · exact hne (List.eq_nil_of_length_eq_zero (by simpa using congrArg List.length h0))
      simp [this, hne]

theorem read1_of_flat_nil (s : Script) (hwf : s.wf) (n : Nat) (h : s.flat = []) :
    read1 s n = ([], some s.tail, s) := by
  unfold read1
  cases hc : s.chunks with
  | nil => rfl
  | cons c rest =>
    have hne : c ≠ [] := hwf c (by rw [hc]; exact List.mem_cons_self ..)
    exfalso
    unfold Script.flat at h
    rw [hc] at h
    simp at h
    exact hne h.1

theorem tail_verdict (t : RErr) :
    (match (some t : Option RErr) with
      | some RErr.eof => DrainResult.atEnd
      | some err => DrainResult.failed err
      | none => DrainResult.more) = if t = RErr.eof then DrainResult.atEnd else DrainResult.failed t := by
  cases t <;> simp

/-- **drain_spec**: on every well-formed script, whatever its segmentation and whichever way it
    reports its end, `drainUpTo` answers what the specification says: at the end iff at most
    `limit` bytes were left and the stream ends with `io.EOF`. -/
theorem drain_spec (limit : Nat) (s : Script) (hwf : s.wf) : drain limit s = drainSpec limit s.abs := by
  obtain ⟨_, h2, h3, h4⟩ := readExact_spec limit s hwf
  have hflat_abs : s.abs.flat = s.flat := rfl
  have htail_abs : s.abs.tail = s.tail := rfl
  unfold drain
  rcases hre : readExact limit s with ⟨b, e, s'⟩
  rw [hre] at h2 h3 h4
  simp only at h2 h3 h4
  simp only [takeExact] at h2 h3
  have hs'flat : s'.flat = s'.abs.flat := rfl
  have hs'tail : s'.tail = s'.abs.tail := rfl
  by_cases hle : limit ≤ s.abs.flat.length
  · -- the budget was used up: the probe decides
    rw [if_pos hle] at h2 h3
    simp only at h2 h3
    subst h2
    simp only
    by_cases heq : s.abs.flat.length ≤ limit
    · -- exactly `limit` bytes were left
      have hflat : s'.flat = [] := by
        rw [hs'flat, h3]
        exact List.drop_eq_nil_of_le heq
      have htail : s'.tail = s.tail := by rw [hs'tail, h3]; rfl
      rw [read1_of_flat_nil s' h4 1 hflat]
      have hspec : drainSpec limit s.abs = if s.tail = .eof then .atEnd else .failed s.tail := by
        unfold drainSpec; rw [if_pos heq, htail_abs]
      rw [hspec]
      simp only [ne_eq, not_true_eq_false, if_false, htail]
      exact tail_verdict _
    · -- more than `limit` bytes were left
      have hflat : s'.flat ≠ [] := by
        rw [hs'flat, h3]
        intro hnil
        have := congrArg List.length hnil
        simp only [List.length_drop, List.length_nil] at this
        omega
      have hpb : (read1 s' 1).1 ≠ [] := fun h => hflat ((read1_nil_iff s' h4 1 (by omega)).1 h)
      have hspec : drainSpec limit s.abs = .more := by unfold drainSpec; rw [if_neg heq]
      rw [hspec]
      rcases hr1 : read1 s' 1 with ⟨pb, pe, s''⟩
      rw [hr1] at hpb
      simp only at hpb
      simp [hpb]
  · -- fewer than `limit` bytes were left: the copy met the end
    rw [if_neg hle] at h2
    simp only at h2
    subst h2
    have heq : s.abs.flat.length ≤ limit := by omega
    have hspec : drainSpec limit s.abs = if s.tail = .eof then .atEnd else .failed s.tail := by
      unfold drainSpec; rw [if_pos heq, htail_abs]
    rw [hspec, htail_abs]
    simp only
    cases ht : s.tail <;> simp

/-- **drain_segmentation_independent** (C03 for the drain): two transports that deliver the same
    bytes and end the same way are drained alike - however the bytes are split across reads, and
    whether the last of them come together with `io.EOF` or before it. -/
theorem drain_segmentation_independent (limit : Nat) (s₁ s₂ : Script) (h₁ : s₁.wf) (h₂ : s₂.wf)
    (h : s₁.abs = s₂.abs) : drain limit s₁ = drain limit s₂ := by
  rw [drain_spec limit s₁ h₁, drain_spec limit s₂ h₂, h]

/-- **drain_at_end_iff**: the end is reached exactly when at most `limit` bytes were left (and the
    stream ends cleanly) - the budget is about bytes, not about reads. -/
theorem drain_at_end_iff (limit : Nat) (s : Script) (hwf : s.wf) :
    drain limit s = .atEnd ↔ s.flat.length ≤ limit ∧ s.tail = .eof := by
  rw [drain_spec limit s hwf]
  have hflat_abs : s.abs.flat = s.flat := rfl
  have htail_abs : s.abs.tail = s.tail := rfl
  unfold drainSpec
  rw [hflat_abs, htail_abs]
  by_cases h : s.flat.length ≤ limit
  · rw [if_pos h]
    by_cases ht : s.tail = .eof
    · rw [if_pos ht]; exact ⟨fun _ => ⟨h, ht⟩, fun _ => rfl⟩
    · rw [if_neg ht]
      constructor
      · intro hc; cases hc
      · intro hc; exact absurd hc.2 ht
  · rw [if_neg h]
    constructor
    · intro hc; cases hc
    · intro hc; exact absurd hc.1 h

/-- **discard_depended_on_delivery_on_pinned** (history): the pinned `discard` saw the end of a
    body of exactly `limit` bytes only when the transport reported it together with the last
    bytes: one body, two deliveries, two answers (and with them: trailers or no trailers). -/
theorem discard_depended_on_delivery_on_pinned :
    ∃ (limit : Nat) (s₁ s₂ : Script), s₁.wf ∧ s₂.wf ∧ s₁.abs = s₂.abs ∧
      drainSawEOFPinned limit s₁ = true ∧ drainSawEOFPinned limit s₂ = false ∧
      drain limit s₁ = .atEnd ∧ drain limit s₂ = .atEnd := by
  refine ⟨2, { chunks := [[1, 2]], tail := .eof, withData := true },
             { chunks := [[1], [2]], tail := .eof, withData := false }, ?_, ?_, rfl, ?_, ?_, ?_, ?_⟩
  · intro c hc; simp at hc; subst hc; simp
  · intro c hc; simp at hc; rcases hc with rfl | rfl <;> simp
  · decide
  · decide
  · decide
  · decide

/-! ### `ResponseEnded` adds no case of its own during the drain -/

/-- the instrumented loop is the loop -/
theorem readLoopSaw_eq : ∀ (fuel : Nat) (s : Script) (n : Nat) (acc : Bytes),
    (readLoopSaw fuel s n).2 = ((readLoop fuel s n acc).2.1, (readLoop fuel s n acc).2.2)
  | 0, s, n, acc => by simp [readLoopSaw, readLoop]
  | fuel + 1, s, n, acc => by
    unfold readLoopSaw readLoop
    by_cases hn : n = 0
    · simp [hn]
    · simp only [hn, if_false]
      rcases hr : read1 s n with ⟨b, e, s'⟩
      simp only
      by_cases hb : b.length ≥ n
      · simp [hb]
      · simp only [hb, if_false]
        cases e with
        | some err => simp
        | none => simp only; exact readLoopSaw_eq fuel s' (n - b.length) (acc ++ b)

/-- a read that reports the end with no data ends the loop with `io.EOF` -/
theorem readLoopSaw_sound : ∀ (fuel : Nat) (s : Script) (n : Nat),
    (readLoopSaw fuel s n).1 = true → (readLoopSaw fuel s n).2.1 = some .eof
  | 0, s, n => by simp [readLoopSaw]
  | fuel + 1, s, n => by
    unfold readLoopSaw
    by_cases hn : n = 0
    · simp [hn]
    · simp only [hn, if_false]
      rcases hr : read1 s n with ⟨b, e, s'⟩
      simp only
      by_cases hb : b.length ≥ n
      · simp only [hb, if_true]
        intro h
        simp only [Bool.and_eq_true, List.isEmpty_iff] at h
        have : b.length = 0 := by rw [h.1]; rfl
        omega
      · simp only [hb, if_false]
        cases e with
        | some err =>
          simp only
          intro h
          simp only [Bool.and_eq_true, beq_iff_eq, Option.some.injEq] at h
          rw [h.2]
        | none => simp only; exact readLoopSaw_sound fuel s' (n - b.length)

/-- **drainSaw_atEnd**: if a read of the drain reports the end of the body, the drain's own
    verdict is "at the end" - the flag the repaired client also consults never says more than
    the drain does, *during* the drain. -/
theorem drainSaw_atEnd (limit : Nat) (s : Script) (h : drainSaw limit s = true) : drain limit s = .atEnd := by
  unfold drainSaw at h
  unfold drain readExact
  have heq := readLoopSaw_eq (limit + 1) s limit []
  have hsound := readLoopSaw_sound (limit + 1) s limit
  rcases hs : readLoopSaw (limit + 1) s limit with ⟨saw, e, s'⟩
  rcases hl : readLoop (limit + 1) s limit [] with ⟨b, e2, s2⟩
  rw [hs] at h heq hsound
  rw [hl] at heq
  simp only [Prod.mk.injEq] at heq
  obtain ⟨he, hs'⟩ := heq
  subst he hs'
  simp only at h hsound ⊢
  cases e with
  | some err =>
    simp only at h
    have := hsound h
    simp only [Option.some.injEq] at this
    subst this
    rfl
  | none =>
    simp only at h ⊢
    rcases hr : read1 s' 1 with ⟨pb, pe, s''⟩
    rw [hr] at h
    simp only at h ⊢
    rcases Bool.or_eq_true .. |>.mp h with h1 | h2
    · have := hsound h1
      cases this
    · simp only [Bool.and_eq_true, List.isEmpty_iff, beq_iff_eq] at h2
      obtain ⟨hpb, hpe⟩ := h2
      subst hpb hpe
      simp

/-- **trailers_consulted_iff** (C03 for the amended F43): whether the gRPC client looks at the
    HTTP trailers after a failed Receive depends on what had been seen before and on the bytes
    that were left - at most `limit` of them, ending with `io.EOF` - and on nothing else: not on
    the segmentation, not on how the end is delivered. -/
theorem trailers_consulted_iff (endedBefore : Bool) (limit : Nat) (s : Script) (hwf : s.wf) :
    trailersConsulted endedBefore limit s = true ↔
      endedBefore = true ∨ (s.flat.length ≤ limit ∧ s.tail = .eof) := by
  unfold trailersConsulted
  rw [← drain_at_end_iff limit s hwf]
  constructor
  · intro h
    rcases Bool.or_eq_true .. |>.mp h with h | h
    · rcases Bool.or_eq_true .. |>.mp h with h | h
      · exact Or.inl h
      · exact Or.inr (by simpa using h)
    · exact Or.inr (drainSaw_atEnd limit s h)
  · intro h
    rcases h with h | h
    · simp [h]
    · simp [h]

theorem trailers_consulted_segmentation_independent (endedBefore : Bool) (limit : Nat) (s₁ s₂ : Script)
    (h₁ : s₁.wf) (h₂ : s₂.wf) (h : s₁.abs = s₂.abs) :
    trailersConsulted endedBefore limit s₁ = trailersConsulted endedBefore limit s₂ := by
  have hf : s₁.flat = s₂.flat := congrArg Src.flat h
  have ht : s₁.tail = s₂.tail := congrArg Src.tail h
  have e1 := trailers_consulted_iff endedBefore limit s₁ h₁
  have e2 := trailers_consulted_iff endedBefore limit s₂ h₂
  rw [hf, ht] at e1
  cases h1 : trailersConsulted endedBefore limit s₁ <;> cases h2 : trailersConsulted endedBefore limit s₂ <;> simp_all

end ConnectModel
