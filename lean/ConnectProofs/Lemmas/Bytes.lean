import ConnectModel.Basic
import ConnectModel.Percent
import ConnectModel.Base64
namespace ConnectModel

theorem ofNat_eq_of_toNat (a : UInt8) (n : Nat) (h : n = a.toNat) : UInt8.ofNat n = a := by
  subst h; exact UInt8.ofNat_toNat

theorem UInt8.toNat_lt' (a : UInt8) : a.toNat < 256 := UInt8.toNat_lt a

/-! ### hex -/

theorem parseHex2_hexByte_fin : ∀ n : Fin 256,
    parseHex2 (hexByte (n.val / 16)) (hexByte (n.val % 16)) = some (UInt8.ofNat n.val) := by
  decide +kernel

theorem parseHex2_hexByte (c : UInt8) :
    parseHex2 (hexByte (c.toNat / 16)) (hexByte (c.toNat % 16)) = some c := by
  have := parseHex2_hexByte_fin ⟨c.toNat, UInt8.toNat_lt c⟩
  simpa using this

theorem hexByte_printable : ∀ d : Fin 16, 32 ≤ (hexByte d.val).toNat ∧ (hexByte d.val).toNat ≤ 126 := by
  decide

/-! ### base64 alphabet -/

theorem b64Val_b64Char : ∀ n : Fin 64, b64Val (b64Char n.val) = some n.val := by decide

theorem b64Char_not_special : ∀ n : Fin 64,
    (b64Char n.val).toNat ≠ 61 ∧ (b64Char n.val).toNat ≠ 10 ∧ (b64Char n.val).toNat ≠ 13 := by decide

theorem b64Val_b64Char' {n : Nat} (h : n < 64) : b64Val (b64Char n) = some n := b64Val_b64Char ⟨n, h⟩

theorem b64Char_ne_pad {n : Nat} (h : n < 64) : ((b64Char n).toNat == 61) = false := by
  have := (b64Char_not_special ⟨n, h⟩).1
  simpa using this

theorem b64Char_keep {n : Nat} (h : n < 64) :
    (!((b64Char n).toNat == 10 || (b64Char n).toNat == 13)) = true := by
  have := b64Char_not_special ⟨n, h⟩
  simp [this.2.1, this.2.2]

end ConnectModel
