/-
  The `Trailer-` prefix mapping of unary Connect: the handler writes every trailer key `k` as
  header `Trailer-k`; the client splits the response headers back. Lemmas about folds of `put`.
-/
import ConnectProofs.Lemmas.Header
namespace ConnectModel

/-- a fold of `put`s leaves untouched every key that is not the image of a key of the list -/
theorem foldl_put_vals_not_mem (f : Bytes → Bytes) (l : Header) :
    ∀ (init : Header) (x : Bytes), (∀ p ∈ l, f p.1 ≠ x) →
      (l.foldl (fun acc p => acc.put (f p.1) p.2) init).vals x = init.vals x := by
  induction l with
  | nil => intro init x _; rfl
  | cons p rest ih =>
    intro init x hx
    simp only [List.foldl_cons]
    rw [ih _ x (fun q hq => hx q (List.mem_cons_of_mem _ hq)), Header.vals_put]
    have : ¬ x = f p.1 := fun e => hx p List.mem_cons_self e.symm
    simp [this]

/-- … and stores under `f k` the values the list holds for `k`, when `f` is injective on the
    (pairwise distinct) keys of the list -/
theorem foldl_put_vals_mem (f : Bytes → Bytes) (l : Header) (hw : l.wf)
    (hinj : ∀ a ∈ l.map (·.1), ∀ b ∈ l.map (·.1), f a = f b → a = b) :
    ∀ (init : Header) (k : Bytes), k ∈ l.map (·.1) →
      (l.foldl (fun acc p => acc.put (f p.1) p.2) init).vals (f k) = l.vals k := by
  induction l with
  | nil => intro init k hk; simp at hk
  | cons p rest ih =>
    obtain ⟨k₀, vs⟩ := p
    intro init k hk
    simp only [Header.wf, List.map_cons, List.nodup_cons] at hw
    simp only [List.foldl_cons]
    by_cases hkk : k = k₀
    · subst hkk
      rw [foldl_put_vals_not_mem, Header.vals_put]
      · simp [Header.vals]
      · intro q hq he
        have hqm : q.1 ∈ rest.map (·.1) := List.mem_map_of_mem hq
        have := hinj q.1 (by simp [hqm]) k (by simp) he
        exact hw.1 (this ▸ hqm)
    · have hkr : k ∈ rest.map (·.1) := by
        simp only [List.map_cons, List.mem_cons] at hk
        rcases hk with hk | hk
        · exact absurd hk hkk
        · exact hk
      rw [ih hw.2 (fun a ha b hb => hinj a (by simp [ha]) b (by simp [hb])) _ k hkr]
      simp [Header.vals, hkk]

theorem foldl_put_wf (f : Bytes → Bytes) (l : Header) :
    ∀ (init : Header), init.wf → (l.foldl (fun acc p => acc.put (f p.1) p.2) init).wf := by
  induction l with
  | nil => intro init h; exact h
  | cons p rest ih => intro init h; simp only [List.foldl_cons]; exact ih _ (Header.put_wf _ _ _ h)

theorem hasPrefix_append (pfx s : Bytes) : hasPrefix pfx (pfx ++ s) = true := by
  simp [hasPrefix]

theorem drop_prefix (pfx s : Bytes) : (pfx ++ s).drop pfx.length = s := by simp

theorem prefix_split (pfx s : Bytes) (h : hasPrefix pfx s = true) : s = pfx ++ s.drop pfx.length := by
  simp only [hasPrefix, List.isPrefixOf_iff_prefix] at h
  obtain ⟨t, ht⟩ := h
  subst ht; simp

/-! ### handler side -/

theorem addTrailerPrefixed_trailer (h t : Header) (ht : t.wf) (k : Bytes) (hk : k ∈ t.map (·.1)) :
    (addTrailerPrefixed h t).vals (Gen.connectUnaryTrailerPrefix ++ k) = t.vals k := by
  unfold addTrailerPrefixed
  exact foldl_put_vals_mem (Gen.connectUnaryTrailerPrefix ++ ·) t ht
    (fun a _ b _ e => List.append_cancel_left e) h k hk

theorem addTrailerPrefixed_other (h t : Header) (x : Bytes) (hx : hasPrefix Gen.connectUnaryTrailerPrefix x = false) :
    (addTrailerPrefixed h t).vals x = h.vals x := by
  unfold addTrailerPrefixed
  apply foldl_put_vals_not_mem (Gen.connectUnaryTrailerPrefix ++ ·)
  intro p _ e
  rw [← e, hasPrefix_append] at hx
  cases hx

theorem addTrailerPrefixed_absent (h t : Header) (k : Bytes) (hk : k ∉ t.map (·.1)) :
    (addTrailerPrefixed h t).vals (Gen.connectUnaryTrailerPrefix ++ k) = h.vals (Gen.connectUnaryTrailerPrefix ++ k) := by
  unfold addTrailerPrefixed
  apply foldl_put_vals_not_mem (Gen.connectUnaryTrailerPrefix ++ ·)
  intro p hp e
  have : p.1 = k := List.append_cancel_left e
  exact hk (this ▸ List.mem_map_of_mem hp)

theorem addTrailerPrefixed_wf (h t : Header) (hh : h.wf) : (addTrailerPrefixed h t).wf :=
  foldl_put_wf (Gen.connectUnaryTrailerPrefix ++ ·) t h hh

/-! ### client side -/

/-- the two components of the split are independent folds over the prefixed / other entries -/
theorem split_eq (H : Header) : ∀ (a b : Header),
    H.foldl (fun (acc : Header × Header) p =>
      if hasPrefix Gen.connectUnaryTrailerPrefix p.1
      then (acc.1, acc.2.put (p.1.drop Gen.connectUnaryTrailerPrefix.length) p.2)
      else (acc.1.put p.1 p.2, acc.2)) (a, b) =
    ((H.filter fun p => !hasPrefix Gen.connectUnaryTrailerPrefix p.1).foldl (fun acc p => acc.put (id p.1) p.2) a,
     (H.filter fun p => hasPrefix Gen.connectUnaryTrailerPrefix p.1).foldl
        (fun acc p => acc.put ((fun k => k.drop Gen.connectUnaryTrailerPrefix.length) p.1) p.2) b) := by
  induction H with
  | nil => intro a b; rfl
  | cons p rest ih =>
    intro a b
    simp only [List.foldl_cons]
    by_cases hp : hasPrefix Gen.connectUnaryTrailerPrefix p.1 = true
    · simp only [hp, if_true, ih, List.filter_cons, Bool.not_true, Bool.false_eq_true, if_false, List.foldl_cons]
    · simp only [Bool.not_eq_true] at hp
      simp only [hp, Bool.false_eq_true, if_false, ih, List.filter_cons, Bool.not_false, if_true, List.foldl_cons, id]

theorem Header.vals_filter (H : Header) (q : Bytes × List Bytes → Bool) (hq : ∀ p p' : Bytes × List Bytes, p.1 = p'.1 → q p = q p')
    (k : Bytes) (hk : ∀ vs, q (k, vs) = true) : Header.vals (H.filter q) k = H.vals k := by
  induction H with
  | nil => rfl
  | cons p rest ih =>
    obtain ⟨k₀, vs⟩ := p
    simp only [List.filter_cons]
    by_cases hkk : k = k₀
    · subst hkk; simp [hk vs, Header.vals]
    · by_cases hqq : q (k₀, vs) = true
      · simp [hqq, Header.vals, hkk, ih]
      · simp [hqq, Header.vals, hkk, ih]

theorem Header.filter_wf (H : Header) (q : Bytes × List Bytes → Bool) (hw : H.wf) : Header.wf (H.filter q) := by
  unfold Header.wf at *
  exact (List.Sublist.map _ (List.filter_sublist)).nodup hw

theorem Header.mem_keys_filter (H : Header) (q : Bytes × List Bytes → Bool) (k : Bytes)
    (h : k ∈ (H.filter q).map (·.1)) : k ∈ H.map (·.1) := by
  simp only [List.mem_map, List.mem_filter] at h ⊢
  obtain ⟨p, ⟨hp, _⟩, e⟩ := h
  exact ⟨p, hp, e⟩

/-- the client finds under trailer key `k` what the response carried under `Trailer-k` -/
theorem split_trailer_vals (H : Header) (hw : H.wf) (k : Bytes) :
    (splitTrailerPrefixed H).2.vals k = H.vals (Gen.connectUnaryTrailerPrefix ++ k) := by
  unfold splitTrailerPrefixed
  rw [split_eq]
  simp only
  let P : Bytes × List Bytes → Bool := fun p => hasPrefix Gen.connectUnaryTrailerPrefix p.1
  have hinj : ∀ a ∈ (H.filter P).map (·.1), ∀ b ∈ (H.filter P).map (·.1),
      a.drop Gen.connectUnaryTrailerPrefix.length = b.drop Gen.connectUnaryTrailerPrefix.length → a = b := by
    intro a ha b hb e
    have pa : hasPrefix Gen.connectUnaryTrailerPrefix a = true := by
      simp only [List.mem_map, List.mem_filter] at ha
      obtain ⟨p, ⟨_, hp⟩, rfl⟩ := ha; exact hp
    have pb : hasPrefix Gen.connectUnaryTrailerPrefix b = true := by
      simp only [List.mem_map, List.mem_filter] at hb
      obtain ⟨p, ⟨_, hp⟩, rfl⟩ := hb; exact hp
    rw [prefix_split _ a pa, prefix_split _ b pb, e]
  by_cases hk : (Gen.connectUnaryTrailerPrefix ++ k) ∈ (H.filter P).map (·.1)
  · have := foldl_put_vals_mem (fun k => k.drop Gen.connectUnaryTrailerPrefix.length) (H.filter P)
      (Header.filter_wf H P hw) hinj [] (Gen.connectUnaryTrailerPrefix ++ k) hk
    simp only [drop_prefix] at this
    rw [this]
    exact Header.vals_filter H P (fun p p' e => by simp [P, e]) _ (fun _ => hasPrefix_append _ _)
  · rw [foldl_put_vals_not_mem]
    · have h1 : Header.vals (H.filter P) (Gen.connectUnaryTrailerPrefix ++ k) = [] := Header.vals_of_not_mem _ _ hk
      rw [← Header.vals_filter H P (fun p p' e => by simp [P, e]) _ (fun _ => hasPrefix_append _ _), h1]
      rfl
    · intro p hp e
      apply hk
      have pp : hasPrefix Gen.connectUnaryTrailerPrefix p.1 = true := by
        simp only [List.mem_filter] at hp; exact hp.2
      have : p.1 = Gen.connectUnaryTrailerPrefix ++ k := by
        rw [prefix_split _ p.1 pp]; exact congrArg (Gen.connectUnaryTrailerPrefix ++ ·) e
      exact this ▸ List.mem_map_of_mem hp

/-- … and under every other key what the response carried under that key -/
theorem split_header_vals (H : Header) (hw : H.wf) (x : Bytes) (hx : hasPrefix Gen.connectUnaryTrailerPrefix x = false) :
    (splitTrailerPrefixed H).1.vals x = H.vals x := by
  unfold splitTrailerPrefixed
  rw [split_eq]
  simp only
  let Q : Bytes × List Bytes → Bool := fun p => !hasPrefix Gen.connectUnaryTrailerPrefix p.1
  have hf : Header.vals (H.filter Q) x = H.vals x :=
    Header.vals_filter H Q (fun p p' e => by simp [Q, e]) _ (fun vs => by simp [Q, hx])
  by_cases hk : x ∈ (H.filter Q).map (·.1)
  · have := foldl_put_vals_mem id (H.filter Q) (Header.filter_wf H Q hw) (fun a _ b _ e => e) [] x hk
    simp only [id] at this
    rw [← hf]; exact this
  · rw [foldl_put_vals_not_mem id]
    · rw [← hf, Header.vals_of_not_mem _ _ hk]; rfl
    · intro p hp e
      exact hk (by simp only [id] at e; exact e ▸ List.mem_map_of_mem hp)

end ConnectModel
