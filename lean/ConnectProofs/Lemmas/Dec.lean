import ConnectModel.Basic
namespace ConnectModel

theorem digitByte_toNat {d : Nat} (h : d < 10) : (digitByte d).toNat = 48 + d := by
  unfold digitByte
  rw [UInt8.toNat_ofNat']
  omega

theorem isDigit_digitByte {d : Nat} (h : d < 10) : isDigit (digitByte d) = true := by
  unfold isDigit
  rw [digitByte_toNat h]
  simp
  omega

theorem digitVal_digitByte {d : Nat} (h : d < 10) : digitVal (digitByte d) = d := by
  unfold digitVal
  rw [digitByte_toNat h]
  omega

theorem parseDigits_append (a b : Bytes) (acc : Nat) :
    parseDigits (a ++ b) acc = (parseDigits a acc).bind (parseDigits b) := by
  induction a generalizing acc with
  | nil => simp [parseDigits]
  | cons x xs ih =>
    simp only [List.cons_append, parseDigits]
    split
    · exact ih _
    · simp

theorem showDec_ne_nil (n : Nat) : showDec n ≠ [] := by
  unfold showDec
  split <;> simp

theorem parseDigits_showDec (n acc : Nat) :
    parseDigits (showDec n) acc = some (acc * 10 ^ (showDec n).length + n) := by
  induction n using showDec.induct generalizing acc with
  | case1 n h =>
    rw [showDec]
    simp only [h, if_true, parseDigits, isDigit_digitByte h, digitVal_digitByte h, List.length_singleton, Nat.pow_one]
  | case2 n h ih =>
    rw [showDec]
    simp only [h, if_false, parseDigits_append, ih, Option.bind_some, parseDigits]
    have h10 : n % 10 < 10 := Nat.mod_lt _ (by omega)
    simp only [isDigit_digitByte h10, digitVal_digitByte h10, if_true, List.length_append, List.length_singleton, Nat.pow_succ]
    congr 1
    have := Nat.div_add_mod n 10
    rw [Nat.add_mul, Nat.mul_assoc]
    omega

theorem parseDec_showDec (n : Nat) : parseDec (showDec n) = some n := by
  unfold parseDec
  have := showDec_ne_nil n
  split
  · contradiction
  · rw [parseDigits_showDec]; simp

/-- every byte of `showDec n` is an ASCII digit -/
theorem showDec_all_digits (n : Nat) : ∀ b ∈ showDec n, isDigit b = true := by
  induction n using showDec.induct with
  | case1 n h =>
    rw [showDec]; simp only [h, if_true, List.mem_singleton]
    intro b hb; subst hb; exact isDigit_digitByte h
  | case2 n h ih =>
    rw [showDec]; simp only [h, if_false, List.mem_append, List.mem_singleton]
    intro b hb
    rcases hb with hb | hb
    · exact ih b hb
    · subst hb; exact isDigit_digitByte (Nat.mod_lt _ (by omega))

theorem showDec_head_digit (n : Nat) : ∃ b rest, showDec n = b :: rest ∧ isDigit b = true := by
  have hne := showDec_ne_nil n
  match h : showDec n with
  | [] => exact absurd h hne
  | b :: rest =>
    refine ⟨b, rest, rfl, ?_⟩
    exact showDec_all_digits n b (by rw [h]; simp)

theorem parseInt64_showDec {n : Nat} (h : n < 2 ^ 63) : parseInt64 (showDec n) = some (n : Int) := by
  obtain ⟨b, rest, hs, hd⟩ := showDec_head_digit n
  have hp := parseDec_showDec n
  rw [hs] at hp
  rw [hs]
  have h43 : b ≠ 43 := by intro hb; subst hb; simp [isDigit] at hd
  have h45 : b ≠ 45 := by intro hb; subst hb; simp [isDigit] at hd
  unfold parseInt64
  split
  · simp at *
  · rename_i heq; simp at heq; exact absurd heq.1 h43
  · rename_i heq; simp at heq; exact absurd heq.1 h45
  · simp [hp, h]

end ConnectModel
