/-
  C10 — Deadlines propagate to the handler and are never extended (encode/parse logic).
  The end-to-end clause (the handler's context gets the deadline) is net/http + context and is
  sampled by the harness; what is proved here is the arithmetic and the grammar.
-/
import ConnectModel.Timeout
import ConnectModel.HandlerSide
import ConnectProofs.Lemmas.Timeout

namespace ConnectModel.C10
open ConnectModel

/-- gRPC's `Timeout` grammar: 1..8 ASCII digits followed by one unit character -/
def GrpcTimeout (s : Bytes) : Prop :=
  ∃ ds u, s = ds ++ [u] ∧ 1 ≤ ds.length ∧ ds.length ≤ 8 ∧ (∀ b ∈ ds, isDigit b = true) ∧
    (lookupUnit u Gen.grpcTimeoutUnits).isSome

/-- Connect's `Connect-Timeout-Ms` grammar: 1..10 ASCII digits -/
def ConnectTimeout (s : Bytes) : Prop :=
  1 ≤ s.length ∧ s.length ≤ 10 ∧ ∀ b ∈ s, isDigit b = true

/-- the unit table the proofs below are about (re-checked against the regenerated table) -/
theorem units_are : Gen.grpcTimeoutUnits =
    [(1, 110), (1000, 117), (1000000, 109), (1000000000, 83), (60000000000, 77), (3600000000000, 72)] ∧
    Gen.grpcMaxTimeoutChars = 8 ∧ Gen.grpcTimeoutMaxHours = 2562047 := by decide

theorem getLast_append_single (a : Bytes) (u : UInt8) : (a ++ [u]).getLast? = some u := by simp
theorem dropLast_append_single (a : Bytes) (u : UInt8) : (a ++ [u]).dropLast = a := by simp

/-- parsing what the encoder prints for quotient `q` and a unit of the table -/
theorem parse_printed (q size ch : Nat) (hch : ch < 256)
    (hunit : lookupUnit (UInt8.ofNat ch) Gen.grpcTimeoutUnits = some size)
    (hq : q < 10000000) (hhour : size = 3600000000000 → q ≤ 2562047) :
    grpcParseTimeout (showDec q ++ [UInt8.ofNat ch]) = .ok ((q : Int) * (size : Int)) := by
  unfold grpcParseTimeout
  rw [getLast_append_single, dropLast_append_single]
  simp only [hunit, parseInt64_showDec (show q < 2 ^ 63 by omega)]
  have h1 : ¬ ((q : Int) < 0) := by omega
  have h2 : ¬ ((q : Int) > 99999999) := by omega
  have h3 : ¬ (size = 3600000000000 ∧ (q : Int) > (Gen.grpcTimeoutMaxHours : Int)) := by
    rintro ⟨hs, hgt⟩
    have := hhour hs
    have hm : Gen.grpcTimeoutMaxHours = 2562047 := rfl
    rw [hm] at hgt
    omega
  simp only [h1, h2, h3, if_false]

theorem printed_grammatical (q ch : Nat) (hq : q < 10000000)
    (hunit : (lookupUnit (UInt8.ofNat ch) Gen.grpcTimeoutUnits).isSome) :
    GrpcTimeout (showDec q ++ [UInt8.ofNat ch]) := by
  refine ⟨showDec q, UInt8.ofNat ch, rfl, showDec_length_pos q, ?_, showDec_all_digits q, hunit⟩
  have := (showDec_length_lt8 q).mpr hq
  omega

/-- **grpc_encode_bound**: for every remaining time `d` in (0, 2^63) ns the client sends a
    grammatical `Grpc-Timeout` whose parsed value `v` is never longer than `d` and shorter by
    less than 0.01 % (`10000·(d−v) < d`; exact below 10^7 ns). In particular the encoder is total
    on that range (the `errNoTimeout` exit is unreachable). -/
theorem grpc_encode_bound (d : Int) (h0 : 0 < d) (h1 : d < 2 ^ 63) :
    ∃ s v, grpcEncodeTimeout d = some s ∧ GrpcTimeout s ∧ grpcParseTimeout s = .ok v ∧
      v ≤ d ∧ 10000 * (d - v) < d := by
  obtain ⟨n, rfl⟩ : ∃ n : Nat, d = (n : Int) := ⟨d.toNat, by omega⟩
  have hn0 : 0 < n := by omega
  have hn1 : n < 2 ^ 63 := by omega
  unfold grpcEncodeTimeout
  simp only [show ¬ ((n : Int) ≤ 0) by omega, if_false, Int.toNat_natCast]
  simp only [units_are.1, grpcEncodeLoop, units_are.2.1, showDec_length_lt8]
  have hu := units_are.1
  by_cases c1 : n / 1 < 10000000
  · simp only [c1, if_true]
    refine ⟨_, _, rfl, printed_grammatical _ 110 c1 (by rw [hu]; decide),
      parse_printed _ 1 110 (by omega) (by rw [hu]; decide) c1 (by omega), ?_, ?_⟩ <;> omega
  simp only [c1, if_false]
  by_cases c2 : n / 1000 < 10000000
  · simp only [c2, if_true]
    refine ⟨_, _, rfl, printed_grammatical _ 117 c2 (by rw [hu]; decide),
      parse_printed _ 1000 117 (by omega) (by rw [hu]; decide) c2 (by omega), ?_, ?_⟩ <;> omega
  simp only [c2, if_false]
  by_cases c3 : n / 1000000 < 10000000
  · simp only [c3, if_true]
    refine ⟨_, _, rfl, printed_grammatical _ 109 c3 (by rw [hu]; decide),
      parse_printed _ 1000000 109 (by omega) (by rw [hu]; decide) c3 (by omega), ?_, ?_⟩ <;> omega
  simp only [c3, if_false]
  by_cases c4 : n / 1000000000 < 10000000
  · simp only [c4, if_true]
    refine ⟨_, _, rfl, printed_grammatical _ 83 c4 (by rw [hu]; decide),
      parse_printed _ 1000000000 83 (by omega) (by rw [hu]; decide) c4 (by omega), ?_, ?_⟩ <;> omega
  simp only [c4, if_false]
  by_cases c5 : n / 60000000000 < 10000000
  · simp only [c5, if_true]
    refine ⟨_, _, rfl, printed_grammatical _ 77 c5 (by rw [hu]; decide),
      parse_printed _ 60000000000 77 (by omega) (by rw [hu]; decide) c5 (by omega), ?_, ?_⟩ <;> omega
  simp only [c5, if_false]
  have c6 : n / 3600000000000 < 10000000 := by
    have : (2 : Nat) ^ 63 = 9223372036854775808 := by decide
    omega
  have c6' : n / 3600000000000 ≤ 2562047 := by
    have : (2 : Nat) ^ 63 = 9223372036854775808 := by decide
    omega
  simp only [c6, if_true]
  refine ⟨_, _, rfl, printed_grammatical _ 72 c6 (by rw [hu]; decide),
    parse_printed _ 3600000000000 72 (by omega) (by rw [hu]; decide) c6 (fun _ => c6'), ?_, ?_⟩ <;> omega

/-- **connect_encode_bound**: remaining time of at least one millisecond whose millisecond count
    fits 10 digits: the header is exactly the decimal millisecond count, it is grammatical, the
    handler parses it to `v ≤ d` with `d − v < 1 ms`. -/
theorem connect_encode_bound (d : Int) (hlo : 1000000 ≤ d) (hhi : d / 1000000 < 10000000000) :
    ∃ s v, connectEncodeTimeout d = some s ∧ ConnectTimeout s ∧ connectParseTimeout s = .ok v ∧
      v ≤ d ∧ d - v < 1000000 := by
  obtain ⟨n, rfl⟩ : ∃ n : Nat, d = (n : Int) := ⟨d.toNat, by omega⟩
  have hq : n / 1000000 < 10000000000 := by omega
  have hq0 : 0 < n / 1000000 := by omega
  have htd : Int.tdiv (n : Int) 1000000 = ((n / 1000000 : Nat) : Int) := by
    rw [Int.tdiv_eq_ediv_of_nonneg (by omega)]; rfl
  have hlen := (showDec_length_le10 (n / 1000000)).mpr hq
  refine ⟨showDec (n / 1000000), ((n / 1000000 : Nat) : Int) * 1000000, ?_, ?_, ?_, ?_, ?_⟩
  · unfold connectEncodeTimeout
    simp only [htd]
    have : ((n / 1000000 : Nat) : Int) > 0 := by omega
    simp only [this, if_true, Int.toNat_natCast, hlen]
  · exact ⟨showDec_length_pos _, hlen, showDec_all_digits _⟩
  · unfold connectParseTimeout
    have hne := showDec_ne_nil (n / 1000000)
    simp only [hne, if_false, show ¬ (showDec (n / 1000000)).length > 10 by omega,
      parseInt64_showDec (show n / 1000000 < 2 ^ 63 by omega)]
  · omega
  · omega

/-- **connect_too_large_none**: a remaining time too large for 10 digits of milliseconds is sent
    as no timeout, never as a truncated one. -/
theorem connect_too_large_none (d : Int) (h : 10000000000 ≤ d / 1000000) :
    connectEncodeTimeout d = none := by
  obtain ⟨n, rfl⟩ : ∃ n : Nat, d = (n : Int) := ⟨d.toNat, by omega⟩
  have htd : Int.tdiv (n : Int) 1000000 = ((n / 1000000 : Nat) : Int) := by
    rw [Int.tdiv_eq_ediv_of_nonneg (by omega)]; rfl
  unfold connectEncodeTimeout
  simp only [htd]
  have hpos : ((n / 1000000 : Nat) : Int) > 0 := by omega
  have hlen : ¬ (showDec (n / 1000000)).length ≤ 10 := by
    rw [showDec_length_le10]; omega
  simp only [hpos, if_true, Int.toNat_natCast, hlen, if_false]

/-- **KNOWN FINDING F8 (`connect_encode_bound_full` is false)**: with less than one millisecond
    remaining the Connect client sends *no* `Connect-Timeout-Ms` header, so the handler gets no
    deadline at all although the client has one. Witnessed for every such `d`. -/
theorem connect_sub_millisecond_sends_nothing (d : Int) (h0 : 0 < d) (h1 : d < 1000000) :
    connectEncodeTimeout d = none := by
  obtain ⟨n, rfl⟩ : ∃ n : Nat, d = (n : Int) := ⟨d.toNat, by omega⟩
  have htd : Int.tdiv (n : Int) 1000000 = ((n / 1000000 : Nat) : Int) := by
    rw [Int.tdiv_eq_ediv_of_nonneg (by omega)]; rfl
  unfold connectEncodeTimeout
  simp only [htd]
  have : ¬ (((n / 1000000 : Nat) : Int) > 0) := by omega
  simp only [this, if_false]

/-- **grpc_parse_grammatical**: every grammatical gRPC timeout is honoured exactly, or taken as
    unbounded exactly when it exceeds what `time.Duration` can hold (hours only). -/
theorem grpc_parse_grammatical (ds : Bytes) (u : UInt8) (size : Nat)
    (hlen1 : 1 ≤ ds.length) (hlen8 : ds.length ≤ 8) (hd : ∀ b ∈ ds, isDigit b = true)
    (hu : lookupUnit u Gen.grpcTimeoutUnits = some size) :
    grpcParseTimeout (ds ++ [u]) =
      if size = 3600000000000 ∧ decVal ds 0 > 2562047 then .noTimeout
      else .ok ((decVal ds 0 : Int) * (size : Int)) := by
  have hne : ds ≠ [] := by intro h; subst h; simp at hlen1
  have hv := decVal_lt ds 0 hd
  have hpow : 10 ^ ds.length ≤ 10 ^ 8 := Nat.pow_le_pow_right (by omega) hlen8
  unfold grpcParseTimeout
  rw [getLast_append_single, dropLast_append_single]
  simp only [hu, parseInt64_digits ds hne (by omega) hd]
  have h1 : ¬ ((decVal ds 0 : Int) < 0) := by omega
  have h2 : ¬ ((decVal ds 0 : Int) > 99999999) := by
    have : (10 : Nat) ^ 8 = 100000000 := by decide
    omega
  have hm : Gen.grpcTimeoutMaxHours = 2562047 := rfl
  simp only [h1, h2, if_false, hm]
  by_cases hc : size = 3600000000000 ∧ decVal ds 0 > 2562047
  · have : size = 3600000000000 ∧ (decVal ds 0 : Int) > ((2562047 : Nat) : Int) := ⟨hc.1, by omega⟩
    simp only [this, hc, and_self, if_true]
  · have : ¬ (size = 3600000000000 ∧ (decVal ds 0 : Int) > ((2562047 : Nat) : Int)) := by
      rintro ⟨a, b⟩; exact hc ⟨a, by omega⟩
    simp only [this, hc, if_false]

/-- **connect_parse_grammatical**: every grammatical Connect timeout is honoured exactly
    (10 digits of milliseconds always fit `time.Duration`). -/
theorem connect_parse_grammatical (s : Bytes) (h : ConnectTimeout s) :
    connectParseTimeout s = .ok ((decVal s 0 : Int) * 1000000) := by
  obtain ⟨h1, h10, hd⟩ := h
  have hne : s ≠ [] := by intro h; subst h; simp at h1
  unfold connectParseTimeout
  simp only [hne, if_false, show ¬ s.length > 10 by omega, parseInt64_digits s hne (by omega) hd]

/-! ### malformed timeouts are rejected (→ invalid_argument, user code not run: Dispatch) -/

/-- unknown or missing unit -/
theorem grpc_unknown_unit (s : Bytes) (last : UInt8) (h : s.getLast? = some last)
    (hu : lookupUnit last Gen.grpcTimeoutUnits = none) : grpcParseTimeout s = .invalid := by
  unfold grpcParseTimeout; simp [h, hu]

/-- empty or non-decimal number part -/
theorem grpc_bad_number (body : Bytes) (u : UInt8) (size : Nat)
    (hu : lookupUnit u Gen.grpcTimeoutUnits = some size) (hb : parseInt64 body = none) :
    grpcParseTimeout (body ++ [u]) = .invalid := by
  unfold grpcParseTimeout
  rw [getLast_append_single, dropLast_append_single]
  simp [hu, hb]

/-- the empty number in particular -/
theorem grpc_empty_number (u : UInt8) : grpcParseTimeout [u] = .invalid ∨ grpcParseTimeout [u] = .invalid := by
  left
  unfold grpcParseTimeout
  simp only [List.getLast?_singleton, List.dropLast_singleton]
  cases lookupUnit u Gen.grpcTimeoutUnits <;> simp [parseInt64]

/-- magnitude beyond the 8-digit limit (or negative) -/
theorem grpc_too_long (body : Bytes) (u : UInt8) (size : Nat) (num : Int)
    (hu : lookupUnit u Gen.grpcTimeoutUnits = some size) (hb : parseInt64 body = some num)
    (hbig : num < 0 ∨ num > 99999999) : grpcParseTimeout (body ++ [u]) = .invalid := by
  unfold grpcParseTimeout
  rw [getLast_append_single, dropLast_append_single]
  simp only [hu, hb]
  rcases hbig with h | h
  · simp [h]
  · have : ¬ num < 0 := by omega
    simp [this, h]

/-- Connect: more than 10 characters, or not an integer literal -/
theorem connect_malformed (s : Bytes) (hne : s ≠ []) (h : s.length > 10 ∨ parseInt64 s = none) :
    connectParseTimeout s = .invalid := by
  unfold connectParseTimeout
  simp only [hne, if_false]
  rcases h with h | h
  · simp [h]
  · by_cases hl : s.length > 10 <;> simp [hl, h]

theorem parseDigits_nondigit (bs : Bytes) (acc : Nat) (h : ∃ b ∈ bs, isDigit b = false) :
    parseDigits bs acc = none := by
  induction bs generalizing acc with
  | nil => simp at h
  | cons c t ih =>
    by_cases hc : isDigit c = true
    · obtain ⟨b, hb, hd⟩ := h
      have hbt : b ∈ t := by
        rcases List.mem_cons.mp hb with rfl | hbt
        · simp [hc] at hd
        · exact hbt
      simp only [parseDigits, hc, if_true]
      exact ih _ ⟨b, hbt, hd⟩
    · simp [parseDigits, hc]

theorem parseDec_nondigit (bs : Bytes) (h : ∃ b ∈ bs, isDigit b = false) : parseDec bs = none := by
  cases bs with
  | nil => simp at h
  | cons c t => simpa [parseDec] using parseDigits_nondigit (c :: t) 0 h

/-- **connect_foreign_byte_rejected**: a Connect-Timeout-Ms value with any byte that is not a
    decimal digit after the first position - a comma ("5,000", "1000, 2000"), a unit, a blank, a
    dot - is malformed whatever precedes that byte: nothing is cut off and no prefix is honoured. -/
theorem connect_foreign_byte_rejected (c : UInt8) (rest : Bytes) (h : ∃ b ∈ rest, isDigit b = false) :
    connectParseTimeout (c :: rest) = .invalid := by
  apply connect_malformed _ (by simp)
  right
  by_cases h43 : c = 43
  · subst h43; simp [parseInt64, parseDec_nondigit rest h]
  · by_cases h45 : c = 45
    · subst h45; simp [parseInt64, parseDec_nondigit rest h]
    · have hd : parseDec (c :: rest) = none := by
        obtain ⟨b, hb, hbd⟩ := h
        exact parseDec_nondigit (c :: rest) ⟨b, List.mem_cons_of_mem _ hb, hbd⟩
      unfold parseInt64
      split
      · rename_i heq; cases heq
      · rename_i heq; cases heq; exact absurd rfl h43
      · rename_i heq; cases heq; exact absurd rfl h45
      · simp [hd]

-- "5,000" is rejected
example : connectParseTimeout [53, 44, 48, 48, 48] = .invalid := by decide

/-- **handler_deadline_never_later**: whatever deadline the server has put on the request's
    context already, the handler's deadline is no later than the peer's timeout allows and no
    later than the server's own - the earlier of the two; a peer's timeout is never dropped in
    favour of a longer server budget, and never extends a shorter one. -/
theorem handler_deadline_never_later (server : Option Int) (now d : Int) :
    ∃ dl, handlerDeadline server now (.ok d) = some dl ∧ dl ≤ now + d ∧ (∀ p, server = some p → dl ≤ p) ∧
      (dl = now + d ∨ server = some dl) := by
  cases server with
  | none => exact ⟨now + d, rfl, Int.le_refl _, (by intro p h; cases h), Or.inl rfl⟩
  | some p =>
    by_cases h : p < now + d
    · refine ⟨p, by simp [handlerDeadline, withTimeoutDeadline, h], by omega, ?_, Or.inr rfl⟩
      intro q hq; cases hq; exact Int.le_refl _
    · refine ⟨now + d, by simp [handlerDeadline, withTimeoutDeadline, h], Int.le_refl _, ?_, Or.inl rfl⟩
      intro q hq; cases hq; omega

/-- without a (valid) timeout header the server's own deadline, if any, stays -/
theorem handler_deadline_without_header (server : Option Int) (now : Int) :
    handlerDeadline server now .noTimeout = server := rfl

/-- no header ⇒ no deadline -/
theorem no_header_no_deadline : grpcParseTimeout [] = .noTimeout ∧ connectParseTimeout [] = .noTimeout := by
  constructor <;> rfl

/-! ### a deadline that has passed on arrival (unary handlers) -/

/-- **expired_never_runs**: a timeout header that parses to a duration ≤ 0 (`0`, `-5`, `0S`)
    is not an extension of the caller's deadline: the unary gate refuses to run the user
    function and the call fails with `deadline_exceeded`. -/
theorem expired_never_runs (p : Proto) (h : Bytes) (n : Int) (hn : n ≤ 0)
    (hp : handlerParseTimeout p h = .ok n) : unaryGate p h = some codeDeadlineExceeded := by
  simp [unaryGate, expiredOnArrival, hp, hn]

/-- … and a deadline in the future, or none, lets it run -/
theorem unexpired_runs (p : Proto) (h : Bytes)
    (hp : ∀ n : Int, handlerParseTimeout p h = .ok n → 0 < n) : unaryGate p h = none := by
  unfold unaryGate expiredOnArrival
  cases ht : handlerParseTimeout p h with
  | ok n => have := hp n ht; simp [Int.not_le.mpr this]
  | noTimeout => simp
  | invalid => simp

/-! non-vacuity -/
example : unaryGate .connect [45, 53] /- "-5" -/ = some 4 := by decide
example : unaryGate .grpc [48, 83] /- "0S" -/ = some 4 := by decide
example : unaryGate .connect [53] = none := by decide
example : connectParseTimeout [49, 50] = .ok 12000000 := by decide
example : grpcParseTimeout [57, 57, 57, 57, 57, 57, 57, 57, 72] /- 99999999H -/ = .noTimeout := by decide

/-! ### F20: the timeout is that of the moment the request goes out -/

/-- **late_send_never_extends (gRPC, gRPC-Web)**: however long after the call's creation the
    request goes out (before the deadline), the deadline the peer derives from `Grpc-Timeout` is
    never later than the client's own — and earlier by less than 0.01 % of what remained. -/
theorem late_send_never_extends_grpc (dl created sent : Int) (_h0 : created ≤ sent) (h1 : sent < dl)
    (h2 : dl - sent < 2 ^ 63) :
    ∃ pd, peerDeadline grpcEncodeTimeout grpcParseTimeout (headerRemaining dl created sent) sent = some pd ∧
      pd ≤ dl ∧ 10000 * (dl - pd) < dl - sent := by
  obtain ⟨s, v, he, _, hp, hle, hgr⟩ := grpc_encode_bound (dl - sent) (by omega) h2
  refine ⟨sent + v, ?_, by omega, by omega⟩
  simp [peerDeadline, headerRemaining, he, hp]

/-- **late_send_never_extends (Connect)**: the same with millisecond granularity, for remaining
    times that are sent at all (at least 1 ms, at most 10 digits of milliseconds). -/
theorem late_send_never_extends_connect (dl created sent : Int) (_h0 : created ≤ sent)
    (hlo : 1000000 ≤ dl - sent) (hhi : (dl - sent) / 1000000 < 10000000000) :
    ∃ pd, peerDeadline connectEncodeTimeout connectParseTimeout (headerRemaining dl created sent) sent = some pd ∧
      pd ≤ dl ∧ dl - pd < 1000000 := by
  obtain ⟨s, v, he, _, hp, hle, hgr⟩ := connect_encode_bound (dl - sent) hlo hhi
  refine ⟨sent + v, ?_, by omega, by omega⟩
  simp [peerDeadline, headerRemaining, he, hp]

/-- **History, F20** — the pinned tree computed the header when the call was created: a call
    created at 0 with a 2 s deadline whose first `Send` comes at 1.2 s told the peer (about) 2 s,
    and the handler's deadline came out more than a second after the client's. -/
theorem late_send_extended_on_pinned :
    (∃ pd, peerDeadline grpcEncodeTimeout grpcParseTimeout (headerRemainingPinned 2000000000 0 1200000000) 1200000000
      = some pd ∧ pd > 2000000000 + 1000000000) ∧
    (∃ pd, peerDeadline connectEncodeTimeout connectParseTimeout (headerRemainingPinned 2000000000 0 1200000000) 1200000000
      = some pd ∧ pd > 2000000000 + 1000000000) := by
  constructor
  · obtain ⟨s, v, he, _, hp, hle, hgr⟩ := grpc_encode_bound 2000000000 (by omega) (by decide)
    refine ⟨1200000000 + v, ?_, by omega⟩
    simp [peerDeadline, headerRemainingPinned, he, hp]
  · obtain ⟨s, v, he, _, hp, hle, hgr⟩ := connect_encode_bound 2000000000 (by omega) (by omega)
    refine ⟨1200000000 + v, ?_, by omega⟩
    simp [peerDeadline, headerRemainingPinned, he, hp]

end ConnectModel.C10
