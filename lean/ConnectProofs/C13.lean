/-
  C13 — Concurrent calls on shared clients and handlers never interfere (the part that is logic).
  Under the pool discipline (a buffer / (de)compressor is held by one call between Get and Put,
  handed out cleared), *for every interleaving* each call reads exactly what it would read
  alone. Absence of data races in the Go memory model is not expressible here: the harness runs
  the concurrent stream under the race detector.
-/
import ConnectModel.Pool
import ConnectProofs.C14

namespace ConnectModel.C13
open ConnectModel

/-- what call `c` holds -/
def proj (c : CallId) (s : Store) : Store := fun x =>
  match s x with
  | some (c', d) => if c' = c then some (c', d) else none
  | none => none

theorem proj_set_same (c : CallId) (s : Store) (b : BufId) (d : Bytes) :
    proj c (s.set b c d) = (proj c s).set b c d := by
  funext x
  simp only [proj, Store.set]
  by_cases hx : x = b <;> simp [hx]

theorem proj_set_other (c c' : CallId) (s : Store) (b : BufId) (d : Bytes) (hne : c' ≠ c)
    (hfree : ∀ p, s b = some p → p.1 ≠ c) : proj c (s.set b c' d) = proj c s := by
  funext x
  simp only [proj, Store.set]
  by_cases hx : x = b
  · subst hx
    simp only [if_true, hne, if_false]
    cases hs : s x with
    | none => rfl
    | some p => obtain ⟨o, dd⟩ := p; have := hfree _ hs; simp at this; simp [this]
  · simp [hx]

theorem proj_remove_same (c : CallId) (s : Store) (b : BufId) : proj c (s.remove b) = (proj c s).remove b := by
  funext x
  simp only [proj, Store.remove]
  by_cases hx : x = b <;> simp [hx]

theorem proj_remove_other (c : CallId) (s : Store) (b : BufId) (hown : ∀ p, s b = some p → p.1 ≠ c) :
    proj c (s.remove b) = proj c s := by
  funext x
  simp only [proj, Store.remove]
  by_cases hx : x = b
  · subst hx
    simp only [if_true]
    cases hs : s x with
    | none => rfl
    | some p => obtain ⟨o, dd⟩ := p; have := hown _ hs; simp at this; simp [this]
  · simp [hx]

theorem proj_find (c : CallId) (s : Store) (b : BufId) :
    (proj c s).find b = match s.find b with
      | some (c', d) => if c' = c then some (c', d) else none
      | none => none := rfl

/-- **noninterference**: take any history of any number of calls that respects the discipline
    (i.e. `bufRun` accepts it) — *any interleaving*. For every call `c`, running only `c`'s own
    events from `c`'s own buffers is accepted too and produces exactly the reads `c` observed in
    the interleaved run: no byte of another call ever shows up in `c`'s buffers. -/
theorem noninterference (c : CallId) : ∀ (h : List BufEv) (s sf : Store) (log : List (CallId × Bytes)),
    bufRun s h = some (sf, log) →
    bufRun (proj c s) (h.filter fun e => e.call = c) = some (proj c sf, log.filter fun r => r.1 = c) := by
  intro h
  induction h with
  | nil =>
    intro s sf log hr
    simp only [bufRun, Option.some.injEq, Prod.mk.injEq] at hr
    obtain ⟨rfl, rfl⟩ := hr
    simp [bufRun]
  | cons e rest ih =>
    intro s sf log hr
    simp only [bufRun] at hr
    cases hstep : bufStep s e with
    | none => rw [hstep] at hr; cases hr
    | some p =>
      obtain ⟨s1, r⟩ := p
      rw [hstep] at hr
      simp only at hr
      cases hrest : bufRun s1 rest with
      | none => rw [hrest] at hr; cases hr
      | some q =>
        obtain ⟨sf', log'⟩ := q
        rw [hrest] at hr
        simp only [Option.some.injEq, Prod.mk.injEq] at hr
        obtain ⟨rfl, rfl⟩ := hr
        have ih' := ih s1 sf' log' hrest
        by_cases hc : e.call = c
        · -- an event of c: the solo run makes the same step on c's projection
          simp only [List.filter_cons, hc, decide_true, if_true, bufRun]
          cases e with
          | get c0 b =>
            simp only [BufEv.call] at hc; subst hc
            simp only [bufStep] at hstep
            cases hf : s.find b with
            | some p => rw [hf] at hstep; cases hstep
            | none =>
              rw [hf] at hstep
              simp only [Option.some.injEq, Prod.mk.injEq] at hstep
              obtain ⟨rfl, rfl⟩ := hstep
              have hpf : (proj c0 s).find b = none := by rw [proj_find, hf]
              simp only [bufStep, hpf, ← proj_set_same, ih']
              simp
          | write c0 b d =>
            simp only [BufEv.call] at hc; subst hc
            simp only [bufStep] at hstep
            cases hf : s.find b with
            | none => rw [hf] at hstep; cases hstep
            | some p =>
              obtain ⟨o, old⟩ := p
              rw [hf] at hstep
              simp only at hstep
              split at hstep
              · rename_i ho; subst ho
                simp only [Option.some.injEq, Prod.mk.injEq] at hstep
                obtain ⟨rfl, rfl⟩ := hstep
                have hpf : (proj o s).find b = some (o, old) := by rw [proj_find, hf]; simp
                simp only [bufStep, hpf, if_true, ← proj_set_same, ih']
                simp
              · cases hstep
          | read c0 b =>
            simp only [BufEv.call] at hc; subst hc
            simp only [bufStep] at hstep
            cases hf : s.find b with
            | none => rw [hf] at hstep; cases hstep
            | some p =>
              obtain ⟨o, d⟩ := p
              rw [hf] at hstep
              simp only at hstep
              split at hstep
              · rename_i ho; subst ho
                simp only [Option.some.injEq, Prod.mk.injEq] at hstep
                obtain ⟨rfl, rfl⟩ := hstep
                have hpf : (proj o s).find b = some (o, d) := by rw [proj_find, hf]; simp
                simp only [bufStep, hpf, if_true, ih']
                simp
              · cases hstep
          | put c0 b =>
            simp only [BufEv.call] at hc; subst hc
            simp only [bufStep] at hstep
            cases hf : s.find b with
            | none => rw [hf] at hstep; cases hstep
            | some p =>
              obtain ⟨o, d⟩ := p
              rw [hf] at hstep
              simp only at hstep
              split at hstep
              · rename_i ho; subst ho
                simp only [Option.some.injEq, Prod.mk.injEq] at hstep
                obtain ⟨rfl, rfl⟩ := hstep
                have hpf : (proj o s).find b = some (o, d) := by rw [proj_find, hf]; simp
                simp only [bufStep, hpf, if_true, ← proj_remove_same, ih']
                simp
              · cases hstep
        · -- an event of another call: c's buffers and c's reads are untouched
          have hfilter : ((e :: rest).filter fun e => decide (e.call = c)) = rest.filter fun e => decide (e.call = c) := by
            simp [List.filter_cons, hc]
          rw [hfilter]
          have hproj : proj c s1 = proj c s ∧ (∀ x, r = some x → x.1 ≠ c) := by
            cases e with
            | get c0 b =>
              simp only [BufEv.call] at hc
              simp only [bufStep] at hstep
              cases hf : s.find b with
              | some p => rw [hf] at hstep; cases hstep
              | none =>
                rw [hf] at hstep
                simp only [Option.some.injEq, Prod.mk.injEq] at hstep
                obtain ⟨rfl, rfl⟩ := hstep
                exact ⟨proj_set_other c c0 s b [] hc (by intro p hp; simp [Store.find] at hf; rw [hf] at hp; cases hp), by intro x hx; cases hx⟩
            | write c0 b d =>
              simp only [BufEv.call] at hc
              simp only [bufStep] at hstep
              cases hf : s.find b with
              | none => rw [hf] at hstep; cases hstep
              | some p =>
                obtain ⟨o, old⟩ := p
                rw [hf] at hstep
                simp only at hstep
                split at hstep
                · rename_i ho; subst ho
                  simp only [Option.some.injEq, Prod.mk.injEq] at hstep
                  obtain ⟨rfl, rfl⟩ := hstep
                  exact ⟨proj_set_other c o s b _ hc (by intro p hp; simp [Store.find] at hf; rw [hf] at hp; cases hp; exact hc), by intro x hx; cases hx⟩
                · cases hstep
            | read c0 b =>
              simp only [BufEv.call] at hc
              simp only [bufStep] at hstep
              cases hf : s.find b with
              | none => rw [hf] at hstep; cases hstep
              | some p =>
                obtain ⟨o, d⟩ := p
                rw [hf] at hstep
                simp only at hstep
                split at hstep
                · rename_i ho; subst ho
                  simp only [Option.some.injEq, Prod.mk.injEq] at hstep
                  obtain ⟨rfl, rfl⟩ := hstep
                  exact ⟨rfl, by intro x hx; cases hx; exact hc⟩
                · cases hstep
            | put c0 b =>
              simp only [BufEv.call] at hc
              simp only [bufStep] at hstep
              cases hf : s.find b with
              | none => rw [hf] at hstep; cases hstep
              | some p =>
                obtain ⟨o, d⟩ := p
                rw [hf] at hstep
                simp only at hstep
                split at hstep
                · rename_i ho; subst ho
                  simp only [Option.some.injEq, Prod.mk.injEq] at hstep
                  obtain ⟨rfl, rfl⟩ := hstep
                  exact ⟨proj_remove_other c s b (by intro p hp; simp [Store.find] at hf; rw [hf] at hp; cases hp; exact hc), by intro x hx; cases hx⟩
                · cases hstep
          rw [← hproj.1]
          cases r with
          | none => simpa using ih'
          | some x =>
            have hx := hproj.2 x rfl
            simpa [List.filter_cons, hx] using ih'

/-- **exclusive_ownership**: in an accepted Get/Put trace no buffer is ever handed out while it is
    still out, nor returned while it is in the pool (definition of `poolStep`, stated for the
    record): a rejected event is exactly a double hand-out or a double return. -/
theorem pool_reject_iff (s : PoolTrace) (e : PoolEv) :
    poolStep s e = none ↔ (∃ b, e = .get b ∧ b ∈ s.out) ∨ (∃ b, e = .put b ∧ b ∈ s.inPool) := by
  cases e with
  | get b =>
    simp only [poolStep]
    constructor
    · intro h; split at h
      · left; exact ⟨b, rfl, by assumption⟩
      · cases h
    · rintro (⟨b', hb, hm⟩ | ⟨b', hb, _⟩)
      · cases hb; simp [hm]
      · cases hb
  | put b =>
    simp only [poolStep]
    constructor
    · intro h; split at h
      · right; exact ⟨b, rfl, by assumption⟩
      · cases h
    · rintro (⟨b', hb, _⟩ | ⟨b', hb, hm⟩)
      · cases hb
      · cases hb; simp [hm]

/-- the response hand-over is race-free at model level for every schedule (from C14) -/
theorem response_handover_race_free (acts : List DAction) (s' : DState) (h : drun DState.init acts = some s') :
    s'.racyReads = 0 :=
  (C14.response_read_only_after_ready acts DState.init s' C14.DInv_init h).2.2

/-! non-vacuity: two interleaved calls; call 1 reads only its own bytes -/
example : (bufRun Store.empty [.get 1 10, .get 2 11, .write 1 10 [7], .write 2 11 [9], .read 1 10, .put 2 11, .get 2 11, .read 1 10, .put 1 10]).map (·.2)
    = some [(1, [7]), (1, [7])] := by decide

end ConnectModel.C13
