/-
  C14 — Every call terminates and releases what it acquired (the part that is logic).
  Sticky errors, Receive after a failed Receive, Send after the peer is gone, and the
  response-ready hand-over for every interleaving of the request goroutine with API calls.
  Real-time bounds, goroutine exit and body closing are runtime facts sampled by the harness.
-/
import ConnectModel.Duplex
import ConnectProofs.C15

namespace ConnectModel.C14
open ConnectModel

/-! ### the error cell -/

/-- **err_sticky**: whatever sequence of `SetError` calls follows, the stored error is the first one. -/
theorem err_sticky (first : GoError) (later : List GoError) :
    later.foldl setError (setError none first) = setError none first := by
  induction later with
  | nil => rfl
  | cons e rest ih => simpa [List.foldl, setError] using ih

/-! ### once Receive has reported an error it keeps reporting one -/

theorem receiveStep_stores (s : RState) (h : (receiveStep s).1.isMsg = false) :
    (receiveStep s).2.stored.isSome = true := by
  unfold receiveStep
  unfold receiveStep at h
  cases hs : s.stored with
  | some p => obtain ⟨c, w⟩ := p; cases w <;> simp [hs]
  | none =>
    rw [hs] at h
    cases hi : s.items with
    | nil => simp
    | cons it rest =>
      rw [hi] at h
      cases it <;> simp_all [RecvClass.isMsg]

theorem receiveStep_stuck (s : RState) (h : s.stored.isSome = true) :
    (receiveStep s).1.isMsg = false ∧ (receiveStep s).2 = s := by
  unfold receiveStep
  cases hs : s.stored with
  | none => rw [hs] at h; cases h
  | some p => obtain ⟨c, w⟩ := p; cases w <;> simp [RecvClass.isMsg]

theorem receiveMany_stuck : ∀ (n : Nat) (s : RState), s.stored.isSome = true →
    ∀ r ∈ receiveMany n s, r = (receiveStep s).1
  | 0, _, _ => by simp [receiveMany]
  | n + 1, s, h => by
    intro r hr
    simp only [receiveMany, List.mem_cons] at hr
    rcases hr with hr | hr
    · exact hr
    · rw [(receiveStep_stuck s h).2] at hr
      exact receiveMany_stuck n s h r hr

/-- **receive_error_sticky**: in any sequence of `Receive` calls on one call, whatever the body
    holds, everything after the first non-message result is a non-message result — the very
    same one. Messages that follow a rejected one are never delivered. -/
theorem receive_error_sticky : ∀ (n : Nat) (s : RState) (i : Nat) (hi : i < (receiveMany n s).length),
    ((receiveMany n s)[i]).isMsg = false →
    ∀ (j : Nat) (hj : j < (receiveMany n s).length), i ≤ j → (receiveMany n s)[j] = (receiveMany n s)[i]
  | 0, _, i, hi, _, _, _, _ => by simp [receiveMany] at hi
  | n + 1, s, 0, _, h0, j, hj, _ => by
    simp only [receiveMany, List.getElem_cons_zero] at h0 ⊢
    cases j with
    | zero => rfl
    | succ j =>
      simp only [List.getElem_cons_succ]
      have hst := receiveStep_stores s h0
      have hstuck := receiveMany_stuck n (receiveStep s).2 hst
      have hmem : (receiveMany n (receiveStep s).2)[j]'(by simpa [receiveMany] using hj) ∈ receiveMany n (receiveStep s).2 :=
        List.getElem_mem _
      rw [hstuck _ hmem]
      -- the step from a stored state repeats the stored result, which equals the first failure
      have := receiveStep_stuck (receiveStep s).2 hst
      unfold receiveStep at h0 ⊢
      cases hs : s.stored with
      | some p => obtain ⟨c, w⟩ := p; cases w <;> simp [hs]
      | none =>
        rw [hs] at h0
        cases hit : s.items with
        | nil => simp [hs, hit]
        | cons it rest =>
          rw [hit] at h0
          cases it <;> simp_all [RecvClass.isMsg]
  | n + 1, s, i + 1, hi, h, j, hj, hij => by
    cases j with
    | zero => omega
    | succ j =>
      simp only [receiveMany, List.getElem_cons_succ] at h ⊢
      exact receive_error_sticky n (receiveStep s).2 i (by simpa [receiveMany] using hi) h j
        (by simpa [receiveMany] using hj) (by omega)

/-! ### Send after the handler has finished -/

/-- **send_after_handler_done**: once the transport has closed the request body (the handler
    finished, or an error was recorded), `Send` does not block: it returns an error wrapping
    `io.EOF` (or the context's code if the context is done as well). -/
theorem send_after_handler_done (ctx2 : Option CtxKind) (pipe2 : PipeState) :
    ∃ e, sendResult none ctx2 .closedByPeer pipe2 = some e ∧ e.isEOF = true := by
  refine ⟨wrapIfUncoded (envelopeWritePrefixError .eof), rfl, ?_⟩
  decide

/-- … also when the body is closed between the two writes of one `Send` -/
theorem send_interrupted_mid_message :
    ∃ e, sendResult none none .open .closedByPeer = some e ∧ e.isEOF = true := by
  refine ⟨wrapIfUncoded (envelopeWritePayloadError .eof), rfl, ?_⟩
  decide

/-! ### the request goroutine: every interleaving -/

/-- invariant of the control state -/
def DInv (s : DState) : Prop :=
  (s.requestDone = true → s.started = true) ∧ (s.responseSet = true → s.started = true) ∧ s.racyReads = 0

theorem DInv_init : DInv DState.init := by simp [DInv, DState.init]

theorem dstep_inv (s s' : DState) (a : DAction) (h : DInv s) (hs : dstep s a = some s') : DInv s' := by
  obtain ⟨h1, h2, h3⟩ := h
  cases a with
  | ensureRequestMade => simp [dstep] at hs; subst hs; simp [DInv, h3]
  | doReturns ok =>
    simp only [dstep] at hs
    split at hs
    · rename_i hc
      cases ok <;> simp at hs <;> subst hs <;> simp [DInv, h3, hc.1] <;> intro hh <;> simp_all
    · cases hs
  | validate ok =>
    simp only [dstep] at hs
    split at hs
    · cases ok <;> simp at hs <;> subst hs <;> exact ⟨h1, h2, h3⟩
    · cases hs
  | closeReady =>
    simp only [dstep] at hs
    split at hs
    · rename_i hc; simp at hs; subst hs; simp [DInv, h3, hc.1]
    · cases hs
  | apiBlock => simp [dstep] at hs; subst hs; exact ⟨h1, h2, h3⟩
  | apiProceed =>
    simp only [dstep] at hs
    split at hs
    · simp at hs; subst hs; exact ⟨h1, h2, h3⟩
    · cases hs
  | setError c => simp [dstep] at hs; subst hs; exact ⟨h1, h2, h3⟩

/-- **response_read_only_after_ready** (data-race freedom at model level, C13): along every
    schedule of the request goroutine, API calls and error reports, `d.response` is read only
    after `responseReady` was closed, the request goroutine is started before it finishes. -/
theorem response_read_only_after_ready : ∀ (acts : List DAction) (s s' : DState),
    DInv s → drun s acts = some s' → DInv s'
  | [], s, s', h, hr => by simp [drun] at hr; subst hr; exact h
  | a :: rest, s, s', h, hr => by
    simp only [drun] at hr
    cases hs : dstep s a with
    | none => rw [hs] at hr; simp at hr
    | some s1 =>
      rw [hs] at hr
      simp only [Option.bind_some] at hr
      exact response_read_only_after_ready rest s1 s' (dstep_inv s s1 a h hs) hr

/-- **ready_once**: `responseReady` is closed at most once (closing a closed channel panics) -/
theorem ready_once (s s1 : DState) (h1 : dstep s .closeReady = some s1) :
    dstep s1 .closeReady = none := by
  simp only [dstep] at h1
  split at h1
  · simp at h1; subst h1; simp [dstep]
  · cases h1

/-- **no_lost_wakeup**: a reader blocked in `BlockUntilResponseReady` can proceed as soon as the
    request goroutine has run to completion — which it always can once started: `Do` returns
    (transport assumption), validation is a function, the deferred close is unconditional. -/
theorem no_lost_wakeup (s : DState) (hstarted : s.started = true) (hnd : s.requestDone = false) (hrs : s.responseSet = false) (okDo okVal : Bool) :
    ∃ s', drun s ([.doReturns okDo] ++ (if okDo then [.validate okVal] else []) ++ [.closeReady, .apiProceed]) = some s' ∧
      s'.requestDone = true := by
  cases okDo <;> cases okVal <;> simp [drun, dstep, hstarted, hnd, hrs]

/-! non-vacuity -/
example : receiveMany 4 { stored := none, items := [.ok [1], .bad 3, .ok [2], .endOK] } =
    [.msg [1], .fail 3, .fail 3, .fail 3] := by decide

end ConnectModel.C14
