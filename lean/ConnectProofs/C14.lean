/-
  C14 — Every call terminates and releases what it acquired (the part that is logic).
  Sticky errors, Receive after a failed Receive, Send after the peer is gone, and the
  response-ready hand-over for every interleaving of the request goroutine with API calls.
  Real-time bounds, goroutine exit and body closing are runtime facts sampled by the harness.
-/
import ConnectModel.Duplex
import ConnectProofs.C15

namespace ConnectModel.C14
open ConnectModel

/-! ### the error cell -/

/-- **err_sticky**: whatever sequence of `SetError` calls follows, the stored error is the first one. -/
theorem err_sticky (first : GoError) (later : List GoError) :
    later.foldl setError (setError none first) = setError none first := by
  induction later with
  | nil => rfl
  | cons e rest ih => simpa [List.foldl, setError] using ih

/-! ### once Receive has reported an error it keeps reporting one -/

theorem receiveStep_stores (s : RState) (h : (receiveStep s).1.isMsg = false) :
    (receiveStep s).2.stored.isSome = true := by
  unfold receiveStep
  unfold receiveStep at h
  cases hs : s.stored with
  | some p => obtain ⟨c, w⟩ := p; cases w <;> simp [hs]
  | none =>
    rw [hs] at h
    cases hi : s.items with
    | nil => simp
    | cons it rest =>
      rw [hi] at h
      cases it <;> simp_all [RecvClass.isMsg]

theorem receiveStep_stuck (s : RState) (h : s.stored.isSome = true) :
    (receiveStep s).1.isMsg = false ∧ (receiveStep s).2 = s := by
  unfold receiveStep
  cases hs : s.stored with
  | none => rw [hs] at h; cases h
  | some p => obtain ⟨c, w⟩ := p; cases w <;> simp [RecvClass.isMsg]

theorem receiveMany_stuck : ∀ (n : Nat) (s : RState), s.stored.isSome = true →
    ∀ r ∈ receiveMany n s, r = (receiveStep s).1
  | 0, _, _ => by simp [receiveMany]
  | n + 1, s, h => by
    intro r hr
    simp only [receiveMany, List.mem_cons] at hr
    rcases hr with hr | hr
    · exact hr
    · rw [(receiveStep_stuck s h).2] at hr
      exact receiveMany_stuck n s h r hr

/-- **receive_error_sticky**: in any sequence of `Receive` calls on one call, whatever the body
    holds, everything after the first non-message result is a non-message result — the very
    same one. Messages that follow a rejected one are never delivered. -/
theorem receive_error_sticky : ∀ (n : Nat) (s : RState) (i : Nat) (hi : i < (receiveMany n s).length),
    ((receiveMany n s)[i]).isMsg = false →
    ∀ (j : Nat) (hj : j < (receiveMany n s).length), i ≤ j → (receiveMany n s)[j] = (receiveMany n s)[i]
  | 0, _, i, hi, _, _, _, _ => by simp [receiveMany] at hi
  | n + 1, s, 0, _, h0, j, hj, _ => by
    simp only [receiveMany, List.getElem_cons_zero] at h0 ⊢
    cases j with
    | zero => rfl
    | succ j =>
      simp only [List.getElem_cons_succ]
      have hst := receiveStep_stores s h0
      have hstuck := receiveMany_stuck n (receiveStep s).2 hst
      have hmem : (receiveMany n (receiveStep s).2)[j]'(by simpa [receiveMany] using hj) ∈ receiveMany n (receiveStep s).2 :=
        List.getElem_mem _
      rw [hstuck _ hmem]
      -- the step from a stored state repeats the stored result, which equals the first failure
      have := receiveStep_stuck (receiveStep s).2 hst
      unfold receiveStep at h0 ⊢
      cases hs : s.stored with
      | some p => obtain ⟨c, w⟩ := p; cases w <;> simp [hs]
      | none =>
        rw [hs] at h0
        cases hit : s.items with
        | nil => simp [hs, hit]
        | cons it rest =>
          rw [hit] at h0
          cases it <;> simp_all [RecvClass.isMsg]
  | n + 1, s, i + 1, hi, h, j, hj, hij => by
    cases j with
    | zero => omega
    | succ j =>
      simp only [receiveMany, List.getElem_cons_succ] at h ⊢
      exact receive_error_sticky n (receiveStep s).2 i (by simpa [receiveMany] using hi) h j
        (by simpa [receiveMany] using hj) (by omega)

/-! ### Send after the handler has finished -/

/-- **send_after_handler_done**: once the transport has closed the request body (the handler
    finished, or an error was recorded), `Send` does not block: it returns an error wrapping
    `io.EOF` (or the context's code if the context is done as well). -/
theorem send_after_handler_done (ctx2 : Option CtxKind) (pipe2 : PipeState) :
    ∃ e, sendResult none ctx2 .closedByPeer pipe2 = some e ∧ e.isEOF = true := by
  refine ⟨wrapIfUncoded (envelopeWritePrefixError .eof), rfl, ?_⟩
  decide

/-- … also when the body is closed between the two writes of one `Send` -/
theorem send_interrupted_mid_message :
    ∃ e, sendResult none none .open .closedByPeer = some e ∧ e.isEOF = true := by
  refine ⟨wrapIfUncoded (envelopeWritePayloadError .eof), rfl, ?_⟩
  decide

/-! ### the request goroutine: every interleaving -/

/-- invariant of the control state -/
def DInv (s : DState) : Prop :=
  (s.requestDone = true → s.started = true) ∧ (s.responseSet = true → s.started = true) ∧ s.racyReads = 0

theorem DInv_init : DInv DState.init := by simp [DInv, DState.init]

theorem dstep_inv (s s' : DState) (a : DAction) (h : DInv s) (hs : dstep s a = some s') : DInv s' := by
  obtain ⟨h1, h2, h3⟩ := h
  cases a with
  | ensureRequestMade => simp [dstep] at hs; subst hs; simp [DInv, h3]
  | doReturns ok =>
    simp only [dstep] at hs
    split at hs
    · rename_i hc
      cases ok <;> simp at hs <;> subst hs <;> simp [DInv, h3, hc.1] <;> intro hh <;> simp_all
    · cases hs
  | validate ok =>
    simp only [dstep] at hs
    split at hs
    · cases ok <;> simp at hs <;> subst hs <;> exact ⟨h1, h2, h3⟩
    · cases hs
  | closeReady =>
    simp only [dstep] at hs
    split at hs
    · rename_i hc; simp at hs; subst hs; simp [DInv, h3, hc.1]
    · cases hs
  | apiBlock => simp [dstep] at hs; subst hs; exact ⟨h1, h2, h3⟩
  | apiProceed =>
    simp only [dstep] at hs
    split at hs
    · simp at hs; subst hs; exact ⟨h1, h2, h3⟩
    · cases hs
  | setError c => simp [dstep] at hs; subst hs; exact ⟨h1, h2, h3⟩

/-- **response_read_only_after_ready** (data-race freedom at model level, C13): along every
    schedule of the request goroutine, API calls and error reports, `d.response` is read only
    after `responseReady` was closed, the request goroutine is started before it finishes. -/
theorem response_read_only_after_ready : ∀ (acts : List DAction) (s s' : DState),
    DInv s → drun s acts = some s' → DInv s'
  | [], s, s', h, hr => by simp [drun] at hr; subst hr; exact h
  | a :: rest, s, s', h, hr => by
    simp only [drun] at hr
    cases hs : dstep s a with
    | none => rw [hs] at hr; simp at hr
    | some s1 =>
      rw [hs] at hr
      simp only [Option.bind_some] at hr
      exact response_read_only_after_ready rest s1 s' (dstep_inv s s1 a h hs) hr

/-- **ready_once**: `responseReady` is closed at most once (closing a closed channel panics) -/
theorem ready_once (s s1 : DState) (h1 : dstep s .closeReady = some s1) :
    dstep s1 .closeReady = none := by
  simp only [dstep] at h1
  split at h1
  · simp at h1; subst h1; simp [dstep]
  · cases h1

/-- **no_lost_wakeup**: a reader blocked in `BlockUntilResponseReady` can proceed as soon as the
    request goroutine has run to completion — which it always can once started: `Do` returns
    (transport assumption), validation is a function, the deferred close is unconditional. -/
theorem no_lost_wakeup (s : DState) (hstarted : s.started = true) (hnd : s.requestDone = false) (hrs : s.responseSet = false) (okDo okVal : Bool) :
    ∃ s', drun s ([.doReturns okDo] ++ (if okDo then [.validate okVal] else []) ++ [.closeReady, .apiProceed]) = some s' ∧
      s'.requestDone = true := by
  cases okDo <;> cases okVal <;> simp [drun, dstep, hstarted, hnd, hrs]

/-- **request_side_starts_request** (fact regenerated from the source on every run): `Write`
    and `CloseWrite` call `ensureRequestMade` as a top-level statement in front of every statement
    that can return - in particular in front of the context check. The transition system's
    `started` hypothesis below therefore holds after the first request-side call whatever that
    call returns (a `Send` on a context that is already over included). -/
theorem request_side_starts_request : ∀ w ∈ Gen.requestSideStartsRequest, w.2 = 0 := by decide

/-- **sentinels_only_through_errors_is** (fact regenerated from the source on every run): nowhere
    in the package is an error compared with `==` / `!=` against `io.EOF`, `io.ErrUnexpectedEOF`,
    `context.Canceled` or `context.DeadlineExceeded`. `Send` reports "the other side is finished"
    as a *coded error wrapping* `io.EOF` (`send_after_handler_done`), so code that decides what to
    do next - carry on to `Receive` for the real outcome, or give up - must look through the
    wrapping; `GoError.isEOF` / `isCtx` in the model are `errors.Is`. -/
theorem sentinels_only_through_errors_is : Gen.directSentinelComparisons = [] := by decide

/-- **first_send_enables_response_side**: from any state in which the request goroutine has not
    finished, a request-side call followed by the goroutine's run lets a blocked response-side
    call proceed - no assumption on `started`. -/
theorem first_send_enables_response_side (s : DState) (hnd : s.requestDone = false) (hrs : s.responseSet = false)
    (okDo okVal : Bool) :
    ∃ s', drun s ([.ensureRequestMade, .doReturns okDo] ++ (if okDo then [.validate okVal] else []) ++ [.closeReady, .apiProceed]) = some s' ∧
      s'.requestDone = true := by
  cases okDo <;> cases okVal <;> simp [drun, dstep, hnd, hrs]

/-! non-vacuity -/
example : receiveMany 4 { stored := none, items := [.ok [1], .bad 3, .ok [2], .endOK] } =
    [.msg [1], .fail 3, .fail 3, .fail 3] := by decide

/-! ### the typed wrapper: `ServerStreamForClient` -/

/-- a failure the wrapper has recorded survives every operation - `Close` included -/
theorem wrapper_failure_kept (s : SState) (c : Nat) (h : s.receiveErr = some (c, false)) (op : SOp) :
    (sstep s op).2.receiveErr = some (c, false) := by
  cases op <;> simp [sstep, h]

theorem wrapper_failure_kept_run : ∀ (ops : List SOp) (s : SState) (c : Nat), s.receiveErr = some (c, false) →
    (srun s ops).2.receiveErr = some (c, false)
  | [], s, c, h => by simpa [srun] using h
  | op :: rest, s, c, h => by
    simp only [srun]
    exact wrapper_failure_kept_run rest _ c (wrapper_failure_kept s c h op)

/-- **wrapper_err_sticky**: once `Err()` has reported a code it reports that code after any
    further sequence of `Receive`, `Err` and `Close` calls (`Close` does not wipe the verdict). -/
theorem wrapper_err_sticky (s : SState) (c : Nat) (h : (sstep s .err).1 = .err (some c)) (ops : List SOp) :
    (sstep (srun s ops).2 .err).1 = .err (some c) := by
  have hs : s.receiveErr = some (c, false) := by
    simp only [sstep] at h
    split at h
    · rename_i code heq; simp at h; subst h; exact heq
    · simp at h
  have := wrapper_failure_kept_run ops s c hs
  simp [sstep, this]

/-- once `Receive` has returned false it returns false for good, without touching the conn -/
theorem wrapper_receive_false_sticky (s : SState) (h : s.receiveErr.isSome = true) :
    (sstep s .receive).1 = .recv none ∧ (sstep s .receive).2 = s := by
  cases hr : s.receiveErr with
  | none => simp [hr] at h
  | some e => simp [sstep, hr]

/-! ### observed traces of synchronisation points -/

theorem drun_append (s : DState) (a b : List DAction) :
    drun s (a ++ b) = (drun s a).bind fun s' => drun s' b := by
  induction a generalizing s with
  | nil => simp [drun]
  | cons x rest ih =>
    simp only [List.cons_append, drun]
    cases dstep s x with
    | none => simp
    | some s1 => simp [ih]

/-- a trace replay is a run of the transition system -/
theorem traceRun_eq_drun (evs : List Ev) (s : DState) :
    traceRun s evs = drun s (evs.flatMap Ev.actions) := by
  induction evs generalizing s with
  | nil => simp [traceRun, drun]
  | cons e rest ih =>
    simp only [traceRun, List.flatMap_cons, drun_append]
    cases drun s e.actions with
    | none => simp
    | some s1 => simp [ih]

/-- **trace_accepted_inv**: every state reached by an accepted trace satisfies the hand-over
    invariant (no read of `d.response` before `responseReady` is closed). -/
theorem trace_accepted_inv (evs : List Ev) (s : DState) (h : traceRun DState.init evs = some s) : DInv s := by
  rw [traceRun_eq_drun] at h
  exact response_read_only_after_ready _ _ _ DInv_init h

theorem dstep_requestDone (s s' : DState) (a : DAction) (h : dstep s a = some s') (hne : a ≠ .closeReady) :
    s'.requestDone = s.requestDone := by
  cases a with
  | ensureRequestMade => simp [dstep] at h; subst h; rfl
  | doReturns ok =>
    simp only [dstep] at h
    split at h
    · cases ok <;> simp at h <;> subst h <;> rfl
    · cases h
  | validate ok =>
    simp only [dstep] at h
    split at h
    · cases ok <;> simp at h <;> subst h <;> rfl
    · cases h
  | closeReady => exact absurd rfl hne
  | apiBlock => simp [dstep] at h; subst h; rfl
  | apiProceed =>
    simp only [dstep] at h
    split at h
    · simp at h; subst h; rfl
    · cases h
  | setError c => simp [dstep] at h; subst h; rfl

theorem drun_requestDone : ∀ (acts : List DAction) (s s' : DState), drun s acts = some s' →
    DAction.closeReady ∉ acts → s'.requestDone = s.requestDone
  | [], s, s', h, _ => by simp [drun] at h; subst h; rfl
  | a :: rest, s, s', h, hn => by
    simp only [drun] at h
    cases hs : dstep s a with
    | none => rw [hs] at h; simp at h
    | some s1 =>
      rw [hs] at h
      simp only [Option.bind_some] at h
      rw [drun_requestDone rest s1 s' h (fun hm => hn (List.mem_cons_of_mem _ hm)),
        dstep_requestDone s s1 a hs (fun e => hn (e ▸ List.mem_cons_self))]

/-- `requestDone` is only ever set by the `request.closeready` point -/
theorem requestDone_needs_closeReady (e : Ev) (s s' : DState) (h : drun s e.actions = some s')
    (hne : e ≠ .requestCloseReady) : s'.requestDone = s.requestDone := by
  apply drun_requestDone _ _ _ h
  cases e <;> simp [Ev.actions] <;> exact absurd rfl hne

/-- **accepted_use_after_ready**: in an accepted trace every point at which the API goroutine
    uses the response (`read.ready`, `read.body`, `read.done`, `closeread`) comes after the
    `request.closeready` point of the request goroutine. -/
theorem accepted_use_after_ready : ∀ (pre : List Ev) (e : Ev) (post : List Ev) (s0 s : DState),
    s0.requestDone = false → traceRun s0 (pre ++ e :: post) = some s → e.isResponseUse = true →
    Ev.requestCloseReady ∈ pre
  | [], e, post, s0, s, h0, h, hu => by
    simp only [List.nil_append, traceRun] at h
    cases e <;> simp [Ev.isResponseUse] at hu <;>
      simp [Ev.actions, drun, dstep, h0] at h
  | p :: pre, e, post, s0, s, h0, h, hu => by
    by_cases hp : p = .requestCloseReady
    · subst hp; exact List.mem_cons_self
    · simp only [List.cons_append, traceRun] at h
      cases hs : drun s0 p.actions with
      | none => rw [hs] at h; simp at h
      | some s1 =>
        rw [hs] at h
        simp only [Option.bind_some] at h
        have h1 : s1.requestDone = false := by rw [requestDone_needs_closeReady p s0 s1 hs hp]; exact h0
        exact List.mem_cons_of_mem _ (accepted_use_after_ready pre e post s1 s h1 h hu)

theorem dstep_requestDone_mono (s s' : DState) (a : DAction) (h : dstep s a = some s') (hd : s.requestDone = true) :
    s'.requestDone = true := by
  by_cases ha : a = .closeReady
  · subst ha; simp [dstep, hd] at h
  · rw [dstep_requestDone s s' a h ha]; exact hd

theorem drun_requestDone_mono : ∀ (acts : List DAction) (s s' : DState), drun s acts = some s' →
    s.requestDone = true → s'.requestDone = true
  | [], s, s', h, hd => by simp [drun] at h; subst h; exact hd
  | a :: rest, s, s', h, hd => by
    simp only [drun] at h
    cases hs : dstep s a with
    | none => rw [hs] at h; simp at h
    | some s1 =>
      rw [hs] at h
      simp only [Option.bind_some] at h
      exact drun_requestDone_mono rest s1 s' h (dstep_requestDone_mono s s1 a hs hd)

theorem traceRun_requestDone_mono : ∀ (evs : List Ev) (s s' : DState), traceRun s evs = some s' →
    s.requestDone = true → s'.requestDone = true
  | [], s, s', h, hd => by simp [traceRun] at h; subst h; exact hd
  | e :: rest, s, s', h, hd => by
    simp only [traceRun] at h
    cases hs : drun s e.actions with
    | none => rw [hs] at h; simp at h
    | some s1 =>
      rw [hs] at h
      simp only [Option.bind_some] at h
      exact traceRun_requestDone_mono rest s1 s' h (drun_requestDone_mono _ s s1 hs hd)

theorem traceRun_append (a b : List Ev) (s : DState) :
    traceRun s (a ++ b) = (traceRun s a).bind fun s' => traceRun s' b := by
  induction a generalizing s with
  | nil => simp [traceRun]
  | cons e rest ih =>
    simp only [List.cons_append, traceRun]
    cases drun s e.actions with
    | none => simp
    | some s1 => simp [ih]

/-- **accepted_ready_once**: an accepted trace passes `request.closeready` at most once
    (closing a closed channel panics). -/
theorem accepted_ready_once (a b c : List Ev) (s0 s : DState) :
    traceRun s0 (a ++ Ev.requestCloseReady :: (b ++ Ev.requestCloseReady :: c)) ≠ some s := by
  intro h
  rw [traceRun_append] at h
  cases ha : traceRun s0 a with
  | none => rw [ha] at h; simp at h
  | some s1 =>
    rw [ha] at h
    simp only [Option.bind_some, traceRun] at h
    cases h1 : drun s1 Ev.requestCloseReady.actions with
    | none => rw [h1] at h; simp at h
    | some s2 =>
      rw [h1] at h
      simp only [Option.bind_some] at h
      have hd2 : s2.requestDone = true := by
        simp only [Ev.actions, drun, dstep] at h1
        split at h1
        · simp at h1; subst h1; rfl
        · simp at h1
      rw [traceRun_append] at h
      cases hb : traceRun s2 b with
      | none => rw [hb] at h; simp at h
      | some s3 =>
        rw [hb] at h
        have hd3 := traceRun_requestDone_mono b s2 s3 hb hd2
        simp [traceRun, Ev.actions, drun, dstep, hd3] at h

/-! non-vacuity: a real trace shape (unary call) is accepted; one with the response used before
    the hand-over is not -/
example : (traceRun DState.init [.writeCtx, .requestDo, .writePipe, .writeDone, .closeWrite, .requestDone,
    .requestCloseReady, .readReady, .readBody, .readDone, .closeRead]).isSome = true := by decide
example : traceRun DState.init [.writeCtx, .requestDo, .closeRead, .requestDone, .requestCloseReady] = none := by decide

/-- **trailers_only_failure_not_sticky_on_pinned** (history, F42): for a response with
    `Grpc-Status` among its headers the pinned `Receive` did not record a failure: message,
    undecodable message, message was delivered as message, failure, *message*. On the repaired
    tree such a response is a list of items like any other and `receive_error_sticky` covers it. -/
theorem trailers_only_failure_not_sticky_on_pinned :
    receiveManyTrailersOnlyPinned 3 { stored := none, items := [.ok [1], .bad codeInvalidArgument, .ok [2]] } =
      [.msg [1], .fail codeInvalidArgument, .msg [2]] ∧
    receiveMany 3 { stored := none, items := [.ok [1], .bad codeInvalidArgument, .ok [2]] } =
      [.msg [1], .fail codeInvalidArgument, .fail codeInvalidArgument] := by
  constructor <;> rfl

end ConnectModel.C14
