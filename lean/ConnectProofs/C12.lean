/-
  C12 — Requests are dispatched by method, HTTP version and Content-Type as advertised.
-/
import ConnectModel.Dispatch
import ConnectModel.Recover

namespace ConnectModel.C12
open ConnectModel

/-! ### the guards, as a decision table -/

/-- **guard_505**: bidi handlers answer HTTP/1.x with 505 before anything else. -/
theorem guard_505 (cfg : HandlerCfg) (major : Nat) (method ct : Bytes)
    (h : cfg.kind = .bidi ∧ major < 2) : dispatch cfg major method ct = .httpVersionNotSupported := by
  simp [dispatch, h]

/-- **guard_405**: otherwise non-POST requests get 405 (with `Allow: POST`). -/
theorem guard_405 (cfg : HandlerCfg) (major : Nat) (method ct : Bytes)
    (h : ¬ (cfg.kind = .bidi ∧ major < 2)) (hm : method ≠ methodPost) :
    dispatch cfg major method ct = .methodNotAllowed := by
  simp [dispatch, h, hm]

/-- **guard_415**: otherwise a Content-Type no protocol handler serves gets 415 with the
    advertised list. -/
theorem guard_415 (cfg : HandlerCfg) (major : Nat) (ct : Bytes)
    (h : ¬ (cfg.kind = .bidi ∧ major < 2)) (hs : selectProtocol (protocolHandlers cfg) ct = none) :
    dispatch cfg major methodPost ct = .unsupportedMediaType (acceptPost cfg) := by
  simp [dispatch, h, hs]

/-- the three rejections are the only ways not to reach a protocol handler -/
theorem serve_iff (cfg : HandlerCfg) (major : Nat) (method ct : Bytes) :
    (∃ p c, dispatch cfg major method ct = .serve p c) ↔
      ¬ (cfg.kind = .bidi ∧ major < 2) ∧ method = methodPost ∧
        (selectProtocol (protocolHandlers cfg) ct).isSome := by
  unfold dispatch
  by_cases h1 : cfg.kind = .bidi ∧ major < 2
  · simp [h1]
  · by_cases h2 : method = methodPost
    · cases hs : selectProtocol (protocolHandlers cfg) ct <;> simp [h1, h2, hs]
    · simp [h1, h2]

/-! ### advertised = accepted -/

theorem selectProtocol_isSome (hs : List (Proto × List Bytes)) (ct : Bytes) :
    (selectProtocol hs ct).isSome ↔ ct ∈ hs.flatMap (·.2) := by
  induction hs with
  | nil => simp [selectProtocol]
  | cons h t ih =>
    obtain ⟨p, types⟩ := h
    simp only [selectProtocol, List.flatMap_cons, List.mem_append]
    by_cases hm : ct ∈ types
    · simp [hm]
    · simp [hm, ih]

theorem mem_insertSorted (x z : Bytes) (l : List Bytes) : z ∈ insertSorted x l ↔ z = x ∨ z ∈ l := by
  induction l with
  | nil => simp [insertSorted]
  | cons y ys ih =>
    simp only [insertSorted]
    split
    · rename_i h; subst h; simp
    · split
      · simp
      · simp [ih]; constructor <;> (intro h; rcases h with h | h | h <;> simp_all)

theorem mem_foldr_insertSorted (z : Bytes) (l : List Bytes) : z ∈ l.foldr insertSorted [] ↔ z ∈ l := by
  induction l with
  | nil => simp
  | cons x xs ih => simp [mem_insertSorted, ih]

/-- **advertised_eq_accepted**: the `Accept-Post` header lists exactly the content types the
    handler accepts. -/
theorem advertised_eq_accepted (cfg : HandlerCfg) (ct : Bytes) :
    (selectProtocol (protocolHandlers cfg) ct).isSome ↔ ct ∈ acceptPost cfg := by
  rw [selectProtocol_isSome, acceptPost, mem_foldr_insertSorted]

/-- **advertised_characterised**: and that set is the three protocols' prefixes crossed with the
    registered codec names, plus the bare gRPC types when a proto codec is registered
    (restricted to the enabled protocols). -/
theorem advertised_characterised (cfg : HandlerCfg) (ct : Bytes) :
    ct ∈ acceptPost cfg ↔
      ct ∈ connectTypes cfg ∨ (cfg.handleGRPC = true ∧ ct ∈ grpcTypes false cfg) ∨
        (cfg.handleGRPCWeb = true ∧ ct ∈ grpcTypes true cfg) := by
  rw [acceptPost, mem_foldr_insertSorted]
  unfold protocolHandlers
  cases cfg.handleGRPC <;> cases cfg.handleGRPCWeb <;> simp

/-! ### the codec lookup never comes back nil -/

theorem trimPrefix_append (p n : Bytes) : trimPrefix p (p ++ n) = n := by
  simp [trimPrefix, List.isPrefixOf_iff_prefix]

theorem selectProtocol_mem (hs : List (Proto × List Bytes)) (ct : Bytes) (p : Proto)
    (h : selectProtocol hs ct = some p) : ∃ types, (p, types) ∈ hs ∧ ct ∈ types := by
  induction hs with
  | nil => simp [selectProtocol] at h
  | cons x t ih =>
    obtain ⟨q, types⟩ := x
    simp only [selectProtocol] at h
    split at h
    · cases h; exact ⟨types, by simp, by assumption⟩
    · obtain ⟨ty, hm, hc⟩ := ih h; exact ⟨ty, List.mem_cons_of_mem _ hm, hc⟩

theorem bare_ne_prefixed :
    (∀ n : Bytes, Gen.grpcContentTypePrefix ++ n ≠ Gen.grpcContentTypeDefault) ∧
    (∀ n : Bytes, Gen.grpcWebContentTypePrefix ++ n ≠ Gen.grpcWebContentTypeDefault) := by
  constructor <;> intro n h <;> have := congrArg List.length h <;>
    simp [Gen.grpcContentTypePrefix, Gen.grpcContentTypeDefault, Gen.grpcWebContentTypePrefix, Gen.grpcWebContentTypeDefault] at this <;> omega

theorem grpc_codec_defined (web : Bool) (cfg : HandlerCfg) (ct : Bytes) (h : ct ∈ grpcTypes web cfg) :
    codecNameFor cfg (if web then .grpcWeb else .grpc) ct ∈ cfg.codecs := by
  simp only [grpcTypes, List.mem_append, List.mem_map] at h
  cases web with
  | false =>
    simp only [Bool.false_eq_true, if_false] at h ⊢
    simp only [codecNameFor]
    rcases h with ⟨n, hn, rfl⟩ | h
    · have := bare_ne_prefixed.1 n
      simp only [this, if_false, trimPrefix_append]; exact hn
    · split at h
      · simp at h; subst h; simp; assumption
      · simp at h
  | true =>
    simp only [if_true] at h ⊢
    simp only [codecNameFor]
    rcases h with ⟨n, hn, rfl⟩ | h
    · have := bare_ne_prefixed.2 n
      simp only [this, if_false, trimPrefix_append]; exact hn
    · split at h
      · simp at h; subst h; simp; assumption
      · simp at h

/-- **codec_lookup_defined**: whenever a protocol handler is selected, the codec it looks up
    from the Content-Type is a registered one ("handler.go guarantees this is not nil"). -/
theorem codec_lookup_defined (cfg : HandlerCfg) (major : Nat) (method ct : Bytes) (p : Proto) (c : Bytes)
    (h : dispatch cfg major method ct = .serve p c) : c ∈ cfg.codecs := by
  unfold dispatch at h
  split at h
  · cases h
  · split at h
    · cases h
    · split at h
      · cases h
      · rename_i p' hs
        cases h
        obtain ⟨types, hmem, hct⟩ := selectProtocol_mem _ _ _ hs
        unfold protocolHandlers at hmem
        simp only [List.mem_append, List.mem_singleton, Prod.mk.injEq] at hmem
        rcases hmem with (⟨rfl, rfl⟩ | hmem) | hmem
        · simp only [connectTypes, List.mem_map] at hct
          obtain ⟨n, hn, rfl⟩ := hct
          simp only [codecNameFor, trimPrefix_append]; exact hn
        · split at hmem
          · simp at hmem; obtain ⟨rfl, rfl⟩ := hmem
            exact grpc_codec_defined false cfg ct hct
          · simp at hmem
        · split at hmem
          · simp at hmem; obtain ⟨rfl, rfl⟩ := hmem
            exact grpc_codec_defined true cfg ct hct
          · simp at hmem

/-! ### client and handler agree on the procedure -/

def noSlash (s : Bytes) : Prop := ∀ c ∈ s, c.toNat ≠ 47

theorem splitSlash_noSlash (s : Bytes) (h : noSlash s) : splitSlash s = [s] := by
  induction s with
  | nil => rfl
  | cons c cs ih =>
    have hc : c.toNat ≠ 47 := h c (by simp)
    have := ih (fun x hx => h x (List.mem_cons_of_mem _ hx))
    simp [splitSlash, hc, this]

theorem splitSlash_two (svc m : Bytes) (hs : noSlash svc) (hm : noSlash m) :
    splitSlash (svc ++ 47 :: m) = [svc, m] := by
  induction svc with
  | nil => simp [splitSlash, splitSlash_noSlash m hm]
  | cons c cs ih =>
    have hc : c.toNat ≠ 47 := hs c (by simp)
    have := ih (fun x hx => hs x (List.mem_cons_of_mem _ hx))
    simp [splitSlash, hc, this]

theorem splitSlash_suffix (base svc m : Bytes) (hs : noSlash svc) (hm : noSlash m) :
    ∃ pre, splitSlash (base ++ 47 :: (svc ++ 47 :: m)) = pre ++ [svc, m] ∧ pre ≠ [] := by
  induction base with
  | nil =>
    refine ⟨[[]], ?_, by simp⟩
    simp [splitSlash, splitSlash_two svc m hs hm]
  | cons c cs ih =>
    obtain ⟨pre, hpre, hne⟩ := ih
    simp only [List.cons_append, splitSlash]
    by_cases hc : c.toNat = 47
    · exact ⟨[] :: pre, by simp [hc, hpre], by simp⟩
    · simp only [hc, if_false, hpre]
      cases pre with
      | nil => exact absurd rfl hne
      | cons p ps => exact ⟨(c :: p) :: ps, by simp, by simp⟩

theorem lastTwo_cons (x : Bytes) (l : List Bytes) (h : 2 ≤ l.length) : lastTwo (x :: l) = lastTwo l := by
  match l, h with
  | [a, b], _ => rfl
  | a :: b :: c :: r, _ => rfl

theorem lastTwo_append (pre : List Bytes) (a b : Bytes) : lastTwo (pre ++ [a, b]) = (a, b) := by
  induction pre with
  | nil => rfl
  | cons x xs ih =>
    rw [List.cons_append, lastTwo_cons _ _ (by simp), ih]

/-- **procedure_agrees**: for any base URL (path prefixes, trailing slashes, anything), the
    procedure the client derives from `base + "/" + service + "/" + method` is
    `"/" + service + "/" + method` — the same string the generated handler passes, on which
    `extractProtoPath` is the identity. -/
theorem procedure_agrees (base svc m : Bytes) (hs : noSlash svc) (hm : noSlash m)
    (hsne : svc ≠ []) (hmne : m ≠ []) :
    extractProtoPath (base ++ 47 :: (svc ++ 47 :: m)) = 47 :: (svc ++ 47 :: m) ∧
    extractProtoPath (47 :: (svc ++ 47 :: m)) = 47 :: (svc ++ 47 :: m) := by
  have key : ∀ b, extractProtoPath (b ++ 47 :: (svc ++ 47 :: m)) = 47 :: (svc ++ 47 :: m) := by
    intro b
    obtain ⟨pre, hpre, _⟩ := splitSlash_suffix b svc m hs hm
    simp [extractProtoPath, hpre, lastTwo_append, hsne, hmne, slash]
  exact ⟨key base, by simpa using key []⟩

/-! ### a Connect call is served as a Connect call -/

/-- **connect_first**: whatever the codec names are - including names that make a Connect
    content type coincide with one of gRPC or gRPC-Web ("grpc", "grpc-web+proto", ...) - a POST whose
    Content-Type is the Connect type of a registered codec `n` is handed to the Connect protocol
    handler with codec `n`: the call the client made runs, once, as the call it made. -/
theorem connect_first (cfg : HandlerCfg) (major : Nat) (n : Bytes) (hn : n ∈ cfg.codecs)
    (hv : ¬ (cfg.kind = .bidi ∧ major < 2)) :
    dispatch cfg major methodPost
      ((if cfg.kind = .unary then Gen.connectUnaryContentTypePrefix else Gen.connectStreamingContentTypePrefix) ++ n)
      = .serve .connect n := by
  have hmem : ((if cfg.kind = .unary then Gen.connectUnaryContentTypePrefix else Gen.connectStreamingContentTypePrefix) ++ n)
      ∈ connectTypes cfg := by
    simp only [connectTypes, List.mem_map]
    exact ⟨n, hn, rfl⟩
  have hsel : selectProtocol (protocolHandlers cfg)
      ((if cfg.kind = .unary then Gen.connectUnaryContentTypePrefix else Gen.connectStreamingContentTypePrefix) ++ n)
      = some .connect := by
    simp [protocolHandlers, selectProtocol, hmem]
  simp only [dispatch, hv, if_false, hsel, ne_eq, not_true_eq_false]
  simp [codecNameFor, trimPrefix_append]

/-- **first_match_loop** (fact regenerated from the source on every run): the loop over
    `h.protocolHandlers` in `ServeHTTP` leaves with `break` at the first handler that serves the
    Content-Type - the shape `selectProtocol` has. -/
theorem first_match_loop : Gen.serveHTTPFirstMatch = 1 := by decide

/-- **selectProtocol_first**: the selection is the *first* protocol handler that serves the type. -/
theorem selectProtocol_first (pre post : List (Proto × List Bytes)) (p : Proto) (types : List Bytes) (ct : Bytes)
    (hpre : ∀ q ∈ pre, ct ∉ q.2) (hct : ct ∈ types) :
    selectProtocol (pre ++ (p, types) :: post) ct = some p := by
  induction pre with
  | nil => simp [selectProtocol, hct]
  | cons x t ih =>
    obtain ⟨q, ty⟩ := x
    have hx : ct ∉ ty := hpre (q, ty) (by simp)
    simp only [List.cons_append, selectProtocol, hx, if_false]
    exact ih (fun r hr => hpre r (List.mem_cons_of_mem _ hr))

/-! non-vacuity -/
-- a codec named "grpc" on a unary handler: "application/grpc" is served by Connect with that codec
example : dispatch { kind := .unary, codecs := [Gen.codecNameProto, [103, 114, 112, 99]], handleGRPC := true, handleGRPCWeb := true } 2
    methodPost Gen.grpcContentTypeDefault = .serve .connect [103, 114, 112, 99] := by decide
example : dispatch { kind := .bidi, codecs := [Gen.codecNameProto], handleGRPC := true, handleGRPCWeb := true } 1
    methodPost Gen.grpcContentTypeDefault = .httpVersionNotSupported := by decide
example : dispatch { kind := .unary, codecs := [Gen.codecNameProto, Gen.codecNameJSON], handleGRPC := true, handleGRPCWeb := false } 1
    methodPost Gen.grpcContentTypeDefault = .serve .grpc Gen.codecNameProto := by decide
example : extractProtoPath [104, 47, 47, 120, 47, 97, 46, 66, 47, 67] = [47, 97, 46, 66, 47, 67] := by decide

/-! ### the recovery function is user code too (fix F21) -/

/-- **recover_sees_the_call**: whatever the RPC kind, the function installed with `WithRecover`
    is handed the Spec the handler was built with and the request's headers. -/
theorem recover_sees_the_call (call : CallInfo) :
    handleArgsUnary call = call ∧ handleArgsStreaming call = call := ⟨rfl, rfl⟩

/-- **History, F21**: the streaming wrapper used to pass an empty Spec and no headers -/
theorem recover_saw_nothing_on_pinned (call : CallInfo) (h : call.procedure ≠ []) :
    handleArgsStreamingPinned call ≠ call := by
  intro heq
  have := congrArg CallInfo.procedure heq
  simp [handleArgsStreamingPinned] at this
  exact h (by simpa using this.symm)

end ConnectModel.C12
