/-
  C05 — Bytes on the wire conform to the Connect, gRPC and gRPC-Web protocols:
  the structural clauses, as theorems about what `serve` produces for *every* handler program.
  (Decodability by an independent implementation is the correspondence harness' job: its own
  reference parsers canonicalise the real bytes into the structure these theorems speak about.)
-/
import ConnectModel.Proto
import ConnectProofs.Lemmas.Header
import ConnectProofs.C02

namespace ConnectModel.C05
open ConnectModel

/-- user-set header maps do not touch the protocol's own keys -/
def Unreserved (h : Header) : Prop :=
  ∀ k ∈ [Gen.hdrContentType, Gen.hdrGrpcStatus, Gen.hdrGrpcMessage, Gen.hdrGrpcDetails, Gen.hdrGrpcEncoding,
         Gen.hdrGrpcAcceptEncoding, Gen.hdrConnectStreamEncoding, Gen.hdrConnectStreamAcceptEncoding,
         Gen.hdrConnectUnaryEncoding, Gen.hdrConnectUnaryAcceptEncoding], h.vals k = []

/-- **grpc_status_200**: gRPC and gRPC-Web responses are always HTTP 200. -/
theorem grpc_status_200 (enc : WireErr → Bytes) (web : Bool) (c : HConn) (p : HProg) :
    (serveGrpc enc web c p).status = 200 := by
  simp only [serveGrpc]
  cases web with
  | false => simp
  | true => by_cases h : p.sends = [] <;> simp [h]

/-- the trailers `grpcErrorToTrailer` builds carry exactly one grpc-status value -/
theorem grpcTrailers_one_status (enc : WireErr → Bytes) (userTrailer : Header) (result : Option GoErr) :
    ((grpcTrailers enc userTrailer result).vals Gen.hdrGrpcStatus).length = 1 := by
  obtain ⟨d1, d2, _⟩ := C02.hdr_keys_distinct
  cases result with
  | none =>
    simp only [grpcTrailers]
    rw [Header.vals_set_ne _ _ _ _ d1]
    simp [Header.set, Header.vals_put]
  | some e =>
    simp only [grpcTrailers]
    rw [Header.vals_set_ne _ _ _ _ d2, Header.vals_set_ne _ _ _ _ d1]
    simp [Header.set, Header.vals_put]

def itemStatusCount : BodyItem → Nat
  | .webTrailer b => (b.vals Gen.hdrGrpcStatus).length
  | _ => 0

theorem msgFrame_count (c : HConn) (m : Bytes) : itemStatusCount (msgFrame c m) = 0 := by
  unfold msgFrame
  split
  · rfl
  · split <;> rfl

theorem frames_count (c : HConn) (ms : List Bytes) : ((ms.map (msgFrame c)).map itemStatusCount).sum = 0 := by
  induction ms with
  | nil => rfl
  | cons m rest ih => simp only [List.map_cons, List.sum_cons, msgFrame_count, ih]

theorem sanitizeBlock_vals_length (h : Header) (k : Bytes) :
    ((sanitizeBlock h).vals k).length = (h.vals k).length := by
  induction h with
  | nil => rfl
  | cons p rest ih =>
    obtain ⟨k', vs⟩ := p
    simp only [sanitizeBlock, List.map_cons, Header.vals]
    split
    · simp
    · exact ih

theorem grpcTrailers_wf (enc : WireErr → Bytes) (userTrailer : Header) (result : Option GoErr) :
    (grpcTrailers enc userTrailer result).wf := by
  cases result with
  | none =>
    simp only [grpcTrailers]
    exact Header.set_wf _ _ _ (Header.set_wf _ _ _ (mergeHeaders_wf _ _ Header.nil_wf))
  | some e =>
    simp only [grpcTrailers]
    exact Header.set_wf _ _ _ (Header.set_wf _ _ _ (Header.set_wf _ _ _ (mergeHeaders_wf _ _ (mergeHeaders_wf _ _ Header.nil_wf))))

/-- **exactly_one_grpc_status**: counting grpc-status values in the HTTP headers, the HTTP
    trailers and gRPC-Web trailer frames of a response, there is exactly one — in the HTTP
    trailers for gRPC; for gRPC-Web in the final frame, or in the headers if nothing was sent. -/
theorem exactly_one_grpc_status (enc : WireErr → Bytes) (web : Bool) (c : HConn) (p : HProg)
    (hH : Unreserved p.header) (hHw : p.header.wf) :
    let r := serveGrpc enc web c p
    ((r.header.vals Gen.hdrGrpcStatus).length +
      (r.trailer.vals Gen.hdrGrpcStatus).length + (r.body.map itemStatusCount).sum = 1) ∧
    (web = false → (r.trailer.vals Gen.hdrGrpcStatus).length = 1) := by
  have hone := grpcTrailers_one_status enc p.trailer p.result
  have hH0 : p.header.vals Gen.hdrGrpcStatus = [] := hH _ (by simp)
  have hh1 : ∀ (h0 : Header), h0.vals Gen.hdrGrpcStatus = [] →
      ((mergeHeaders h0 p.header).vals Gen.hdrGrpcStatus) = [] := by
    intro h0 hh0; rw [vals_mergeHeaders _ _ hHw, hh0, hH0]; rfl
  have hbase : Header.vals ([(Gen.hdrContentType, [c.contentType]), (Gen.hdrGrpcAcceptEncoding, [c.names])] ++
      (if c.respCompression = Gen.compressionIdentity then [] else [(Gen.hdrGrpcEncoding, [c.respCompression])]))
      Gen.hdrGrpcStatus = [] := by
    have k1 : Gen.hdrGrpcStatus ≠ Gen.hdrContentType := by decide
    have k2 : Gen.hdrGrpcStatus ≠ Gen.hdrGrpcAcceptEncoding := by decide
    have k3 : Gen.hdrGrpcStatus ≠ Gen.hdrGrpcEncoding := by decide
    split <;> simp [Header.vals, k1, k2, k3]
  simp only [serveGrpc]
  cases web with
  | false =>
    simp only [Bool.false_eq_true, if_false, frames_count, hone, hh1 _ hbase, List.length_nil]
    exact ⟨trivial, fun _ => trivial⟩
  | true =>
    simp only [if_true]
    by_cases hs : p.sends = []
    · simp only [hs, if_true, vals_mergeHeaders _ _ (grpcTrailers_wf enc p.trailer p.result), hh1 _ hbase,
        List.nil_append, hone, Header.vals, List.map_nil, List.sum_nil, List.length_nil]
      exact ⟨rfl, fun h => by cases h⟩
    · simp only [hs, if_false, hh1 _ hbase, List.map_append, List.sum_append, frames_count, List.map_cons, List.map_nil,
        List.sum_cons, List.sum_nil, itemStatusCount, sanitizeBlock_vals_length, hone, Header.vals, List.length_nil]
      exact ⟨rfl, fun h => by cases h⟩

def isEndStream : BodyItem → Bool
  | .endStream _ _ => true
  | _ => false

theorem msgFrame_not_end (c : HConn) (m : Bytes) : isEndStream (msgFrame c m) = false := by
  unfold msgFrame
  split
  · rfl
  · split <;> rfl

/-- **connect_stream_one_endstream**: a Connect stream is HTTP 200 and ends with exactly one
    end-of-stream envelope, and it is the last item. -/
theorem connect_stream_one_endstream (c : HConn) (p : HProg) :
    (serveConnectStream c p).status = 200 ∧
    ((serveConnectStream c p).body.filter isEndStream).length = 1 ∧
    ((serveConnectStream c p).body.getLast?.map isEndStream) = some true := by
  refine ⟨rfl, ?_, ?_⟩
  · simp only [serveConnectStream, List.filter_append]
    have : (p.sends.map (msgFrame c)).filter isEndStream = [] := by
      rw [List.filter_eq_nil_iff]; intro x hx
      simp only [List.mem_map] at hx
      obtain ⟨m, _, rfl⟩ := hx
      simp [msgFrame_not_end]
    rw [this]
    cases p.result <;> simp [List.filter, isEndStream]
  · simp only [serveConnectStream]
    cases p.result <;> simp [isEndStream]

/-- **connect_unary_error_json_status**: a unary Connect error is a JSON body under the code's
    HTTP status (never 2xx), with Content-Type application/json. -/
theorem connect_unary_error_json_status (c : HConn) (p : HProg) (e : GoErr) (hr : p.result = some e) :
    400 ≤ (serveConnectUnary c p).status ∧ (serveConnectUnary c p).status ≤ 599 ∧
    (serveConnectUnary c p).header.get Gen.hdrContentType = applicationJSON ∧
    ∃ w, (serveConnectUnary c p).body = [.errorJSON w] := by
  obtain ⟨_, h1, h2, h3⟩ := C02.unary_connect_status c p e hr
  refine ⟨h1, h2, ?_, _, h3⟩
  simp only [serveConnectUnary, hr]
  exact Header.get_set _ _ _

/-- **content_type_echo**: the response Content-Type echoes the request's (streaming Connect,
    gRPC, gRPC-Web, and successful unary Connect). -/
theorem content_type_echo_stream (c : HConn) (p : HProg) (hH : Unreserved p.header) (hw : p.header.wf) :
    (serveConnectStream c p).header.get Gen.hdrContentType = c.contentType := by
  simp only [serveConnectStream, Header.get]
  rw [vals_mergeHeaders _ _ hw, hH _ (by simp)]
  simp [Header.vals]

theorem content_type_echo_grpc (enc : WireErr → Bytes) (c : HConn) (p : HProg) (hH : Unreserved p.header)
    (hw : p.header.wf) : (serveGrpc enc false c p).header.get Gen.hdrContentType = c.contentType := by
  simp only [serveGrpc, Bool.false_eq_true, if_false, Header.get]
  rw [vals_mergeHeaders _ _ hw, hH _ (by simp)]
  simp [Header.vals]

/-- what `NewConn` guarantees about the connection record -/
def ConnWF (c : HConn) : Prop := c.pool.isSome → c.respCompression ≠ Gen.compressionIdentity

def isCompressedFrame : BodyItem → Bool
  | .frame fl _ => fl.toNat % 2 = 1
  | _ => false

/-- **compressed_flag_implies_encoding_header**: a message frame is flagged compressed only if
    the response's encoding header names an algorithm (gRPC / gRPC-Web). -/
theorem compressed_flag_implies_encoding_header (enc : WireErr → Bytes) (web : Bool) (c : HConn) (p : HProg)
    (hc : ConnWF c) (hH : Unreserved p.header) (hw : p.header.wf)
    (hflag : ∃ it ∈ (serveGrpc enc web c p).body, isCompressedFrame it = true)
    (hsends : p.sends ≠ []) :
    (serveGrpc enc web c p).header.get Gen.hdrGrpcEncoding = c.respCompression ∧
    c.respCompression ≠ Gen.compressionIdentity := by
  -- some frame is compressed ⇒ a pool is configured
  have hpool : c.pool.isSome := by
    obtain ⟨it, hit, hcomp⟩ := hflag
    cases hnone : c.pool with
    | some z => rfl
    | none =>
    exfalso
    have hall : ∀ x ∈ p.sends.map (msgFrame c), isCompressedFrame x = false := by
      intro x hx
      simp only [List.mem_map] at hx
      obtain ⟨m, _, rfl⟩ := hx
      simp [msgFrame, hnone, isCompressedFrame]
    simp only [serveGrpc] at hit
    cases web with
    | false =>
      simp only [Bool.false_eq_true, if_false] at hit
      rw [hall it hit] at hcomp; cases hcomp
    | true =>
      simp only [if_true, hsends, if_false, List.mem_append, List.mem_singleton] at hit
      rcases hit with hit | hit
      · rw [hall it hit] at hcomp; cases hcomp
      · subst hit; simp [isCompressedFrame] at hcomp
  have hne := hc hpool
  refine ⟨?_, hne⟩
  simp only [serveGrpc]
  have hv : ((mergeHeaders ([(Gen.hdrContentType, [c.contentType]), (Gen.hdrGrpcAcceptEncoding, [c.names])] ++
      (if c.respCompression = Gen.compressionIdentity then [] else [(Gen.hdrGrpcEncoding, [c.respCompression])]))
      p.header).vals Gen.hdrGrpcEncoding) = [c.respCompression] := by
    rw [vals_mergeHeaders _ _ hw, hH _ (by simp)]
    simp only [hne, if_false]
    have k1 : Gen.hdrGrpcEncoding ≠ Gen.hdrContentType := by decide
    have k2 : Gen.hdrGrpcEncoding ≠ Gen.hdrGrpcAcceptEncoding := by decide
    simp [Header.vals, k1, k2]
  cases web with
  | false => simp only [Bool.false_eq_true, if_false, Header.get, hv]; rfl
  | true => simp only [if_true, hsends, if_false, Header.get, hv]; rfl

end ConnectModel.C05
