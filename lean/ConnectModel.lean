import ConnectModel.Basic
import ConnectModel.Gen.Tables
import ConnectModel.Code
import ConnectModel.Percent
import ConnectModel.Base64
import ConnectModel.Options
import ConnectModel.Recover
import ConnectModel.Timeout
