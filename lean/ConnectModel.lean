import ConnectModel.Basic
import ConnectModel.Gen.Tables
import ConnectModel.Code
import ConnectModel.Percent
import ConnectModel.Base64
