package main

import "io"

func ioEOF() error { return io.EOF }
