package main

import (
	"context"
	"fmt"
	"math/big"
	"net/http"
	"net/http/httptest"
	"strconv"
	"strings"
	"time"

	connect "github.com/bufbuild/connect-go"
	"google.golang.org/protobuf/proto"
	"google.golang.org/protobuf/types/known/emptypb"
)

// S-tmo (C10): timeout encode/parse.
//   gtmo.enc D          grpcEncodeTimeout (pinned internal via hook)        -> ok HEX | none
//   gtmo.parse HEX      grpcParseTimeout                                   -> ok NANOS | none | invalid
//   gtmo.serve HEX      real handler, Grpc-Timeout header                   -> ran none|deadline | rejected CODE norun|ran
//   ctmo.serve HEX      real handler, Connect-Timeout-Ms header             -> ran none | ran NANOS | rejected CODE norun|ran
//   ctmo.enc LO HI HDR  real client with a deadline LO..HI ns away sent HDR -> ok   (model: consistent? ok|bad)

func init() { register("timeout", "C10", streamTimeout) }

var grpcUnits = map[byte]int64{'n': 1, 'u': 1000, 'm': 1000000, 'S': 1000000000, 'M': 60000000000, 'H': 3600000000000}

func isDigits(s string) bool {
	if s == "" {
		return false
	}
	for i := 0; i < len(s); i++ {
		if s[i] < '0' || s[i] > '9' {
			return false
		}
	}
	return true
}

// grammatical gRPC timeout: 1..8 digits + unit. Returns exact nanoseconds as big.Int.
func grpcGrammatical(s string) (*big.Int, bool) {
	if len(s) < 2 || len(s) > 9 {
		return nil, false
	}
	unit, ok := grpcUnits[s[len(s)-1]]
	if !ok || !isDigits(s[:len(s)-1]) {
		return nil, false
	}
	n, _ := new(big.Int).SetString(s[:len(s)-1], 10)
	return n.Mul(n, big.NewInt(unit)), true
}

var maxDuration = big.NewInt(1<<63 - 1)

type tmoProbe struct {
	entered  time.Time
	ran      bool
	deadline time.Time
	has      bool
}

func serveWithTimeout(grpc bool, header string) (status int, code string, probe tmoProbe, t0, t1 time.Time) {
	p := &probe
	h := connect.NewClientStreamHandler("/s/m", func(ctx context.Context, stream *connect.ClientStream[emptypb.Empty]) (*connect.Response[emptypb.Empty], error) {
		p.entered = time.Now()
		p.ran = true
		p.deadline, p.has = ctx.Deadline()
		return connect.NewResponse(&emptypb.Empty{}), nil
	})
	req := httptest.NewRequest(http.MethodPost, "/s/m", strings.NewReader(""))
	req.ProtoMajor, req.ProtoMinor, req.Proto = 2, 0, "HTTP/2.0"
	if grpc {
		req.Header.Set("Content-Type", "application/grpc")
		req.Header["Grpc-Timeout"] = []string{header}
	} else {
		req.Header.Set("Content-Type", "application/connect+proto")
		req.Header["Connect-Timeout-Ms"] = []string{header}
	}
	rec := httptest.NewRecorder()
	t0 = time.Now()
	h.ServeHTTP(rec, req)
	t1 = time.Now()
	res := rec.Result()
	status = res.StatusCode
	if grpc {
		code = res.Trailer.Get("Grpc-Status")
		if code == "" {
			code = res.Header.Get("Grpc-Status")
		}
	} else {
		code = "0"
		body := rec.Body.Bytes()
		// Connect streaming: last envelope (flag 2) holds {"error":{"code":"..."}}
		for len(body) >= 5 {
			n := int(body[1])<<24 | int(body[2])<<16 | int(body[3])<<8 | int(body[4])
			if len(body) < 5+n {
				break
			}
			if body[0]&2 != 0 {
				payload := string(body[5 : 5+n])
				if i := strings.Index(payload, `"code":"`); i >= 0 {
					rest := payload[i+8:]
					code = rest[:strings.IndexByte(rest, '"')]
				}
			}
			body = body[5+n:]
		}
	}
	return
}

// serverBudgetProbes (oracle only): the server puts its own deadline on every request (a
// middleware's context.WithTimeout, http.Server.BaseContext). The handler's deadline is then
// the EARLIER of the two: a peer's timeout is honoured also when the server's budget is longer,
// and the server's budget is kept when the peer's timeout is longer or absent.
// lateSendProbes (F20): a streaming call is created under a deadline, and its request goes out
// later - with the first Send or CloseRequest. The timeout the peer is told must be the time
// remaining *then*: a header computed when the call was created extends the handler's deadline
// by however long the caller took. The answer is compared with the model as a verdict
// ("not-longer" / "longer"): the exact value depends on the clock.
//
//	tlate proto=P kind=client|bidi first=send|close dl=MS wait=MS -> not-longer | longer:...
func lateSendProbes(c *Ctx) {
	type seen struct {
		hdr       string
		has       bool
		remaining time.Duration
	}
	for _, proto := range []string{"connect", "grpc", "grpcweb"} {
		for _, kind := range []string{"client", "bidi"} {
			for _, first := range []string{"send", "close"} {
				for _, tc := range []struct{ dl, wait time.Duration }{{1500 * time.Millisecond, 400 * time.Millisecond}, {time.Hour, 300 * time.Millisecond}} {
					proto, kind, first, tc := proto, kind, first, tc
					op := fmt.Sprintf("tlate proto=%s kind=%s first=%s dl=%d wait=%d", proto, kind, first, tc.dl.Milliseconds(), tc.wait.Milliseconds())
					c.Begin(op)
					got := make(chan seen, 1)
					observe := func(ctx context.Context, h http.Header) {
						d, ok := ctx.Deadline()
						got <- seen{h.Get("Connect-Timeout-Ms") + h.Get("Grpc-Timeout"), ok, time.Until(d)}
					}
					var h http.Handler
					if kind == "client" {
						h = connect.NewClientStreamHandler("/s/m", func(ctx context.Context, s *connect.ClientStream[emptypb.Empty]) (*connect.Response[emptypb.Empty], error) {
							observe(ctx, s.RequestHeader())
							for s.Receive() {
							}
							return connect.NewResponse(&emptypb.Empty{}), nil
						})
					} else {
						h = connect.NewBidiStreamHandler("/s/m", func(ctx context.Context, s *connect.BidiStream[emptypb.Empty, emptypb.Empty]) error {
							observe(ctx, s.RequestHeader())
							for {
								if _, err := s.Receive(); err != nil {
									return nil
								}
							}
						})
					}
					ans := safely(func() string {
						srv := httptest.NewUnstartedServer(h)
						srv.EnableHTTP2 = true
						srv.StartTLS()
						defer srv.Close()
						cl := connect.NewClient[emptypb.Empty, emptypb.Empty](srv.Client(), srv.URL+"/s/m", protoOptsPB(proto)...)
						ctx, cancel := context.WithTimeout(context.Background(), tc.dl)
						defer cancel()
						var send func() error
						var closeReq func() error
						var finish func()
						if kind == "client" {
							st := cl.CallClientStream(ctx)
							send, closeReq = func() error { return st.Send(&emptypb.Empty{}) }, func() error { return nil }
							finish = func() { _, _ = st.CloseAndReceive() }
							if first == "close" {
								send = func() error { return nil }
							}
						} else {
							st := cl.CallBidiStream(ctx)
							send, closeReq = func() error { return st.Send(&emptypb.Empty{}) }, st.CloseRequest
							finish = func() { _ = st.CloseRequest(); _, _ = st.Receive(); _ = st.CloseResponse() }
							if first == "close" {
								send = func() error { return nil }
							}
						}
						time.Sleep(tc.wait)
						deadline, _ := ctx.Deadline()
						remainingAtSend := time.Until(deadline) // measured before the request can go out
						if err := send(); err != nil {
							return "send: " + err.Error()
						}
						if first == "close" {
							if err := closeReq(); err != nil {
								return "close: " + err.Error()
							}
						}
						var s seen
						if kind == "client" && first == "close" {
							// CloseAndReceive is what sends the request
							done := make(chan struct{})
							go func() { finish(); close(done) }()
							select {
							case s = <-got:
							case <-time.After(10 * time.Second):
								return "handler never ran"
							}
							<-done
						} else {
							select {
							case s = <-got:
							case <-time.After(10 * time.Second):
								return "handler never ran"
							}
							finish()
						}
						if !s.has || s.hdr == "" {
							return "no-deadline"
						}
						// the handler's remaining time, seen after the request travelled, can only be
						// smaller than what the client had left when it sent; 50 ms of slack for clocks
						if s.remaining > remainingAtSend+50*time.Millisecond {
							return fmt.Sprintf("longer: header %s, handler has %v left, the client had %v left when the request went out", s.hdr, s.remaining.Round(time.Millisecond), remainingAtSend.Round(time.Millisecond))
						}
						return "not-longer"
					})
					c.Count("tmo-late-send:" + proto)
					if ans != "not-longer" {
						c.Fail("tmo-late-send", op, ans, "the timeout sent with a request that goes out some time after the call was created must not be longer than the time remaining when it goes out")
					}
					if strings.HasPrefix(ans, "longer") {
						ans = "longer"
					}
					c.Emit(op, ans, true)
				}
			}
		}
	}
}

// foreignTimeoutProbe: each protocol has one timeout header. The other protocol's header on a
// request means nothing: no deadline for the handler, no rejection (round 9, C10-mk). And the
// timeout a client sends comes from its context alone - not from http.Client.Timeout (C10-ml).
func foreignTimeoutProbe(c *Ctx) {
	for _, proto := range []string{"connect", "grpc", "grpcweb"} {
		for _, kind := range []string{"unary", "client"} {
			for _, val := range []string{"5S", "100m", "abc", "5000", "99999999999"} {
				ran, has := false, false
				observe := func(ctx context.Context) { _, has = ctx.Deadline(); ran = true }
				var h http.Handler
				if kind == "unary" {
					h = connect.NewUnaryHandler("/s/m", func(ctx context.Context, r *connect.Request[emptypb.Empty]) (*connect.Response[emptypb.Empty], error) {
						observe(ctx)
						return connect.NewResponse(&emptypb.Empty{}), nil
					})
				} else {
					h = connect.NewClientStreamHandler("/s/m", func(ctx context.Context, s *connect.ClientStream[emptypb.Empty]) (*connect.Response[emptypb.Empty], error) {
						observe(ctx)
						return connect.NewResponse(&emptypb.Empty{}), nil
					})
				}
				body, ct := "", "application/proto"
				switch {
				case proto == "grpc":
					ct, body = "application/grpc", "\x00\x00\x00\x00\x00"
				case proto == "grpcweb":
					ct, body = "application/grpc-web", "\x00\x00\x00\x00\x00"
				case kind == "client":
					ct, body = "application/connect+proto", "\x00\x00\x00\x00\x00"
				}
				req := httptest.NewRequest(http.MethodPost, "/s/m", strings.NewReader(body))
				req.ProtoMajor, req.ProtoMinor, req.Proto = 2, 0, "HTTP/2.0"
				req.Header.Set("Content-Type", ct)
				foreign := "Grpc-Timeout"
				if proto != "connect" {
					foreign = "Connect-Timeout-Ms"
				}
				req.Header.Set(foreign, val)
				h.ServeHTTP(httptest.NewRecorder(), req)
				c.Count("tmo-foreign-header")
				if !ran || has {
					c.Fail("tmo-foreign-header", fmt.Sprintf("%s %s request carrying only %s: %s", proto, kind, foreign, val), fmt.Sprintf("ran=%v deadline=%v", ran, has), "the other protocol's timeout header means nothing here: user code runs, without a deadline")
				}
			}
		}
	}
	for _, proto := range []string{"connect", "grpc", "grpcweb"} {
		for _, dl := range []time.Duration{0, time.Hour} {
			var hdr string
			var has bool
			var remaining time.Duration
			h := connect.NewUnaryHandler("/s/m", func(ctx context.Context, r *connect.Request[emptypb.Empty]) (*connect.Response[emptypb.Empty], error) {
				hdr = r.Header().Get("Connect-Timeout-Ms") + r.Header().Get("Grpc-Timeout")
				var d time.Time
				d, has = ctx.Deadline()
				remaining = time.Until(d)
				return connect.NewResponse(&emptypb.Empty{}), nil
			})
			got := safely(func() string {
				srv := httptest.NewUnstartedServer(h)
				srv.EnableHTTP2 = true
				srv.StartTLS()
				defer srv.Close()
				hc := *srv.Client()
				hc.Timeout = 2 * time.Minute
				cl := connect.NewClient[emptypb.Empty, emptypb.Empty](&hc, srv.URL+"/s/m", protoOptsPB(proto)...)
				ctx, cancel := context.Background(), context.CancelFunc(func() {})
				if dl > 0 {
					ctx, cancel = context.WithTimeout(ctx, dl)
				}
				defer cancel()
				if _, err := cl.CallUnary(ctx, connect.NewRequest(&emptypb.Empty{})); err != nil {
					return "failed: " + err.Error()
				}
				if dl == 0 {
					return fmt.Sprintf("header=%q deadline=%v", hdr, has)
				}
				return fmt.Sprintf("deadline=%v about-an-hour=%v", has, remaining > 50*time.Minute)
			})
			want := `header="" deadline=false`
			if dl > 0 {
				want = "deadline=true about-an-hour=true"
			}
			c.Count("tmo-http-client-timeout")
			if got != want {
				c.Fail("tmo-http-client-timeout", fmt.Sprintf("%s unary call through an *http.Client with Timeout 2m, context deadline %v", proto, dl), got, "the timeout sent is the context's remaining time, nothing else: "+want)
			}
		}
	}
}

// slowMarshalCodec takes its time to encode, and notes how much of the caller's deadline was
// left when it was done.
type slowMarshalCodec struct {
	delay     time.Duration
	deadline  time.Time
	remaining *time.Duration
}

func (s slowMarshalCodec) Name() string { return "proto" }
func (s slowMarshalCodec) Marshal(m any) ([]byte, error) {
	time.Sleep(s.delay)
	*s.remaining = time.Until(s.deadline)
	return proto.Marshal(m.(proto.Message))
}
func (s slowMarshalCodec) Unmarshal(b []byte, m any) error {
	return proto.Unmarshal(b, m.(proto.Message))
}

// slowMarshalProbe: a unary call whose message takes 300 ms to encode: the timeout that goes out
// with the request is the time remaining when the request goes out - after the encoding, not
// before (round 10, C10-mm; F20 for unary calls).
func slowMarshalProbe(c *Ctx) {
	for _, proto := range []string{"connect", "grpc", "grpcweb"} {
		var hdr string
		h := connect.NewUnaryHandler("/s/m", func(ctx context.Context, r *connect.Request[emptypb.Empty]) (*connect.Response[emptypb.Empty], error) {
			hdr = r.Header().Get("Connect-Timeout-Ms") + r.Header().Get("Grpc-Timeout")
			return connect.NewResponse(&emptypb.Empty{}), nil
		})
		got := safely(func() string {
			ctx, cancel := context.WithTimeout(context.Background(), 20*time.Second)
			defer cancel()
			dl, _ := ctx.Deadline()
			var remaining time.Duration
			cl := connect.NewClient[emptypb.Empty, emptypb.Empty](&inprocClient{h: h}, "http://h/s/m", append(protoOptsPB(proto), connect.WithCodec(slowMarshalCodec{300 * time.Millisecond, dl, &remaining}))...)
			if _, err := cl.CallUnary(ctx, connect.NewRequest(&emptypb.Empty{})); err != nil {
				return "failed: " + err.Error()
			}
			var sent time.Duration
			if proto == "connect" {
				ms, err := strconv.ParseInt(hdr, 10, 64)
				if err != nil {
					return "unparsable header " + hdr
				}
				sent = time.Duration(ms) * time.Millisecond
			} else {
				d, _, err := connect.VerifGRPCParseTimeout(hdr)
				if err != nil {
					return "unparsable header " + hdr
				}
				sent = d
			}
			if sent > remaining {
				return fmt.Sprintf("sent %v with %v left when the message was encoded", sent, remaining.Round(time.Millisecond))
			}
			return "not-longer"
		})
		c.Count("tmo-slow-marshal")
		if got != "not-longer" {
			c.Fail("tmo-late-send", proto+" unary call under a 20 s deadline whose message takes 300 ms to encode", got, "the timeout sent is never longer than the time remaining when the request goes out")
		}
	}
}

func serverBudgetProbes(c *Ctx) {
	for _, proto := range []string{"connect", "grpc", "grpcweb"} {
		for _, kind := range []string{"unary", "client"} {
			for _, tc := range []struct {
				budget time.Duration
				peerMs int64
			}{{time.Hour, 5000}, {2 * time.Second, 3600000}, {time.Hour, 0}, {3 * time.Second, 3000}} {
				var remaining time.Duration
				var has, ran bool
				var h http.Handler
				if kind == "unary" {
					h = connect.NewUnaryHandler("/s/m", func(ctx context.Context, r *connect.Request[emptypb.Empty]) (*connect.Response[emptypb.Empty], error) {
						d, ok := ctx.Deadline()
						ran, has, remaining = true, ok, time.Until(d)
						return connect.NewResponse(&emptypb.Empty{}), nil
					})
				} else {
					h = connect.NewClientStreamHandler("/s/m", func(ctx context.Context, s *connect.ClientStream[emptypb.Empty]) (*connect.Response[emptypb.Empty], error) {
						d, ok := ctx.Deadline()
						ran, has, remaining = true, ok, time.Until(d)
						return connect.NewResponse(&emptypb.Empty{}), nil
					})
				}
				body := ""
				ct := "application/proto"
				switch {
				case proto == "grpc":
					ct, body = "application/grpc", "\x00\x00\x00\x00\x00"
				case proto == "grpcweb":
					ct, body = "application/grpc-web", "\x00\x00\x00\x00\x00"
				case kind == "client":
					ct, body = "application/connect+proto", "\x00\x00\x00\x00\x00"
				}
				req := httptest.NewRequest(http.MethodPost, "/s/m", strings.NewReader(body))
				req.ProtoMajor, req.ProtoMinor, req.Proto = 2, 0, "HTTP/2.0"
				req.Header.Set("Content-Type", ct)
				if tc.peerMs > 0 {
					if proto == "connect" {
						req.Header.Set("Connect-Timeout-Ms", strconv.FormatInt(tc.peerMs, 10))
					} else {
						req.Header.Set("Grpc-Timeout", strconv.FormatInt(tc.peerMs, 10)+"m")
					}
				}
				ctx, cancel := context.WithTimeout(req.Context(), tc.budget)
				h.ServeHTTP(httptest.NewRecorder(), req.WithContext(ctx))
				cancel()
				want := tc.budget
				if tc.peerMs > 0 && time.Duration(tc.peerMs)*time.Millisecond < want {
					want = time.Duration(tc.peerMs) * time.Millisecond
				}
				desc := fmt.Sprintf("%s %s call, server budget %v on the request context, peer timeout %d ms", proto, kind, tc.budget, tc.peerMs)
				c.Count("tmo-server-budget")
				if !ran || !has || remaining > want || remaining < want-2*time.Second {
					c.Fail("tmo-server-budget", desc, fmt.Sprintf("ran=%v deadline=%v remaining=%v", ran, has, remaining.Round(time.Millisecond)), fmt.Sprintf("the handler's deadline must be the earlier of the two (about %v away)", want))
				}
				// the same against the model: snap what the handler saw to the candidate it is just
				// below (the two candidates are seconds apart or equal)
				ans := "none"
				if ran && has {
					ans = fmt.Sprintf("ms=?%d", remaining.Milliseconds())
					for _, cand := range []int64{tc.budget.Milliseconds(), tc.peerMs} {
						if cand > 0 && remaining.Milliseconds() <= cand && remaining.Milliseconds() > cand-2000 {
							ans = fmt.Sprintf("ms=%d", cand)
						}
					}
				}
				hdrv := "-"
				if tc.peerMs > 0 {
					if proto == "connect" {
						hdrv = hx([]byte(strconv.FormatInt(tc.peerMs, 10)))
					} else {
						hdrv = hx([]byte(strconv.FormatInt(tc.peerMs, 10) + "m"))
					}
				}
				c.Emit(fmt.Sprintf("tbudget proto=%s kind=%s budget=%d hdr=%s", proto, kind, tc.budget.Milliseconds(), hdrv), ans, true)
			}
		}
	}
}

// contextShapeProbes (oracle only): the peer's timeout header is parsed, validated and honoured
// whatever state the request's own context is in and whatever the serving http.Server is
// configured with:
//
//	(a) the request context is already cancelled when ServeHTTP is entered (the client went away
//	    while the request was queued): a valid timeout still becomes the handler's deadline, a
//	    malformed one is still rejected without running user code;
//	(b) the http.Server has a WriteTimeout shorter than the peer's timeout: the handler's deadline
//	    is the peer's (a handler passes it on to its own downstream calls).
func contextShapeProbes(c *Ctx) {
	for _, proto := range []string{"connect", "grpc", "grpcweb"} {
		for _, tmo := range []string{"5000", "abc"} {
			var has, ran bool
			var remaining time.Duration
			h := connect.NewClientStreamHandler("/s/m", func(ctx context.Context, s *connect.ClientStream[emptypb.Empty]) (*connect.Response[emptypb.Empty], error) {
				d, ok := ctx.Deadline()
				ran, has, remaining = true, ok, time.Until(d)
				return connect.NewResponse(&emptypb.Empty{}), nil
			})
			ct := map[string]string{"connect": "application/connect+proto", "grpc": "application/grpc", "grpcweb": "application/grpc-web"}[proto]
			req := httptest.NewRequest(http.MethodPost, "/s/m", strings.NewReader(""))
			req.ProtoMajor, req.ProtoMinor, req.Proto = 2, 0, "HTTP/2.0"
			req.Header.Set("Content-Type", ct)
			if proto == "connect" {
				req.Header.Set("Connect-Timeout-Ms", tmo)
			} else {
				req.Header.Set("Grpc-Timeout", tmo+"m")
			}
			ctx, cancel := context.WithCancel(req.Context())
			cancel()
			rec := httptest.NewRecorder()
			h.ServeHTTP(rec, req.WithContext(ctx))
			desc := fmt.Sprintf("%s client-stream request with timeout %q whose context is already cancelled when ServeHTTP is entered", proto, tmo)
			c.Count("tmo-cancelled-context")
			got := fmt.Sprintf("ran=%v deadline=%v remaining=%v", ran, has, remaining.Round(time.Millisecond))
			if tmo == "abc" {
				code, _ := responseErrorCode(proto, "client", rec)
				if ran || code != 3 {
					c.Fail("tmo-reject-ran", desc, fmt.Sprintf("%s code=%d", got, code), "a malformed timeout is rejected as invalid_argument without running user code")
				}
			} else if !ran || !has || remaining > 5*time.Second || remaining < 3*time.Second {
				c.Fail("tmo-server-budget", desc, got, "the handler's context gets the deadline the peer's timeout stands for")
			}
		}
	}
	// (b)
	for _, kind := range []string{"unary", "server"} {
		var has bool
		var remaining time.Duration
		var h http.Handler
		if kind == "unary" {
			h = connect.NewUnaryHandler("/s/m", func(ctx context.Context, r *connect.Request[emptypb.Empty]) (*connect.Response[emptypb.Empty], error) {
				d, ok := ctx.Deadline()
				has, remaining = ok, time.Until(d)
				return connect.NewResponse(&emptypb.Empty{}), nil
			})
		} else {
			h = connect.NewServerStreamHandler("/s/m", func(ctx context.Context, r *connect.Request[emptypb.Empty], s *connect.ServerStream[emptypb.Empty]) error {
				d, ok := ctx.Deadline()
				has, remaining = ok, time.Until(d)
				return nil
			})
		}
		for _, proto := range []string{"connect", "grpc", "grpcweb"} {
			srv := httptest.NewUnstartedServer(h)
			srv.EnableHTTP2 = true
			srv.Config.WriteTimeout = 10 * time.Second
			srv.StartTLS()
			cl := connect.NewClient[emptypb.Empty, emptypb.Empty](srv.Client(), srv.URL+"/s/m", protoOptsPB(proto)...)
			ctx, cancel := context.WithTimeout(context.Background(), 45*time.Second)
			if kind == "unary" {
				_, _ = cl.CallUnary(ctx, connect.NewRequest(&emptypb.Empty{}))
			} else if st, err := cl.CallServerStream(ctx, connect.NewRequest(&emptypb.Empty{})); err == nil {
				for st.Receive() {
				}
				_ = st.Close()
			}
			cancel()
			srv.Close()
			c.Count("tmo-write-timeout")
			if !has || remaining > 45*time.Second || remaining < 40*time.Second {
				c.Fail("tmo-server-budget", fmt.Sprintf("%s %s call with a 45s deadline to an http.Server whose WriteTimeout is 10s", proto, kind), fmt.Sprintf("deadline=%v remaining=%v", has, remaining.Round(time.Millisecond)), "every grammatical timeout a peer sends is honoured exactly")
			}
		}
	}
}

type captureClient struct{ header http.Header }

func (c *captureClient) Do(req *http.Request) (*http.Response, error) {
	c.header = req.Header.Clone()
	return (&staticClient{status: 200, header: http.Header{"Content-Type": {req.Header.Get("Content-Type")}}}).Do(req)
}

func timeoutOp(c *Ctx, op string) {
	f := strings.Fields(op)
	ans := safely(func() string {
		switch f[0] {
		case "gtmo.enc":
			d, _ := strconv.ParseInt(f[1], 10, 64)
			enc, err := connect.VerifGRPCEncodeTimeout(time.Duration(d))
			if err != nil {
				if d > 0 {
					c.Fail("grpc-enc-none", op, "none", "a positive remaining time was sent as no timeout")
				}
				return "none"
			}
			if d > 0 {
				val, ok := grpcGrammatical(enc)
				switch {
				case !ok:
					c.Fail("grpc-enc-grammar", op, enc, "encoded Grpc-Timeout does not fit the grammar (<= 8 digits + unit)")
				case val.Cmp(big.NewInt(d)) > 0:
					c.Fail("grpc-enc-longer", op, enc, "encoded timeout is longer than the time remaining")
				default:
					diff := new(big.Int).Sub(big.NewInt(d), val)
					if diff.Mul(diff, big.NewInt(10000)).Cmp(big.NewInt(d)) >= 0 {
						c.Fail("grpc-enc-granularity", op, enc, "encoded timeout is shorter than the time remaining by 0.01% or more")
					}
				}
				// and the server side must honour exactly what was sent
				got, noTimeout, perr := connect.VerifGRPCParseTimeout(enc)
				if ok && (perr != nil || noTimeout || big.NewInt(int64(got)).Cmp(val) != 0) {
					c.Fail("grpc-enc-parse", op, enc, "the handler does not parse the client's own encoding to the same value")
				}
			}
			return "ok " + hx([]byte(enc))
		case "gtmo.parse":
			s := string(unhx(f[1]))
			d, noTimeout, err := connect.VerifGRPCParseTimeout(s)
			val, gram := grpcGrammatical(s)
			var ans string
			switch {
			case err == nil:
				ans = fmt.Sprintf("ok %d", int64(d))
			case noTimeout:
				ans = "none"
			default:
				ans = "invalid"
			}
			if gram {
				if val.Cmp(maxDuration) > 0 {
					if ans != "none" {
						c.Fail("grpc-parse-unbounded", op, ans, "a grammatical timeout beyond the runtime's range must be treated as unbounded")
					}
				} else if ans != fmt.Sprintf("ok %s", val.String()) {
					c.Fail("grpc-parse-exact", op, ans, "a grammatical timeout is not honoured exactly")
				}
			} else if s != "" {
				// malformed classes named by the property
				malformed := false
				if _, okUnit := grpcUnits[s[len(s)-1]]; !okUnit {
					malformed = true // missing or unknown unit
				} else {
					num := s[:len(s)-1]
					if num == "" {
						malformed = true
					} else if _, perr := strconv.ParseInt(num, 10, 64); perr != nil {
						malformed = true // non-decimal number
					} else if strings.HasPrefix(num, "-") && strings.Trim(num, "-0") != "" {
						malformed = true // a negative duration is not a decimal count
					} else if isDigits(num) && len(strings.TrimLeft(num, "0")) > 8 {
						malformed = true // beyond the digit limit
					}
				}
				if malformed && ans != "invalid" {
					c.Fail("grpc-parse-malformed", op, ans, "a malformed timeout was not rejected")
				}
			}
			return ans
		case "gtmo.serve", "ctmo.serve":
			s := string(unhx(f[1]))
			grpc := f[0] == "gtmo.serve"
			status, code, probe, t0, t1 := serveWithTimeout(grpc, s)
			// the deadline is computed between t0 and the moment user code is entered; under load
			// that bracket can be wider than the millisecond grid: measure again (the tightest wins)
			for try := 0; try < 20 && probe.ran && probe.has && !grpc; try++ {
				if !probe.entered.IsZero() && probe.entered.Before(t1) {
					t1 = probe.entered
				}
				if t1.Sub(t0) <= 400*time.Microsecond {
					break
				}
				status, code, probe, t0, t1 = serveWithTimeout(grpc, s)
			}
			if !probe.entered.IsZero() && probe.entered.Before(t1) {
				t1 = probe.entered
			}
			_ = status
			ranStr := "norun"
			if probe.ran {
				ranStr = "ran"
			}
			if code != "0" && code != "" {
				name := code
				if n, err := strconv.Atoi(code); err == nil {
					name = connect.Code(n).String()
				}
				if probe.ran {
					c.Fail("tmo-reject-ran", op, name, "user code ran although the timeout was rejected")
				}
				return "rejected " + name + " " + ranStr
			}
			// independent statement of "malformed" for Connect: the value is a decimal number
			// (optionally signed) - nothing else, nothing after it
			if !grpc && probe.ran && s != "" && !isDecimalNumber(s) {
				c.Fail("tmo-malformed-ran", op, fmt.Sprintf("%q", s), "user code ran although Connect-Timeout-Ms is not a decimal number")
			}
			if !probe.ran {
				return "norun-ok"
			}
			if !probe.has {
				return "ran none"
			}
			if grpc {
				return "ran deadline"
			}
			lo, hi := probe.deadline.Sub(t1), probe.deadline.Sub(t0)
			ms := (int64(lo) + int64(hi)) / 2
			// snap to the millisecond grid (Connect timeouts are whole milliseconds)
			snapped := (ms + 500000*sign(ms)) / 1000000 * 1000000
			if int64(hi-lo) > 900000 || snapped < int64(lo)-1000 || snapped > int64(hi)+1000 {
				return fmt.Sprintf("ran unsnappable %d %d", lo, hi)
			}
			return fmt.Sprintf("ran %d", snapped)
		case "ctmo.enc":
			return "ok"
		}
		return "bad-op"
	})
	if strings.HasPrefix(ans, "PANIC") {
		c.Fail("panic", op, ans, "operation panicked")
	}
	c.Count(f[0] + ":" + strings.Fields(ans)[0])
	c.Emit(op, ans, true)
}

func isDecimalNumber(s string) bool {
	if s != "" && (s[0] == '+' || s[0] == '-') {
		s = s[1:]
	}
	return isDigits(s)
}

func sign(x int64) int64 {
	if x < 0 {
		return -1
	}
	return 1
}

// connectEncodeProbe runs a real Connect client with a deadline `d` from now and reports the
// Connect-Timeout-Ms header it sent together with the measured bounds on the remaining time.
func connectEncodeProbe(c *Ctx, d time.Duration, grpc bool) {
	cap := &captureClient{}
	opts := []connect.ClientOption{}
	name := "Connect-Timeout-Ms"
	if grpc {
		opts = append(opts, connect.WithGRPC())
		name = "Grpc-Timeout"
	}
	cl := connect.NewClient[emptypb.Empty, emptypb.Empty](cap, "http://h/s/m", opts...)
	deadline := time.Now().Add(d)
	ctx, cancel := context.WithDeadline(context.Background(), deadline)
	defer cancel()
	hi := time.Until(deadline)
	_, _ = cl.CallUnary(ctx, connect.NewRequest(&emptypb.Empty{}))
	lo := time.Until(deadline)
	if cap.header == nil {
		c.Count("enc-probe:no-request")
		return
	}
	hdr := "none"
	vals, present := cap.header[name]
	if present && len(vals) == 1 {
		hdr = hx([]byte(vals[0]))
	}
	if grpc {
		if !present {
			if lo > 0 {
				c.Fail("grpc-client-no-timeout", fmt.Sprintf("client deadline %d", d), "none", "client with a deadline sent no Grpc-Timeout")
			}
			return
		}
		val, ok := grpcGrammatical(vals[0])
		if !ok && vals[0] != "0n" {
			c.Fail("grpc-enc-grammar", fmt.Sprintf("client deadline %d", d), vals[0], "encoded Grpc-Timeout does not fit the grammar")
		} else if ok && val.Cmp(big.NewInt(int64(hi))) > 0 {
			c.Fail("grpc-enc-longer", fmt.Sprintf("client deadline %d", d), vals[0], "encoded timeout is longer than the time remaining")
		}
		c.Count("enc-probe:grpc")
		return
	}
	op := fmt.Sprintf("ctmo.enc %d %d %s", int64(lo), int64(hi), hdr)
	// oracle (independent of the model)
	if present {
		v := vals[0]
		switch {
		case !isDigits(v) || len(v) > 10:
			c.Fail("connect-enc-grammar", op, v, "Connect-Timeout-Ms does not fit the grammar (<= 10 digits)")
		default:
			ms, _ := strconv.ParseInt(v, 10, 64)
			if ms*1000000 > int64(hi) {
				c.Fail("connect-enc-longer", op, v, "timeout sent is longer than the time remaining")
			}
			if ms*1000000 < int64(lo)-1000000 {
				c.Fail("connect-enc-granularity", op, v, "timeout sent is shorter than the time remaining by more than the granularity")
			}
		}
	} else if lo > 0 && int64(hi)/1000000 < 10000000000 {
		key := "connect-enc-missing"
		if int64(hi) < 1000000 {
			key = "connect-enc-missing-submillisecond"
		}
		c.Fail(key, op, "none", "client has a deadline but sent no Connect-Timeout-Ms (the handler gets no deadline)")
	}
	c.Count("enc-probe:connect:" + map[bool]string{true: "header", false: "none"}[present])
	timeoutOp(c, op)
}

func streamTimeout(c *Ctx) {
	if replayOp != "" {
		f := strings.Fields(replayOp)
		if f[0] == "tbudget" { // emitted by the server-budget probes: run them again
			serverBudgetProbes(c)
			return
		}
		if f[0] == "tlate" {
			lateSendProbes(c)
			return
		}
		if f[0] == "ctmo.enc" {
			// re-probe with a deadline in the same range
			hi, _ := strconv.ParseInt(f[2], 10, 64)
			connectEncodeProbe(c, time.Duration(hi), false)
			return
		}
		timeoutOp(c, replayOp)
		return
	}
	r := c.Rng
	// --- gRPC encode: every unit x digit-count boundary, ±1, extremes, random -------------
	durations := []int64{-5, 0, 1, 2, 9, 10, 1<<63 - 1, 1<<63 - 2, 1 << 62}
	units := []int64{1, 1000, 1000000, 1000000000, 60000000000, 3600000000000}
	for _, u := range units {
		p := int64(1)
		for k := 0; k <= 9; k++ {
			for _, m := range []int64{p - 1, p, p + 1} {
				hi, lo := new(big.Int).Mul(big.NewInt(m), big.NewInt(u)), int64(0)
				if hi.IsInt64() {
					lo = hi.Int64()
					for _, delta := range []int64{-1, 0, 1, u / 2, u - 1} {
						if lo+delta > 0 && lo+delta >= lo-1 {
							durations = append(durations, lo+delta)
						}
					}
				}
			}
			p *= 10
		}
	}
	nRand := 10000
	if c.Thorough() {
		nRand = 300000
	}
	for i := 0; i < nRand; i++ {
		durations = append(durations, int64(r.U64()>>uint(1+r.Intn(63))))
	}
	for _, d := range durations {
		timeoutOp(c, fmt.Sprintf("gtmo.enc %d", d))
	}
	// --- parse: grammatical, near-grammatical, junk ----------------------------------------
	var headers []string
	unitChars := "numSMH"
	for i := 0; i < len(unitChars); i++ {
		u := string(unitChars[i])
		for _, n := range []string{"0", "1", "9", "10", "99999999", "100000000", "099999999", "00000001", "12345678", "123456789", "2562047", "2562048", "5124096", "10248192", "99999998", "", "+5", "-5", "-0", "1.5", "1e3", "0x10", " 5", "5 ", "١٢"} {
			headers = append(headers, n+u)
		}
	}
	headers = append(headers, "5", "5s", "5h", "5N", "S", "n", "55", "5SS", "5 S", "foo", "12xS", "999999999n", "9223372036854775807n", "9223372036854775808n", "\x00", "5\n")
	nParse := 6000
	if c.Thorough() {
		nParse = 120000
	}
	for i := 0; i < nParse; i++ {
		var s string
		switch r.Intn(6) {
		case 0, 1, 2: // grammatical
			digits := 1 + r.Intn(8)
			for j := 0; j < digits; j++ {
				s += string(byte('0' + r.Intn(10)))
			}
			s += string(unitChars[r.Intn(6)])
		case 3: // near-grammatical
			digits := r.Intn(12)
			for j := 0; j < digits; j++ {
				s += string("0123456789+-_ ."[r.Intn(15)])
			}
			s += string("numSMHsh0x"[r.Intn(10)])
		case 4:
			s = string(r.Bytes(r.Intn(6)))
		default: // hours around the overflow boundary
			s = fmt.Sprintf("%dH", 2562000+r.Intn(20000000))
		}
		headers = append(headers, s)
	}
	for _, s := range headers {
		timeoutOp(c, "gtmo.parse "+hx([]byte(s)))
	}
	// --- through the real handler: rejected ones must not run user code ---------------------
	nServe := 500
	if c.Thorough() {
		nServe = 4000
	}
	for i, s := range headers {
		if i < nServe && s != "" && !strings.ContainsAny(s, "\n\r\x00") {
			timeoutOp(c, "gtmo.serve "+hx([]byte(s)))
		}
	}
	connectHeaders := []string{"0", "1", "5", "05", "0000000005", "00000000005", "9999999999", "10000000000", "99999999999", "-5", "+5", "-999999999", "+999999999", "1.5", "5ms", " 5", "5 ", "abc", "0x10", "1e3", "١٢", "-", "+", "1_000",
		"5,000", "1000,abc", "1000, 2000", "250,", ",250", "5;q=1", "5,5", "1000,1000", "30000, 30000", "5\t6", "5/1", "5:00", "5'", "5e", "5m"}
	for i := 0; i < 400; i++ {
		var s string
		switch r.Intn(4) {
		case 3: // a decimal prefix, one foreign byte, anything
			digits := 1 + r.Intn(10)
			for j := 0; j < digits; j++ {
				s += string(byte('0' + r.Intn(10)))
			}
			s += string(",;:/|&=eE.'\"mMsS"[r.Intn(16)])
			for j := r.Intn(5); j > 0; j-- {
				s += string("0123456789, abc"[r.Intn(15)])
			}
			s = strings.TrimSpace(s)
		case 0:
			digits := 1 + r.Intn(10)
			for j := 0; j < digits; j++ {
				s += string(byte('0' + r.Intn(10)))
			}
		case 1:
			digits := 1 + r.Intn(12)
			for j := 0; j < digits; j++ {
				s += string("0123456789+-_ ."[r.Intn(15)])
			}
		default:
			s = strings.Map(func(r rune) rune {
				if r < 0x21 || r > 0x7e {
					return 'x'
				}
				return r
			}, string(r.Bytes(1+r.Intn(6))))
		}
		connectHeaders = append(connectHeaders, s)
	}
	for _, s := range connectHeaders {
		if strings.TrimSpace(s) != s { // net/http would trim these before the handler sees them
			continue
		}
		timeoutOp(c, "ctmo.serve "+hx([]byte(s)))
	}
	// --- real clients: deadline -> header --------------------------------------------------
	day := 24 * time.Hour
	probes := []time.Duration{500 * time.Microsecond, 900 * time.Microsecond, 1500 * time.Microsecond, 3 * time.Millisecond, 50 * time.Millisecond, time.Second, time.Hour,
		100 * day, 115 * day, 116 * day, 117 * day, 200 * day, 1000 * day, 20000 * day, 100000 * day, time.Duration(1<<63 - 1 - int64(time.Hour))}
	for _, d := range probes {
		connectEncodeProbe(c, d, false)
		connectEncodeProbe(c, d, true)
	}
	timeoutReuseProbes(c)
	serverBudgetProbes(c)
	foreignTimeoutProbe(c)
	slowMarshalProbe(c)
	lateSendProbes(c)
	contextShapeProbes(c)
	for i := 0; i < 200; i++ {
		d := time.Duration(r.U64() >> uint(1+r.Intn(50)))
		if d < 2*time.Millisecond {
			d += 2 * time.Millisecond
		}
		connectEncodeProbe(c, d, r.Bool())
	}
	// no client deadline => no header
	cap := &captureClient{}
	cl := connect.NewClient[emptypb.Empty, emptypb.Empty](cap, "http://h/s/m")
	_, _ = cl.CallUnary(context.Background(), connect.NewRequest(&emptypb.Empty{}))
	if _, ok := cap.header["Connect-Timeout-Ms"]; ok {
		c.Fail("connect-enc-spurious", "client without deadline", "header", "a client without a deadline sent a timeout")
	}
}

// deadlineIcpt installs a default deadline on every call, the way a client-side timeout
// interceptor does.
type deadlineIcpt struct{ d time.Duration }

func (i deadlineIcpt) WrapUnary(next connect.UnaryFunc) connect.UnaryFunc {
	return func(ctx context.Context, req connect.AnyRequest) (connect.AnyResponse, error) {
		ctx, cancel := context.WithTimeout(ctx, i.d)
		defer cancel()
		return next(ctx, req)
	}
}
func (i deadlineIcpt) WrapStreamingClient(next connect.StreamingClientFunc) connect.StreamingClientFunc {
	return func(ctx context.Context, spec connect.Spec) connect.StreamingClientConn {
		ctx, cancel := context.WithTimeout(ctx, i.d)
		time.AfterFunc(i.d+5*time.Second, cancel) // the call owns the context; released well after it ended
		return next(ctx, spec)
	}
}
func (i deadlineIcpt) WrapStreamingHandler(next connect.StreamingHandlerFunc) connect.StreamingHandlerFunc {
	return next
}

// timeoutMillis reads the timeout a request carries (ok=false: none or unparsable).
func timeoutMillis(h http.Header, grpc bool) (vals []string, ms int64, ok bool) {
	if !grpc {
		vals = h["Connect-Timeout-Ms"]
		if len(vals) == 0 {
			return vals, 0, false
		}
		n, err := strconv.ParseInt(vals[0], 10, 64)
		return vals, n, err == nil
	}
	vals = h["Grpc-Timeout"]
	if len(vals) == 0 {
		return vals, 0, false
	}
	v, good := grpcGrammatical(vals[0])
	if !good {
		return vals, 0, false
	}
	return vals, new(big.Int).Div(v, big.NewInt(1000000)).Int64(), true
}

// timeoutReuseProbes (oracle only): the deadline of *this* call is what goes out - also when
// the Request value was used before with a later deadline, and also when the deadline was
// installed by a client interceptor rather than by the caller; in every protocol and RPC kind.
func timeoutReuseProbes(c *Ctx) {
	for _, proto := range []string{"connect", "grpc", "grpcweb"} {
		grpc := proto != "connect"
		// (1) one Request value, two calls, the second with the tighter deadline
		cap := &captureClient{}
		cl := connect.NewClient[emptypb.Empty, emptypb.Empty](cap, "http://h/s/m", protoOptsPB(proto)...)
		req := connect.NewRequest(&emptypb.Empty{})
		for i, d := range []time.Duration{time.Hour, 5 * time.Second} {
			ctx, cancel := context.WithTimeout(context.Background(), d)
			_, _ = cl.CallUnary(ctx, req)
			cancel()
			vals, ms, ok := timeoutMillis(cap.header, grpc)
			c.Count("tmo-reuse")
			desc := fmt.Sprintf("%s unary call #%d with one reused Request value, deadline %v", proto, i+1, d)
			if len(vals) != 1 || !ok || ms > d.Milliseconds() {
				c.Fail("tmo-reuse-extends", desc, fmt.Sprint(vals), "the request must carry exactly one timeout, no longer than this call's deadline")
			}
		}
		// (1a) ... and a call WITHOUT a deadline made with a Request value that carried one before
		// sends no timeout at all: without a client deadline the handler's context has none
		{
			cap := &captureClient{}
			cl := connect.NewClient[emptypb.Empty, emptypb.Empty](cap, "http://h/s/m", protoOptsPB(proto)...)
			req := connect.NewRequest(&emptypb.Empty{})
			ctx, cancel := context.WithTimeout(context.Background(), time.Hour)
			_, _ = cl.CallUnary(ctx, req)
			cancel()
			cap.header = nil
			_, _ = cl.CallUnary(context.Background(), req)
			vals, _, _ := timeoutMillis(cap.header, grpc)
			c.Count("tmo-reuse")
			if len(vals) != 0 {
				c.Fail("tmo-reuse-stale", fmt.Sprintf("%s unary call without a deadline, made with a Request value used before under a 1h deadline", proto), fmt.Sprint(vals), "a client without a deadline must send no timeout: the handler's context would get a deadline the caller never set")
			}
		}
		// (1b) the Request value went through a unary call first and is then used for a
		// server-streaming call with a tighter deadline: the timeout a handler honours (the first
		// value of the header) is this call's
		{
			cap := &captureClient{}
			cl := connect.NewClient[emptypb.Empty, emptypb.Empty](cap, "http://h/s/m", protoOptsPB(proto)...)
			req := connect.NewRequest(&emptypb.Empty{})
			ctx, cancel := context.WithTimeout(context.Background(), time.Hour)
			_, _ = cl.CallUnary(ctx, req)
			cancel()
			cap.header = nil
			ctx, cancel = context.WithTimeout(context.Background(), 5*time.Second)
			if s, err := cl.CallServerStream(ctx, req); err == nil {
				for s.Receive() {
				}
				_ = s.Close()
			}
			cancel()
			vals, ms, ok := timeoutMillis(cap.header, grpc)
			c.Count("tmo-reuse")
			desc := fmt.Sprintf("%s server-streaming call (deadline 5s) with a Request value used before for a unary call (deadline 1h)", proto)
			if len(vals) == 0 || !ok || ms > 5000 {
				c.Fail("tmo-reuse-extends", desc, fmt.Sprint(vals), "the timeout the handler honours must be no longer than this call's deadline")
			}
		}
		// (2) the deadline comes from a client interceptor
		for _, kind := range []string{"unary", "client", "server", "bidi"} {
			cap := &captureClient{}
			opts := append(protoOptsPB(proto), connect.WithInterceptors(deadlineIcpt{2 * time.Second}))
			cl := connect.NewClient[emptypb.Empty, emptypb.Empty](cap, "http://h/s/m", opts...)
			ctx := context.Background()
			switch kind {
			case "unary":
				_, _ = cl.CallUnary(ctx, connect.NewRequest(&emptypb.Empty{}))
			case "client":
				s := cl.CallClientStream(ctx)
				_ = s.Send(&emptypb.Empty{})
				_, _ = s.CloseAndReceive()
			case "server":
				if s, err := cl.CallServerStream(ctx, connect.NewRequest(&emptypb.Empty{})); err == nil {
					for s.Receive() {
					}
					_ = s.Close()
				}
			default:
				s := cl.CallBidiStream(ctx)
				_ = s.Send(&emptypb.Empty{})
				_ = s.CloseRequest()
				_, _ = s.Receive()
				_ = s.CloseResponse()
			}
			vals, ms, ok := timeoutMillis(cap.header, grpc)
			c.Count("tmo-interceptor")
			desc := fmt.Sprintf("%s %s call whose 2s deadline is installed by a client interceptor", proto, kind)
			if cap.header == nil {
				c.Fail("tmo-interceptor-deadline-lost", desc, "no request was made", "the call did not reach the transport")
			} else if len(vals) != 1 || !ok || ms > 2000 || ms < 1000 {
				c.Fail("tmo-interceptor-deadline-lost", desc, fmt.Sprint(vals), "the request must carry the deadline the interceptor installed")
			}
		}
	}
}

func protoOptsPB(proto string) []connect.ClientOption {
	switch proto {
	case "grpc":
		return []connect.ClientOption{connect.WithGRPC()}
	case "grpcweb":
		return []connect.ClientOption{connect.WithGRPCWeb()}
	}
	return nil
}
