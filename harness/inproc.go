package main

import (
	"fmt"
	"net/http"
	"net/http/httptest"
)

// inprocClient is a connect.HTTPClient that serves each request by calling the handler's
// ServeHTTP in process (HTTP/2-shaped request, recorded response). Do runs in the library's
// request goroutine, so the handler reads the request pipe while the client is still sending;
// the response becomes available when the handler returns (no interleaved bidi).
type inprocClient struct {
	h          http.Handler
	panicked   bool
	panicValue any
	last       *httptest.ResponseRecorder
	lastReq    *http.Request
	protoMajor int
}

func (c *inprocClient) Do(req *http.Request) (*http.Response, error) {
	rec := httptest.NewRecorder()
	sreq := req.Clone(req.Context())
	major := c.protoMajor
	if major == 0 {
		major = 2
	}
	sreq.ProtoMajor, sreq.ProtoMinor = major, 0
	sreq.Proto = fmt.Sprintf("HTTP/%d.0", major)
	if major == 1 {
		sreq.ProtoMinor, sreq.Proto = 1, "HTTP/1.1"
	}
	sreq.RequestURI = req.URL.RequestURI()
	c.lastReq = sreq
	done := false
	func() {
		defer func() {
			if !done {
				c.panicked = true
				c.panicValue = recover()
			}
		}()
		c.h.ServeHTTP(rec, sreq)
		done = true
	}()
	c.last = rec
	if c.panicked {
		_ = req.Body.Close()
		return nil, fmt.Errorf("handler panicked: %v", c.panicValue)
	}
	res := rec.Result()
	res.Request = req
	res.ProtoMajor, res.ProtoMinor, res.Proto = sreq.ProtoMajor, sreq.ProtoMinor, sreq.Proto
	return res, nil
}
