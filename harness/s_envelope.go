package main

import (
	"bytes"
	"compress/gzip"
	"context"
	"errors"
	"fmt"
	"io"
	"net/http"
	"net/http/httptest"
	"runtime"
	"strconv"
	"strings"
	"sync/atomic"

	connect "github.com/bufbuild/connect-go"
)

// Envelope-level streams (the real envelopeReader / envelopeWriter through the verif hook):
//   env.recv comp=0|1 max=N tail=T flat=HEX seg=CUTS wd=0|1   -> yields  (model: flat only)
//   env.write comp=0|1 min=N msgs=HEX,HEX extra=none|FLAGS:HEX  -> wire bytes

func init() {
	register("seg", "C03", streamSeg)
	register("cut", "C04", streamCut)
	register("limit", "C09", streamLimit)
	register("roundtrip", "C01", streamRoundtrip)
}

func kvArgs(fields []string) map[string]string {
	m := map[string]string{}
	for _, f := range fields {
		if i := strings.IndexByte(f, '='); i > 0 {
			m[f[:i]] = f[i+1:]
		}
	}
	return m
}

func showYields(ys []connect.VerifYield) string {
	var parts []string
	for _, y := range ys {
		switch {
		case y.IsMsg:
			parts = append(parts, "m:"+hx(y.Msg))
		case y.Special:
			parts = append(parts, fmt.Sprintf("s:%d:%s", y.Flags, hx(y.Data)))
		default:
			w := 0
			if y.WrapsEOF {
				w = 1
			}
			parts = append(parts, fmt.Sprintf("e:%d:%d", y.Code, w))
		}
	}
	return strings.Join(parts, " ")
}

func parseCuts(s string) []int {
	var cuts []int
	if s == "" || s == "-" {
		return nil
	}
	for _, p := range strings.Split(s, ",") {
		n, _ := strconv.Atoi(p)
		cuts = append(cuts, n)
	}
	return cuts
}

func showCuts(cuts []int) string {
	if len(cuts) == 0 {
		return "-"
	}
	parts := make([]string, len(cuts))
	for i, c := range cuts {
		parts[i] = strconv.Itoa(c)
	}
	return strings.Join(parts, ",")
}

func envRecvImpl(comp bool, max int, tail string, flat []byte, cuts []int, withData bool) []connect.VerifYield {
	rd := &scriptReader{chunks: segment(append([]byte(nil), flat...), cuts), tail: tailError(tail), withData: withData}
	var nd func() connect.Decompressor
	var nc func() connect.Compressor
	if comp {
		nd, nc = newRLEDecompressor, newRLECompressor
	}
	return connect.VerifEnvelopeRecvAll(rd, envCodec, nd, nc, max, len(flat)/5+2)
}

// envCodec is the codec env.recv operations run with (strict=1 swaps in strictCodec).
var envCodec connect.Codec = rawCodec{}

// envDrainImpl: drainUpTo (the library's bounded drain, F43) on a scripted transport.
func envDrainImpl(limit int, tail string, flat []byte, cuts []int, withData bool) string {
	rd := &scriptReader{chunks: segment(append([]byte(nil), flat...), cuts), tail: tailError(tail), withData: withData}
	atEnd, err := connect.VerifDrain(rd, int64(limit))
	return drainVerdict(atEnd, err) + fmt.Sprintf(" saw=%d", b2i(rd.sawEnd))
}

func drainVerdict(atEnd bool, err error) string {
	switch {
	case err != nil && atEnd:
		return "atEnd-and-error"
	case err != nil:
		var ce *connect.Error
		if errors.As(err, &ce) {
			return fmt.Sprintf("failed:coded:%d:%d", ce.Code(), b2i(errors.Is(err, io.EOF)))
		}
		if errors.Is(err, io.ErrUnexpectedEOF) {
			return "failed:ueof"
		}
		if err == io.EOF {
			return "failed:eof"
		}
		return "failed:err"
	case atEnd:
		return "atEnd"
	}
	return "more"
}

// envDrainOp runs one env.drain op; its own oracle (C03): the answer is that of delivering the
// same bytes in one piece with the end reported separately.
func envDrainOp(c *Ctx, op string) string {
	c.Begin(op)
	a := kvArgs(strings.Fields(op))
	limit, _ := strconv.Atoi(a["limit"])
	ans := safely(func() string {
		return envDrainImpl(limit, a["tail"], unhx(a["flat"]), parseCuts(a["seg"]), a["wd"] == "1")
	})
	whole := safely(func() string { return envDrainImpl(limit, a["tail"], unhx(a["flat"]), nil, false) })
	c.Count("drain:" + strings.SplitN(strings.Fields(ans)[0], ":", 2)[0])
	// (saw= tells which reads reported the end with no data; that is tied to the model, but it is
	// not an outcome: the client consults the trailers if the drain is at the end *or* saw it)
	if strings.Fields(ans)[0] != strings.Fields(whole)[0] {
		c.Fail("segmentation-dependent-drain", op, ans, "the drain's verdict differs from that of one-piece delivery with the end reported separately, which is: "+whole)
	}
	return ans
}

// envRecvOp runs one env.recv op and returns the canonical answer.
func envRecvOp(c *Ctx, op string) string {
	c.Begin(op)
	a := kvArgs(strings.Fields(op))
	max, _ := strconv.Atoi(a["max"])
	ans := safely(func() string {
		if a["strict"] == "1" {
			envCodec = strictCodec{}
			defer func() { envCodec = rawCodec{} }()
		}
		return showYields(envRecvImpl(a["comp"] == "1", max, a["tail"], unhx(a["flat"]), parseCuts(a["seg"]), a["wd"] == "1"))
	})
	if strings.HasPrefix(ans, "PANIC") {
		c.Fail("panic", op, ans, "receiving panicked")
	}
	return ans
}

func envWriteOp(c *Ctx, op string) string {
	c.Begin(op)
	a := kvArgs(strings.Fields(op))
	min, _ := strconv.Atoi(a["min"])
	var msgs [][]byte
	if a["msgs"] != "" {
		for _, m := range strings.Split(a["msgs"], ",") {
			msgs = append(msgs, unhx(m))
		}
	}
	var nd func() connect.Decompressor
	var nc func() connect.Compressor
	if a["comp"] == "1" {
		nd, nc = newRLEDecompressor, newRLECompressor
	}
	var extraFlags uint8
	var extraData []byte
	if a["extra"] != "none" {
		parts := strings.SplitN(a["extra"], ":", 2)
		f, _ := strconv.Atoi(parts[0])
		extraFlags = uint8(f)
		extraData = unhx(parts[1])
		if extraData == nil {
			extraData = []byte{}
		}
	}
	return safely(func() string {
		var wire bytes.Buffer
		if err := connect.VerifEnvelopeWrite(&wire, rawCodec{}, nd, nc, min, msgs, extraFlags, extraData); err != nil {
			return "err:" + strconv.Itoa(int(err.Code()))
		}
		return hx(wire.Bytes())
	})
}

func envOp(c *Ctx, op string) string {
	var ans string
	if strings.HasPrefix(op, "env.write") {
		ans = envWriteOp(c, op)
	} else if strings.HasPrefix(op, "env.drain") {
		ans = envDrainOp(c, op)
	} else {
		ans = envRecvOp(c, op)
	}
	c.Emit(op, ans, true)
	return ans
}

// --- generators -------------------------------------------------------------------------

// genPayload draws payload sizes that straddle interesting boundaries.
func genPayload(r *Rng, maxLen int) []byte {
	var n int
	switch r.Intn(8) {
	case 0:
		n = 0
	case 1:
		n = 1
	case 2:
		n = 2 + r.Intn(4)
	default:
		n = r.Intn(maxLen + 1)
	}
	b := r.Bytes(n)
	if r.Chance(30) { // runs, so that RLE shrinks them
		for i := range b {
			b[i] = byte(i / 7)
		}
	}
	if len(b) > 0 && b[0] == 0xEE && !r.Chance(10) {
		b[0] = 0x11
	}
	return b
}

// genBody builds a mostly-valid stream body: frames (plain / compressed / empty), optionally a
// terminator frame with special flags.
func genBody(r *Rng, comp bool, maxFrames, maxLen int) (flat []byte, sent [][]byte, boundaries []int) {
	n := r.Intn(maxFrames + 1)
	for i := 0; i < n; i++ {
		p := genPayload(r, maxLen)
		sent = append(sent, p)
		if comp && r.Chance(50) {
			flat = append(flat, frame(1, rleCompress(p))...)
		} else {
			flat = append(flat, frame(0, p)...)
		}
		boundaries = append(boundaries, len(flat))
	}
	return
}

func randomCuts(r *Rng, n int, k int) []int {
	if n <= 1 {
		return nil
	}
	set := map[int]bool{}
	for i := 0; i < k; i++ {
		set[1+r.Intn(n-1)] = true
	}
	var cuts []int
	for i := 1; i < n; i++ {
		if set[i] {
			cuts = append(cuts, i)
		}
	}
	return cuts
}

func recvOpLine(comp bool, max int, tail string, flat []byte, cuts []int, wd bool) string {
	return fmt.Sprintf("env.recv comp=%d max=%d tail=%s flat=%s seg=%s wd=%d", b2i(comp), max, tail, hx(flat), showCuts(cuts), b2i(wd))
}

func b2i(b bool) int {
	if b {
		return 1
	}
	return 0
}

// S-seg (C03): the same bytes under every segmentation give the same outcome.
// afterOversizeProbes (oracle only): a handler may go on calling Receive after one message was
// rejected for its size (the reader skips it precisely so that the stream stays in step). What it
// then gets must not depend on how the transport cut the body up: requests of the form
// [small][over the limit][small][small] through a real bidi handler, in several segmentations.
func afterOversizeProbes(c *Ctx) {
	for _, proto := range []string{"connect", "grpc", "grpcweb"} {
		for _, big := range []int{33, 200, 700, 5000} {
			flat := append(frame(0, []byte{1}), frame(0, bytes.Repeat([]byte{2}, big))...)
			flat = append(flat, frame(0, []byte{7})...)
			flat = append(flat, frame(0, []byte{9, 9})...)
			run := func(cuts []int, withData bool) string {
				var got []string
				h := connect.NewBidiStreamHandler("/s/m", func(ctx context.Context, s *connect.BidiStream[[]byte, []byte]) error {
					for i := 0; i < 8; i++ {
						m, err := s.Receive()
						switch {
						case err == nil:
							got = append(got, "m:"+hx(*m))
						case errors.Is(err, io.EOF):
							got = append(got, "eof")
							return nil
						default:
							got = append(got, "e:"+connect.CodeOf(err).String())
						}
					}
					return nil
				}, connect.WithCodec(rawCodec{"raw"}), connect.WithReadMaxBytes(32))
				return safely(func() string {
					body := &scriptReader{chunks: segment(append([]byte(nil), flat...), cuts), tail: io.EOF, withData: withData}
					req := httptest.NewRequest(http.MethodPost, "/s/m", body)
					req.ProtoMajor, req.ProtoMinor, req.Proto = 2, 0, "HTTP/2.0"
					req.Header.Set("Content-Type", map[string]string{"connect": "application/connect+raw", "grpc": "application/grpc+raw", "grpcweb": "application/grpc-web+raw"}[proto])
					h.ServeHTTP(httptest.NewRecorder(), req)
					return strings.Join(got, " ")
				})
			}
			whole := run(nil, false)
			desc := fmt.Sprintf("%s bidi handler, read limit 32, request [1 byte][%d bytes][1 byte][2 bytes], Receive continues after the size error", proto, big)
			c.Count("seg:after-oversize")
			if whole != "m:01 e:invalid_argument m:07 m:0909 eof" {
				c.Fail("segmentation-dependent-after-oversize", desc, whole, "delivered in one piece, the handler must see: message, size error, message, message, end")
				continue
			}
			var everyByte, sevens []int
			for i := 1; i < len(flat); i++ {
				everyByte = append(everyByte, i)
				if i%7 == 0 {
					sevens = append(sevens, i)
				}
			}
			endOfBig := 6 + 5 + big
			for _, cuts := range [][]int{everyByte, sevens, {endOfBig}, {endOfBig - 1}, {endOfBig + 1}, {endOfBig + 3, endOfBig + 9}, {6, endOfBig + 6}} {
				for _, withData := range []bool{false, true} {
					if got := run(cuts, withData); got != whole {
						c.Fail("segmentation-dependent-after-oversize", desc+fmt.Sprintf(", cuts %v, EOF with data=%v", cuts[:min(len(cuts), 4)], withData), got, "outcome differs from one-piece delivery, which gives: "+whole)
					}
				}
			}
		}
	}
}

func streamSeg(c *Ctx) {
	if replayOp != "" {
		if strings.HasPrefix(replayOp, "env.drain") {
			envOp(c, replayOp) // carries its own oracle
		} else {
			segCheck(c, replayOp)
		}
		return
	}
	largeLastMessageProbe(c, "seg-large-message")
	afterOversizeProbes(c)
	// the bounded drain (F43): every body length around every limit x every segmentation x both
	// ways of reporting the end x every kind of end
	for n := 0; n <= 5; n++ {
		body := []byte{1, 2, 3, 4, 5}[:n]
		for limit := 0; limit <= n+1; limit++ {
			for mask := 0; mask < 1<<uint(maxInt(n-1, 0)); mask++ {
				var cuts []int
				for i := 1; i < n; i++ {
					if mask&(1<<uint(i-1)) != 0 {
						cuts = append(cuts, i)
					}
				}
				for _, tail := range []string{"eof", "ueof", "err", "coded:14:1"} {
					for _, wd := range []bool{false, true} {
						envOp(c, fmt.Sprintf("env.drain limit=%d tail=%s flat=%s seg=%s wd=%d", limit, tail, hx(body), showCuts(cuts), b2i(wd)))
					}
				}
			}
		}
	}
	discardBoundaryProbe(c)
	r := c.Rng
	exhaustLen := 13
	if c.Thorough() {
		exhaustLen = 16
	}
	// small bodies: all 2^(n-1) segmentations x both EOF styles
	small := [][]byte{
		frame(0, []byte{7}),
		append(frame(0, []byte{7, 8}), frame(0, nil)...),
		append(frame(0, nil), frame(0, []byte{9})...),
		append(frame(0, []byte{1, 2, 3}), frame(2, []byte("{}"))...)[:exhaustLen],
		append(frame(1, rleCompress([]byte{5, 5, 5, 5})), frame(0, nil)...),
		frame(0, []byte{1, 2, 3, 4, 5, 6, 7, 8})[:exhaustLen],
		append(frame(0, nil), frame(0, nil)...),
		frame(128, []byte("a: b\r\n")),
		{0, 0, 0, 0}, // incomplete prefix
		append(frame(0, []byte{7}), 0, 0, 0),
	}
	for _, body := range small {
		if len(body) > exhaustLen {
			body = body[:exhaustLen]
		}
		n := len(body)
		for mask := 0; mask < 1<<uint(n-1); mask++ {
			var cuts []int
			for i := 1; i < n; i++ {
				if mask&(1<<uint(i-1)) != 0 {
					cuts = append(cuts, i)
				}
			}
			for _, wd := range []bool{false, true} {
				segCheck(c, recvOpLine(true, 0, "eof", body, cuts, wd))
			}
		}
	}
	c.exhaust = true
	c.Note("bodies up to %d bytes: all 2^(n-1) segmentations x {EOF with data, EOF separately}", exhaustLen)
	// larger bodies: 1-byte chunks, cuts inside every prefix, at payload boundaries ±1, random
	nBodies := 150
	if c.Thorough() {
		nBodies = 2500
	}
	for i := 0; i < nBodies; i++ {
		comp := r.Bool()
		flat, _, bounds := genBody(r, comp, 6, 70)
		if !comp && r.Chance(20) { // compressed flag although the reader has no decompressor
			flat = append(flat, frame(1, rleCompress([]byte{4, 4, 4, 9}))...)
			flat = append(flat, frame(0, []byte{8})...)
		}
		if r.Chance(30) {
			flat = append(flat, frame([]byte{2, 3, 128, 129, 4}[r.Intn(5)], []byte("{}"))...)
		}
		if len(flat) == 0 {
			continue
		}
		tails := []string{"eof", "eof", "ueof", "err", "coded:1:0", "coded:2:1"}
		tail := tails[r.Intn(len(tails))]
		max := []int{0, 0, 16, 64}[r.Intn(4)]
		var all []int
		for j := 1; j < len(flat); j++ {
			all = append(all, j)
		}
		segs := [][]int{nil, all}
		var adv []int
		prev := 0
		for _, b := range append(bounds, len(flat)) {
			for _, d := range []int{1, 2, 3, 4, 5, 6} {
				adv = append(adv, prev+d)
			}
			adv = append(adv, b-1, b, b+1)
			prev = b
		}
		segs = append(segs, sortedUnique(adv, len(flat)))
		for k := 0; k < 6; k++ {
			segs = append(segs, randomCuts(r, len(flat), 1+r.Intn(8)))
		}
		for _, cuts := range segs {
			segCheck(c, recvOpLine(comp, max, tail, flat, cuts, r.Bool()))
		}
	}
}

func sortedUnique(xs []int, n int) []int {
	seen := map[int]bool{}
	var out []int
	for i := 1; i < n; i++ {
		for _, x := range xs {
			if x == i && !seen[i] {
				seen[i] = true
				out = append(out, i)
			}
		}
	}
	return out
}

// segCheck: run the op, and hold its outcome against the one-piece delivery (the oracle of C03).
func segCheck(c *Ctx, op string) {
	ans := envOp(c, op)
	a := kvArgs(strings.Fields(op))
	max, _ := strconv.Atoi(a["max"])
	whole := safely(func() string {
		return showYields(envRecvImpl(a["comp"] == "1", max, a["tail"], unhx(a["flat"]), nil, false))
	})
	c.Count("tail:" + strings.SplitN(a["tail"], ":", 2)[0])
	if ans != whole {
		c.Fail("segmentation-dependent", op, ans, "outcome differs from one-piece delivery, which gives: "+whole)
	}
}

func maxInt(a, b int) int {
	if a > b {
		return a
	}
	return b
}

// discardBoundaryProbe (C03, F43, oracle only): the real thing. A gRPC response whose first
// message the codec rejects, a tail of about 4 MiB (the drain's budget) behind it, the server's
// error in the HTTP trailers - which a transport fills in when it reports the end of the body:
// what the client reports must not depend on whether that end comes with the last bytes or
// after them, nor on the size of the reads.
func discardBoundaryProbe(c *Ctx) {
	const budget = 4 << 20
	for _, tailLen := range []int{budget - 1, budget, budget + 1, budget + 2} {
		desc := fmt.Sprintf("gRPC response: a message the codec rejects, then %d more bytes (the drain reads %d), Grpc-Status 7 in the HTTP trailers", tailLen, budget)
		c.Count("probe-discard-boundary")
		body := frame(0, []byte{0xEE, 1, 2})
		body = append(body, envPrefix(0, tailLen-5)...)
		body = append(body, make([]byte, tailLen-5)...)
		run := func(shape transportShape) string {
			return safely(func() string {
				sc := &shapedClient{status: 200, header: http.Header{"Content-Type": {"application/grpc+raw"}}, trailer: http.Header{"Grpc-Status": {"7"}, "Grpc-Message": {"nope"}}, body: body, shape: shape}
				cl := connect.NewClient[[]byte, []byte](sc, "http://h/s/m", connect.WithGRPC(), connect.WithCodec(rawCodec{"raw"}))
				_, err := cl.CallUnary(context.Background(), connect.NewRequest(&[]byte{1}))
				return codeName(err)
			})
		}
		ref := run(transportShape{chunk: 0, eofWithData: false})
		for _, shape := range []transportShape{{chunk: 0, eofWithData: true}, {chunk: 65536, eofWithData: true}, {chunk: 4096, eofWithData: false}} {
			if got := run(shape); got != ref {
				c.Fail("segmentation-dependent-trailers", desc, fmt.Sprintf("reads of %d bytes, end with the last bytes=%v: %s | one piece, end reported separately: %s", shape.chunk, shape.eofWithData, got, ref), "what the client reports depends on how the transport delivers the end of the body")
			}
		}
	}
}

// S-cut (C04, envelope level): every cut offset of a valid body x tails.
func streamCut(c *Ctx) {
	if replayOp != "" {
		cutCheck(c, replayOp, nil, nil)
		return
	}
	r := c.Rng
	nBodies := 120
	if c.Thorough() {
		nBodies = 1500
	}
	for i := 0; i < nBodies; i++ {
		comp := r.Bool()
		maxLen := 40
		if i%10 == 0 {
			maxLen = 300
		}
		flat, sent, bounds := genBody(r, comp, 5, maxLen)
		if len(flat) == 0 {
			flat, sent, bounds = frame(0, []byte{1, 2, 3}), [][]byte{{1, 2, 3}}, []int{8}
		}
		for k := 0; k <= len(flat); k++ {
			for _, tail := range []string{"eof", "ueof", "err"} {
				if tail != "eof" && k%3 != 0 && k != len(flat) {
					continue
				}
				cuts := randomCuts(r, k, r.Intn(4))
				op := recvOpLine(comp, 0, tail, flat[:k], cuts, r.Bool())
				cutCheck(c, op, sent, append([]int{0}, bounds...))
				if i%4 == 1 {
					// the same with a read limit that some of the messages exceed: a body that stops inside
					// a message that is being skipped is no cleaner than one that stops inside any other
					cutCheck(c, recvOpLine(comp, 8, tail, flat[:k], cuts, r.Bool()), sent, append([]int{0}, bounds...))
				}
			}
		}
	}
}

// cutCheck: oracle of C04 at the envelope level: a stream that stops inside a frame, or fails,
// never ends cleanly; what was delivered before is a prefix of what was sent.
func cutCheck(c *Ctx, op string, sent [][]byte, bounds []int) {
	ans := envOp(c, op)
	a := kvArgs(strings.Fields(op))
	flat := unhx(a["flat"])
	ys := strings.Fields(ans)
	if len(ys) == 0 {
		c.Fail("cut-no-result", op, ans, "no result")
		return
	}
	last := ys[len(ys)-1]
	atBoundary := false
	if bounds == nil { // replay: recompute frame boundaries from the bytes
		atBoundary = frameBoundary(flat)
	} else {
		for _, b := range bounds {
			if b == len(flat) {
				atBoundary = true
			}
		}
	}
	cleanEnd := strings.HasPrefix(last, "e:") && strings.HasSuffix(last, ":1")
	c.Count(fmt.Sprintf("boundary=%v tail=%s clean=%v", atBoundary, a["tail"], cleanEnd))
	if !strings.HasPrefix(last, "e:") {
		c.Fail("cut-not-error", op, ans, "a truncated stream did not end with an error result")
		return
	}
	if strings.HasPrefix(last, "e:0:") {
		c.Fail("cut-zero-code", op, ans, "error with the zero code")
	}
	if cleanEnd && (!atBoundary || a["tail"] != "eof") {
		c.Fail("cut-clean-end", op, ans, "the stream stopped mid-message or failed, yet the receiver sees a clean end of stream (error wrapping io.EOF)")
	}
	undecodable := false
	for _, p := range sent {
		if len(p) > 0 && p[0] == 0xEE {
			undecodable = true // the toy codec rejects these: the stream ends there with invalid_argument
		}
	}
	if sent == nil { // replay: look at the frames themselves
		for rest := flat; len(rest) >= 5; {
			n := int(rest[1])<<24 | int(rest[2])<<16 | int(rest[3])<<8 | int(rest[4])
			if len(rest) < 5+n {
				break
			}
			p := rest[5 : 5+n]
			if rest[0]&1 != 0 {
				p, _ = rleExpand(p, 1<<20)
			}
			if len(p) > 0 && p[0] == 0xEE {
				undecodable = true
			}
			rest = rest[5+n:]
		}
	}
	if !cleanEnd && atBoundary && a["tail"] == "eof" && atoi(a["max"]) == 0 && !undecodable {
		c.Fail("boundary-not-clean", op, ans, "a stream that ends cleanly at a frame boundary must end with the EOF-wrapping error")
	}
	if sent != nil {
		for i, y := range ys[:len(ys)-1] {
			if i >= len(sent) || y != "m:"+hx(sent[i]) {
				c.Fail("cut-not-prefix", op, ans, "delivered messages are not a prefix of the messages sent")
				break
			}
		}
	}
}

func frameBoundary(flat []byte) bool {
	for len(flat) >= 5 {
		n := int(flat[1])<<24 | int(flat[2])<<16 | int(flat[3])<<8 | int(flat[4])
		if len(flat) < 5+n {
			return false
		}
		flat = flat[5+n:]
	}
	return len(flat) == 0
}

// S-lim (C09, envelope level): limit N, sizes around it, lying prefixes, expanding payloads.
// eagerDecompressor offers io.WriterTo (as the zstd decoder of klauspost/compress does) and counts
// what is written through it: everything that goes that way ends up in the receiver's buffer.
type eagerDecompressor struct {
	rleDecompressor
	buffered *int64
}

func (d *eagerDecompressor) WriteTo(w io.Writer) (int64, error) {
	var total int64
	buf := make([]byte, 32<<10)
	for {
		n, err := d.rleDecompressor.Read(buf)
		if n > 0 {
			total += int64(n)
			if _, intoBuffer := w.(*bytes.Buffer); intoBuffer { // (io.Discard is how the rest is measured)
				atomic.AddInt64(d.buffered, int64(n))
			}
			if _, werr := w.Write(buf[:n]); werr != nil {
				return total, werr
			}
		}
		if err == io.EOF {
			return total, nil
		}
		if err != nil {
			return total, err
		}
	}
}

// eagerDecompressorProbe: whatever conveniences a decompressor offers, the receiver buffers what
// the limit allows and one byte of a message - not its whole expansion (round 10, C09-mm).
func eagerDecompressorProbe(c *Ctx) {
	const limit = 1 << 10
	for _, proto := range []string{"connect", "grpc", "grpcweb"} {
		var buffered int64
		h := connect.NewUnaryHandler("/s/m", func(ctx context.Context, r *connect.Request[[]byte]) (*connect.Response[[]byte], error) {
			return connect.NewResponse(&[]byte{1}), nil
		}, connect.WithCodec(rawCodec{"raw"}), connect.WithReadMaxBytes(limit),
			connect.WithCompression("rle", func() connect.Decompressor { return &eagerDecompressor{buffered: &buffered} }, newRLECompressor))
		z := bytes.Repeat([]byte{255, 5}, 400) // 800 wire bytes that expand to 102000
		body := z
		if proto != "connect" {
			body = frame(1, z)
		}
		req := httptest.NewRequest(http.MethodPost, "/s/m", bytes.NewReader(body))
		req.ProtoMajor, req.ProtoMinor, req.Proto = 2, 0, "HTTP/2.0"
		req.Header.Set("Content-Type", ctFor(proto, "unary", "raw"))
		encH, _ := encHeaderFor(proto, "unary")
		req.Header.Set(encH, "rle")
		rec := httptest.NewRecorder()
		h.ServeHTTP(rec, req)
		code, _ := responseErrorCode(proto, "unary", rec)
		got := atomic.LoadInt64(&buffered)
		c.Count("eager-decompressor-probe")
		if code != 3 || got > limit+1 {
			c.Fail("limit-buffered-beyond", fmt.Sprintf("%s unary request of %d wire bytes that expand to 102000, read limit %d, decompressor that offers WriteTo", proto, len(z), limit), fmt.Sprintf("code=%d, %d bytes written into the receiver's buffer", code, got), "the message is refused as invalid_argument and the receiver buffers at most limit+1 bytes of it")
		}
	}
}

func streamLimit(c *Ctx) {
	if replayOp != "" {
		if strings.HasPrefix(replayOp, "rlim ") { // emitted by the option-order probes: run them again
			readLimitOptionOrderProbes(c, "limit-within-rejected")
			return
		}
		limitCheck(c, replayOp)
		return
	}
	eagerDecompressorProbe(c)
	// the transport fails while an over-limit message is being thrown away (F19): an error that
	// already carries a code keeps it; one that wraps io.EOF is the body running out
	for _, n := range []int{4, 64} {
		for _, tail := range []string{"coded:1:0", "coded:4:0", "coded:14:1", "err", "ueof", "eof"} {
			for _, have := range []int{0, 3, n + 4} {
				over := frame(0, bytes.Repeat([]byte{7}, n+9))
				flat := append(frame(0, []byte{1}), over[:5+have]...)
				limitCheck(c, recvOpLine(false, n, tail, flat, nil, false))
			}
		}
	}
	r := c.Rng
	limits := []int{1, 2, 5, 16, 100, 255, 256, 1024}
	if c.Thorough() {
		limits = append(limits, 4096, 65536)
	}
	for _, n := range limits {
		for _, size := range []int{0, 1, n - 1, n, n + 1, 2*n + 3, 10 * n} {
			if size < 0 {
				continue
			}
			for pos := 0; pos < 3; pos++ {
				var flat []byte
				for j := 0; j < pos; j++ {
					flat = append(flat, frame(0, []byte{byte(j + 1)})...)
				}
				payload := bytes.Repeat([]byte{0x41}, size)
				// plain
				limitCheck(c, recvOpLine(true, n, "eof", append(append([]byte(nil), flat...), frame(0, payload)...), randomCuts(r, len(flat)+5+size, 3), r.Bool()))
				// compressed: wire small, decompressed = size
				limitCheck(c, recvOpLine(true, n, "eof", append(append([]byte(nil), flat...), frame(1, rleCompress(payload))...), nil, false))
				// compressed with mixed content so that the wire size is near the limit as well
				mixed := r.Bytes(size)
				for i := range mixed {
					if mixed[i] == 0xEE {
						mixed[i] = 1
					}
				}
				limitCheck(c, recvOpLine(true, n, "eof", append(append([]byte(nil), flat...), frame(1, rleCompress(mixed))...), nil, false))
			}
		}
		// compressed and over the limit ON THE WIRE by a hair while the decompressed size is within
		// it (incompressible content costs RLE two bytes per byte): the wire size alone decides
		for _, wire := range []int{n + 1, n + 2, n + n/16 + 1, n + n/8, n + n/8 + 1, n + n/4 + 2} {
			half := wire / 2 // that many distinct neighbours -> 2*half bytes on the wire
			if half == 0 || half > n {
				continue
			}
			payload := make([]byte, half)
			for i := range payload {
				payload[i] = byte(1 + i%200)
				if payload[i] == 0xEE {
					payload[i] = 2
				}
			}
			limitCheck(c, recvOpLine(true, n, "eof", append(frame(1, rleCompress(payload)), frame(0, []byte{1})...), nil, false))
		}
		// lying prefixes: declared length vs bytes present
		for _, declared := range []int{n + 1, 1 << 16, 1 << 24, 1<<24 + 1, 1 << 26, 1<<32 - 1, 256, 65536, 16777216 * 3} {
			for _, present := range []int{0, 1, 3, n} {
				body := append(envPrefix(0, declared), bytes.Repeat([]byte{7}, present)...)
				if present > declared {
					continue
				}
				for _, tail := range []string{"eof", "ueof", "err"} {
					limitCheck(c, recvOpLine(false, n, tail, body, nil, r.Bool()))
				}
			}
		}
	}
	// limits beyond 32 bits: every message that fits in an envelope is within the limit
	for _, n := range []int{1 << 32, 1<<32 + 5, 1 << 33, 1<<40 + 3} {
		for _, size := range []int{0, 1, 7, 300} {
			payload := bytes.Repeat([]byte{0x42}, size)
			limitCheck(c, recvOpLine(true, n, "eof", append(frame(0, []byte{1}), frame(0, payload)...), nil, false))
			limitCheck(c, recvOpLine(true, n, "eof", frame(1, rleCompress(payload)), nil, false))
		}
	}
	unaryLengthProbes(c)
	unaryEncodedBulkProbes(c)
	declaredSmallLengthProbe(c)
	afterHugeOversizeProbe(c)
	compressedTerminatorProbes(c)
	readLimitOptionOrderProbes(c, "limit-within-rejected")
	highRatioProbes(c)
	// random mixes
	nRand := 400
	if c.Thorough() {
		nRand = 6000
	}
	for i := 0; i < nRand; i++ {
		n := 1 + r.Intn(64)
		comp := r.Bool()
		flat, _, _ := genBody(r, comp, 5, 2*n+4)
		limitCheck(c, recvOpLine(comp, n, "eof", flat, randomCuts(r, len(flat), r.Intn(5)), r.Bool()))
	}
	// allocation bound with a real streaming decompressor (gzip bomb) and lying prefixes:
	// oracle only (gzip is not modelled in Lean)
	for _, n := range []int{1024, 65536} {
		var zipped bytes.Buffer
		zw := gzip.NewWriter(&zipped)
		_, _ = zw.Write(make([]byte, 24<<20))
		_ = zw.Close()
		if zipped.Len() <= n || n == 1024 {
			body := frame(1, zipped.Bytes())
			alloc, ys := measureRecv(body, n, true)
			c.Count("gzip-bomb")
			last := ys[len(ys)-1]
			if last.IsMsg || last.Code != connect.CodeInvalidArgument {
				c.Fail("limit-bomb-accepted", fmt.Sprintf("gzip bomb 24MiB max=%d wire=%d", n, zipped.Len()), showYields(ys), "oversize decompressed message not rejected with invalid_argument")
			}
			if alloc > uint64(8*n+len(body)*3+(1<<20)) {
				c.Fail("limit-bomb-buffered", fmt.Sprintf("gzip bomb 24MiB max=%d wire=%d", n, zipped.Len()), fmt.Sprintf("allocated %d bytes", alloc), "receiver buffered far more than the read limit for one highly compressible message")
			}
		}
		for _, declared := range []int{1 << 26, 1<<32 - 1} {
			body := append(envPrefix(0, declared), 1, 2, 3)
			alloc, _ := measureRecv(body, n, false)
			c.Count("lying-prefix-alloc")
			if alloc > uint64(8*n+(1<<20)) {
				c.Fail("limit-lying-prefix-buffered", fmt.Sprintf("declared=%d present=3 max=%d", declared, n), fmt.Sprintf("allocated %d bytes", alloc), "receiver allocated for the declared length although it exceeds the read limit")
			}
		}
	}
}

// unaryLengthProbes: the unary Connect handler reads the whole body as one message; a peer that
// *declares* a huge Content-Length and sends little must not make it reserve that much
// (oracle only: allocation is not modelled).
func unaryLengthProbes(c *Ctx) {
	for _, n := range []int{1024, 65536} {
		for _, declared := range []int64{64 << 20, 1 << 30} {
			h := connect.NewUnaryHandler("/s/m", func(ctx context.Context, r *connect.Request[[]byte]) (*connect.Response[[]byte], error) {
				return connect.NewResponse(&[]byte{1}), nil
			}, connect.WithCodec(rawCodec{"raw"}), connect.WithReadMaxBytes(n))
			desc := fmt.Sprintf("unary Connect request, Content-Length %d declared, %d bytes sent, max=%d", declared, 2*n, n)
			var alloc uint64
			got := safely(func() string {
				runtime.GC()
				var before, after runtime.MemStats
				runtime.ReadMemStats(&before)
				req := httptest.NewRequest(http.MethodPost, "/s/m", &scriptReader{chunks: [][]byte{bytes.Repeat([]byte{7}, 2*n)}, tail: io.EOF})
				req.ProtoMajor, req.ProtoMinor, req.Proto = 2, 0, "HTTP/2.0"
				req.Header.Set("Content-Type", "application/raw")
				req.ContentLength = declared
				rec := httptest.NewRecorder()
				h.ServeHTTP(rec, req)
				runtime.ReadMemStats(&after)
				alloc = after.TotalAlloc - before.TotalAlloc
				return fmt.Sprintf("status=%d", rec.Code)
			})
			c.Count("unary-length-probe")
			if got != "status=400" {
				c.Fail("limit-within-rejected", desc, got, "an over-limit unary request must be rejected as invalid_argument (HTTP 400)")
			}
			if alloc > uint64(8*n+(2<<20)) {
				c.Fail("limit-lying-prefix-buffered", desc, fmt.Sprintf("allocated %d bytes", alloc), "receiver allocated for the declared length although it exceeds the read limit")
			}
		}
	}
}

// unaryEncodedBulkProbes: the same for a unary Connect body that names a Content-Encoding: the
// limit bounds what is buffered from the wire whether or not the body claims to be compressed
// (the bytes need not even be valid for the algorithm). Handler and client side.
func unaryEncodedBulkProbes(c *Ctx) {
	const wire = 16 << 20
	for _, n := range []int{1024, 65536} {
		for _, side := range []string{"handler", "client"} {
			for _, enc := range []string{"gzip", "rle"} {
				desc := fmt.Sprintf("unary Connect %s, Content-Encoding %s, %d bytes on the wire, max=%d", side, enc, wire, n)
				var alloc uint64
				got := safely(func() string {
					bulk := bytes.Repeat([]byte{7}, wire)
					runtime.GC()
					var before, after runtime.MemStats
					var out string
					if side == "handler" {
						h := connect.NewUnaryHandler("/s/m", func(ctx context.Context, r *connect.Request[[]byte]) (*connect.Response[[]byte], error) {
							return connect.NewResponse(&[]byte{1}), nil
						}, connect.WithCodec(rawCodec{"raw"}), connect.WithReadMaxBytes(n), connect.WithCompression("rle", newRLEDecompressor, newRLECompressor))
						req := httptest.NewRequest(http.MethodPost, "/s/m", &scriptReader{chunks: [][]byte{bulk}, tail: io.EOF})
						req.ProtoMajor, req.ProtoMinor, req.Proto = 2, 0, "HTTP/2.0"
						req.Header.Set("Content-Type", "application/raw")
						req.Header.Set("Content-Encoding", enc)
						req.ContentLength = -1
						rec := httptest.NewRecorder()
						runtime.ReadMemStats(&before)
						h.ServeHTTP(rec, req)
						runtime.ReadMemStats(&after)
						out = fmt.Sprintf("status=%d", rec.Code)
					} else {
						bc := &bodyClient{status: 200, header: http.Header{"Content-Type": {"application/raw"}, "Content-Encoding": {enc}},
							body: io.NopCloser(&scriptReader{chunks: [][]byte{bulk}, tail: io.EOF})}
						cl := connect.NewClient[[]byte, []byte](bc, "http://h/s/m", connect.WithCodec(rawCodec{"raw"}), connect.WithReadMaxBytes(n),
							connect.WithAcceptCompression("rle", newRLEDecompressor, newRLECompressor))
						runtime.ReadMemStats(&before)
						_, err := cl.CallUnary(context.Background(), connect.NewRequest(&[]byte{1}))
						runtime.ReadMemStats(&after)
						out = "code=" + codeOrOK(err)
					}
					alloc = after.TotalAlloc - before.TotalAlloc
					return out
				})
				c.Count("unary-encoded-bulk-probe")
				if got != "status=400" && got != "code=invalid_argument" {
					c.Fail("limit-within-rejected", desc, got, "an over-limit unary body must be rejected as invalid_argument")
				}
				if alloc > uint64(8*n+(2<<20)) {
					c.Fail("limit-encoded-bulk-buffered", desc, fmt.Sprintf("allocated %d bytes", alloc), "receiver buffered far more than its read limit from the wire because the body names a Content-Encoding")
				}
			}
		}
	}
}

// declaredSmallLengthProbe (C09, oracle only): "a peer cannot make the receiver buffer
// substantially more than N bytes by declaring a false length" - also a length that is too
// *small*: a unary request that declares 16 bytes and carries 32 MiB (no HTTP server between the
// handler and the bytes here; a middleware that swaps the body does the same) is rejected without
// being buffered (round 11, C09-mo).
func declaredSmallLengthProbe(c *Ctx) {
	const wire = 32 << 20
	for _, n := range []int{1024, 65536} {
		desc := fmt.Sprintf("unary Connect handler, max=%d, request declares Content-Length 16 and carries %d bytes", n, wire)
		var alloc uint64
		got := safely(func() string {
			bulk := bytes.Repeat([]byte{7}, wire)
			h := connect.NewUnaryHandler("/s/m", func(ctx context.Context, r *connect.Request[[]byte]) (*connect.Response[[]byte], error) {
				return connect.NewResponse(&[]byte{1}), nil
			}, connect.WithCodec(rawCodec{"raw"}), connect.WithReadMaxBytes(n))
			req := httptest.NewRequest(http.MethodPost, "/s/m", &scriptReader{chunks: [][]byte{bulk}, tail: io.EOF})
			req.ProtoMajor, req.ProtoMinor, req.Proto = 2, 0, "HTTP/2.0"
			req.Header.Set("Content-Type", "application/raw")
			req.Header.Set("Content-Length", "16")
			req.ContentLength = 16
			rec := httptest.NewRecorder()
			runtime.GC()
			var before, after runtime.MemStats
			runtime.ReadMemStats(&before)
			h.ServeHTTP(rec, req)
			runtime.ReadMemStats(&after)
			alloc = after.TotalAlloc - before.TotalAlloc
			return fmt.Sprintf("status=%d", rec.Code)
		})
		c.Count("declared-small-length-probe")
		if got != "status=400" {
			c.Fail("limit-within-rejected", desc, got, "an over-limit unary body must be rejected as invalid_argument")
		}
		if alloc > uint64(8*n+(2<<20)) {
			c.Fail("limit-declared-length-buffered", desc, fmt.Sprintf("allocated %d bytes", alloc), "the receiver buffered far more than its read limit because the request declared a small length")
		}
	}
}

// afterHugeOversizeProbe (C09, oracle only): "at every position in a stream": a message over the
// limit is skipped whole, however large it is, so that the messages behind it are framed
// correctly: [1 byte][6 MiB][1 byte] under a 1 KiB limit gives message, size error, message, end
// to a handler that goes on receiving (round 11, C09-mp: the skip capped at 4 MiB).
func afterHugeOversizeProbe(c *Ctx) {
	const big = 6 << 20
	for _, proto := range []string{"connect", "grpc", "grpcweb"} {
		desc := fmt.Sprintf("%s bidi handler, read limit 1024, request [1 byte][%d bytes][1 byte], Receive continues after the size error", proto, big)
		c.Count("after-huge-oversize-probe")
		got := safely(func() string {
			payload := make([]byte, big)
			// the tail of the big message looks like envelopes, so that a reader left inside it
			// delivers something
			for i := 4<<20 + 1000; i+6 <= big; i += 6 {
				copy(payload[i:], []byte{0, 0, 0, 0, 1, 0x55})
			}
			flat := append(frame(0, []byte{1}), frame(0, payload)...)
			flat = append(flat, frame(0, []byte{7})...)
			var seen []string
			h := connect.NewBidiStreamHandler("/s/m", func(ctx context.Context, s *connect.BidiStream[[]byte, []byte]) error {
				for i := 0; i < 8; i++ {
					m, err := s.Receive()
					switch {
					case err == nil:
						seen = append(seen, "m:"+hx(*m))
					case errors.Is(err, io.EOF):
						seen = append(seen, "eof")
						return nil
					default:
						seen = append(seen, "e:"+connect.CodeOf(err).String())
					}
				}
				return nil
			}, connect.WithCodec(rawCodec{"raw"}), connect.WithReadMaxBytes(1024))
			req := httptest.NewRequest(http.MethodPost, "/s/m", &scriptReader{chunks: segment(flat, []int{6, 6 + 5 + 3<<20}), tail: io.EOF})
			req.ProtoMajor, req.ProtoMinor, req.Proto = 2, 0, "HTTP/2.0"
			req.Header.Set("Content-Type", map[string]string{"connect": "application/connect+raw", "grpc": "application/grpc+raw", "grpcweb": "application/grpc-web+raw"}[proto])
			h.ServeHTTP(httptest.NewRecorder(), req)
			return strings.Join(seen, " ")
		})
		if got != "m:01 e:invalid_argument m:07 eof" {
			c.Fail("limit-after-oversize-misframed", desc, got[:min(len(got), 200)], "the handler must see: message, size error, message, end")
		}
	}
}

// repCompressor: "n copies of byte b" as 5 bytes per run - an algorithm whose expansion ratio has
// no useful bound (nothing entitles a receiver to assume DEFLATE's).
type repCompressor struct {
	w   io.Writer
	buf bytes.Buffer
}

func (c *repCompressor) Write(p []byte) (int, error) { return c.buf.Write(p) }
func (c *repCompressor) Close() error {
	data := c.buf.Bytes()
	var out []byte
	for i := 0; i < len(data); {
		j := i
		for j < len(data) && data[j] == data[i] {
			j++
		}
		n := j - i
		out = append(out, byte(n>>24), byte(n>>16), byte(n>>8), byte(n), data[i])
		i = j
	}
	_, err := c.w.Write(out)
	return err
}
func (c *repCompressor) Reset(w io.Writer) { c.w = w; c.buf.Reset() }

type repDecompressor struct {
	src  io.Reader
	run  int
	b    byte
	done bool
}

func (d *repDecompressor) Read(p []byte) (int, error) {
	n := 0
	for n < len(p) {
		if d.run == 0 {
			var h [5]byte
			if _, err := io.ReadFull(d.src, h[:]); err != nil {
				if n > 0 {
					return n, nil
				}
				if err == io.ErrUnexpectedEOF {
					return 0, errors.New("rep: truncated run")
				}
				return 0, err
			}
			d.run, d.b = int(h[0])<<24|int(h[1])<<16|int(h[2])<<8|int(h[3]), h[4]
			continue
		}
		k := d.run
		if k > len(p)-n {
			k = len(p) - n
		}
		for i := 0; i < k; i++ {
			p[n+i] = d.b
		}
		n += k
		d.run -= k
	}
	return n, nil
}
func (d *repDecompressor) Close() error            { return nil }
func (d *repDecompressor) Reset(r io.Reader) error { d.src, d.run = r, 0; return nil }
func newRepCompressor() connect.Compressor         { return &repCompressor{} }
func newRepDecompressor() connect.Decompressor     { return &repDecompressor{} }

// highRatioProbes (oracle only): with a registered algorithm that expands 5 bytes to a megabyte
// the limit still bounds what is delivered and what is buffered - on the handler and on the
// client - while a message of half the limit passes.
func highRatioProbes(c *Ctx) {
	const n = 65536
	for _, proto := range []string{"connect", "grpc", "grpcweb"} {
		for _, side := range []string{"handler", "client"} {
			for _, size := range []int{n / 2, 1 << 20} {
				desc := fmt.Sprintf("%s unary call, algorithm \"rep\" (5 bytes per run), a %d-byte message of one repeated byte travelling towards the %s whose limit is %d", proto, size, side, n)
				c.Count("limit-high-ratio-probe")
				var alloc uint64
				got := safely(func() string {
					hopts := []connect.HandlerOption{connect.WithCodec(rawCodec{"raw"}), connect.WithCompression("rep", newRepDecompressor, newRepCompressor)}
					copts := []connect.ClientOption{connect.WithCodec(rawCodec{"raw"}), connect.WithAcceptCompression("rep", newRepDecompressor, newRepCompressor), connect.WithSendCompression("rep")}
					if side == "handler" {
						hopts = append(hopts, connect.WithReadMaxBytes(n))
					} else {
						copts = append(copts, connect.WithReadMaxBytes(n))
					}
					if proto == "grpc" {
						copts = append(copts, connect.WithGRPC())
					} else if proto == "grpcweb" {
						copts = append(copts, connect.WithGRPCWeb())
					}
					ran := false
					h := connect.NewUnaryHandler("/s/m", func(ctx context.Context, r *connect.Request[[]byte]) (*connect.Response[[]byte], error) {
						ran = true
						out := []byte{1}
						if side == "client" {
							out = bytes.Repeat([]byte{8}, size)
						}
						return connect.NewResponse(&out), nil
					}, hopts...)
					cl := connect.NewClient[[]byte, []byte](&inprocClient{h: h}, "http://h/s/m", copts...)
					msg := []byte{1}
					if side == "handler" {
						msg = bytes.Repeat([]byte{8}, size)
					}
					runtime.GC()
					var before, after runtime.MemStats
					runtime.ReadMemStats(&before)
					res, err := cl.CallUnary(context.Background(), connect.NewRequest(&msg))
					runtime.ReadMemStats(&after)
					alloc = after.TotalAlloc - before.TotalAlloc
					if err != nil {
						return fmt.Sprintf("rejected: %s (handler ran: %v)", connect.CodeOf(err), ran && side == "handler")
					}
					return fmt.Sprintf("accepted %d bytes", len(*res.Msg))
				})
				if size <= n {
					if !strings.HasPrefix(got, "accepted") {
						c.Fail("limit-within-rejected", desc, got, "a message within the limit was not delivered")
					}
					continue
				}
				if got != "rejected: invalid_argument (handler ran: false)" {
					c.Fail("limit-oversize-delivered", desc, got, "a message that decompresses to 16 times the limit must fail with invalid_argument before it reaches user code")
				}
				if alloc > uint64(8*n+(3<<20)) {
					c.Fail("limit-encoded-bulk-buffered", desc, fmt.Sprintf("allocated %d bytes", alloc), "receiver inflated far more than its read limit")
				}
			}
		}
	}
}

// readLimitOptionOrderProbes (oracle only): options are applied in order, the last
// WithReadMaxBytes is the limit N (0 = none) - a shared base configuration with a later override,
// nested in WithOptions or not, on the handler or on the client. A 1000-byte message is
// accepted iff it is at most N.
func readLimitOptionOrderProbes(c *Ctx, key string) {
	type tc struct {
		limits []int
		accept bool
	}
	for _, t := range []tc{{[]int{64, 4096}, true}, {[]int{64, 0}, true}, {[]int{4096, 64}, false}, {[]int{0, 64}, false}, {[]int{64, 64, 2000}, true}} {
		for _, side := range []string{"handler", "client"} {
			for _, proto := range []string{"connect", "grpc", "grpcweb"} {
				for _, nested := range []bool{false, true} {
					desc := fmt.Sprintf("WithReadMaxBytes given as %v (nested in WithOptions: %v) on the %s, %s unary echo of a 1000-byte message", t.limits, nested, side, proto)
					c.Count("limit-option-order")
					got := safely(func() string {
						var lim []connect.Option
						for _, n := range t.limits {
							lim = append(lim, connect.WithReadMaxBytes(n))
						}
						if nested {
							lim = []connect.Option{connect.WithOptions(lim[0], connect.WithOptions(lim[1:]...))}
						}
						hopts := []connect.HandlerOption{connect.WithCodec(rawCodec{"raw"})}
						copts := []connect.ClientOption{connect.WithCodec(rawCodec{"raw"})}
						for _, o := range lim {
							if side == "handler" {
								hopts = append(hopts, o)
							} else {
								copts = append(copts, o)
							}
						}
						if proto == "grpc" {
							copts = append(copts, connect.WithGRPC())
						} else if proto == "grpcweb" {
							copts = append(copts, connect.WithGRPCWeb())
						}
						h := connect.NewUnaryHandler("/s/m", func(ctx context.Context, r *connect.Request[[]byte]) (*connect.Response[[]byte], error) {
							out := append([]byte{}, (*r.Msg)...)
							return connect.NewResponse(&out), nil
						}, hopts...)
						cl := connect.NewClient[[]byte, []byte](&inprocClient{h: h}, "http://h/s/m", copts...)
						msg := bytes.Repeat([]byte{9}, 1000)
						res, err := cl.CallUnary(context.Background(), connect.NewRequest(&msg))
						if err != nil {
							return "rejected: " + connect.CodeOf(err).String()
						}
						if !bytes.Equal(*res.Msg, msg) {
							return "altered"
						}
						return "accepted"
					})
					want := "accepted"
					if !t.accept {
						want = "rejected: invalid_argument"
					}
					if got != want {
						c.Fail(key, desc, got, "the last WithReadMaxBytes given is the limit: want "+want)
					}
					if key == "limit-within-rejected" { // once per run: also against the model's option fold
						var ls []string
						for _, n := range t.limits {
							ls = append(ls, strconv.Itoa(n))
						}
						c.Emit(fmt.Sprintf("rlim side=%s proto=%s nested=%d limits=%s size=1000", side, proto, b2i(nested), strings.Join(ls, ",")), got, true)
					}
				}
			}
		}
	}
}

// compressedTerminatorProbes (oracle only): the end-of-stream envelope of Connect streams and the
// trailer frame of gRPC-Web may be compressed like any other envelope; the read limit bounds
// what the receiver inflates from them as it does for messages (a peer must not be able to make
// a client with an N-byte limit buffer, parse and hand on megabytes by setting one more flag).
func compressedTerminatorProbes(c *Ctx) {
	const n = 65536
	big := strings.Repeat("a", 16<<20)
	for _, proto := range []string{"connect", "grpcweb"} {
		var plain []byte
		flags := byte(0x03)
		ct := "application/connect+raw"
		encH := "Connect-Content-Encoding"
		if proto == "connect" {
			plain = []byte(`{"metadata":{"X-Big":["` + big + `"]}}`)
		} else {
			plain = []byte("grpc-status: 0\r\nx-big: " + big + "\r\n")
			flags, ct, encH = 0x81, "application/grpc-web+raw", "Grpc-Encoding"
		}
		var zbuf bytes.Buffer
		zw := gzip.NewWriter(&zbuf)
		_, _ = zw.Write(plain)
		_ = zw.Close()
		body := append(frame(0, []byte{1, 2}), frame(flags, zbuf.Bytes())...)
		desc := fmt.Sprintf("%s server stream: one message, then a gzip-compressed terminator of %d bytes on the wire inflating to %d, client max=%d", proto, zbuf.Len(), len(plain), n)
		var alloc uint64
		got := safely(func() string {
			bc := &bodyClient{status: 200, header: http.Header{"Content-Type": {ct}, encH: {"gzip"}}, body: io.NopCloser(bytes.NewReader(body))}
			opts := []connect.ClientOption{connect.WithCodec(rawCodec{"raw"}), connect.WithReadMaxBytes(n)}
			if proto == "grpcweb" {
				opts = append(opts, connect.WithGRPCWeb())
			}
			cl := connect.NewClient[[]byte, []byte](bc, "http://h/s/m", opts...)
			runtime.GC()
			var before, after runtime.MemStats
			runtime.ReadMemStats(&before)
			st, err := cl.CallServerStream(context.Background(), connect.NewRequest(&[]byte{1}))
			if err != nil {
				return "call: " + err.Error()
			}
			msgs := 0
			for st.Receive() {
				msgs++
			}
			delivered := len(st.ResponseTrailer().Get("X-Big"))
			if ce := new(connect.Error); errors.As(st.Err(), &ce) {
				if l := len(ce.Meta().Get("X-Big")); l > delivered {
					delivered = l
				}
			}
			runtime.ReadMemStats(&after)
			alloc = after.TotalAlloc - before.TotalAlloc
			_ = st.Close()
			return fmt.Sprintf("msgs=%d err=%s trailer-bytes-delivered=%d", msgs, codeOrOK(st.Err()), delivered)
		})
		c.Count("compressed-terminator-probe")
		if !strings.HasSuffix(got, "trailer-bytes-delivered=0") || strings.Contains(got, "err=none") {
			c.Fail("limit-oversize-delivered", desc, got, "a terminator that inflates far beyond the read limit was accepted and its contents handed to the application")
		}
		if alloc > uint64(8*n+(4<<20)) {
			c.Fail("limit-encoded-bulk-buffered", desc, fmt.Sprintf("allocated %d bytes", alloc), "receiver inflated far more than its read limit from one envelope")
		}
	}
}

func measureRecv(body []byte, max int, gz bool) (uint64, []connect.VerifYield) {
	var nd func() connect.Decompressor
	var nc func() connect.Compressor
	if gz {
		nd = func() connect.Decompressor { return &gzip.Reader{} }
		nc = func() connect.Compressor { return gzip.NewWriter(io.Discard) }
	}
	runtime.GC()
	var before, after runtime.MemStats
	runtime.ReadMemStats(&before)
	ys := connect.VerifEnvelopeRecvAll(&scriptReader{chunks: [][]byte{body}, tail: io.EOF}, rawCodec{}, nd, nc, max, 4)
	runtime.ReadMemStats(&after)
	return after.TotalAlloc - before.TotalAlloc, ys
}

// limitCheck: oracle of C09: nothing larger than N is delivered, everything of at most N is.
func limitCheck(c *Ctx, op string) {
	ans := envOp(c, op)
	a := kvArgs(strings.Fields(op))
	n, _ := strconv.Atoi(a["max"])
	flat := unhx(a["flat"])
	ys := strings.Fields(ans)
	// walk the frames independently
	i := 0
	for len(flat) >= 5 && i < len(ys) {
		flags := flat[0]
		size := int(flat[1])<<24 | int(flat[2])<<16 | int(flat[3])<<8 | int(flat[4])
		if len(flat) < 5+size {
			break
		}
		payload := flat[5 : 5+size]
		flat = flat[5+size:]
		if flags > 1 {
			break
		}
		decoded, ok := payload, true
		if flags == 1 && size > 0 {
			decoded, ok = rleExpand(payload, n+1)
		}
		tooBig := size > n || len(decoded) > n
		y := ys[i]
		i++
		c.Count(fmt.Sprintf("frame toobig=%v", tooBig))
		if tooBig {
			if strings.HasPrefix(y, "m:") {
				c.Fail("limit-oversize-delivered", op, ans, fmt.Sprintf("a message of wire size %d / decoded size >= %d was delivered although the limit is %d", size, len(decoded), n))
			} else if y != "e:3:0" {
				c.Fail("limit-wrong-error", op, ans, "oversize message must fail with invalid_argument")
			}
			return
		}
		if !ok {
			return
		}
		if len(decoded) > 0 && decoded[0] == 0xEE {
			return
		}
		if y != "m:"+hx(decoded) {
			c.Fail("limit-within-rejected", op, ans, fmt.Sprintf("a message of %d bytes (limit %d) was not delivered intact", len(decoded), n))
			return
		}
	}
}

// rleExpand decodes up to cap+1 bytes (enough to know whether the limit is exceeded).
func rleExpand(z []byte, cap int) ([]byte, bool) {
	var out []byte
	for i := 0; i < len(z); i += 2 {
		if i+1 >= len(z) || z[i] == 0 {
			return out, false
		}
		out = append(out, bytes.Repeat(z[i+1:i+2], int(z[i]))...)
		if len(out) > cap {
			return out, true
		}
	}
	return out, true
}

// largeLastMessageProbe: one message just above the 8 MiB recycle cap as the LAST thing in the
// body, with the end of the body reported with its last bytes or separately, in a few
// segmentations (C03 for sizes the byte-level streams cannot afford).
func largeLastMessageProbe(c *Ctx, key string) {
	size := 8<<20 + 1
	payload := bytes.Repeat([]byte{0x5a}, size)
	payload[size-1] = 0x33
	for _, wd := range []bool{false, true} {
		for _, cuts := range [][]int{nil, {5}, {3, 4096, size}, {size + 4}} {
			ys := envRecvImpl(false, 0, "eof", frame(0, payload), cuts, wd)
			c.Count("large-last-message")
			if len(ys) != 2 || !ys[0].IsMsg || !bytes.Equal(ys[0].Msg, payload) {
				c.Fail(key, fmt.Sprintf("one %d-byte message, last in the body, cuts %v, EOF with the last bytes=%v", size, cuts, wd), showYields(ys[len(ys)-1:]), "a large message was not received intact")
			}
		}
	}
}

// S-roundtrip (C01, envelope level): what the writer emits, the reader yields, for any
// compression threshold, zero-length messages anywhere, any segmentation.
func streamRoundtrip(c *Ctx) {
	if replayOp != "" {
		if strings.HasPrefix(replayOp, "env.recv") {
			// a phantom-frame op: one real message, then a frame that announces more than is there
			if ans := envOp(c, replayOp); ans != "m:07 e:3:0" {
				c.Fail("roundtrip-phantom-message", replayOp, ans, "an envelope announcing more bytes than the stream carries must fail, without yielding a message")
			}
			return
		}
		roundtripCheck(c, replayOp)
		return
	}
	r := c.Rng
	n := 500
	if c.Thorough() {
		n = 8000
	}
	for _, declared := range []int{1, 2, 255, 256, 257, 65535, 65536, 65537, 1 << 24, 1<<24 + 1, 2 << 24, 3<<24 + 256} {
		for _, present := range []int{0, 1} {
			if present < declared {
				phantomCheck(c, declared, present)
			}
		}
	}
	largeLastMessageProbe(c, "roundtrip-large-message")
	if c.Thorough() {
		// real large messages around 2^24 and the 8 MiB recycle cap
		for _, size := range []int{8<<20 - 1, 8 << 20, 8<<20 + 1, 1<<24 - 1, 1 << 24, 1<<24 + 1} {
			payload := bytes.Repeat([]byte{0x5a}, size)
			ys := envRecvImpl(false, 0, "eof", append(frame(0, payload), frame(0, []byte{1})...), []int{3, 5, 4096, size}, true)
			c.Count("large-message")
			if len(ys) != 3 || !ys[0].IsMsg || !bytes.Equal(ys[0].Msg, payload) || !ys[1].IsMsg || len(ys[1].Msg) != 1 {
				c.Fail("roundtrip-large-message", fmt.Sprintf("one %d-byte message followed by a 1-byte message", size), showYields(ys[1:]), "a large message was not received intact")
			}
		}
	}
	// every payload size in a window around each power of two from 2^8 to 2^13 (fast paths and
	// scratch buffers have sizes like these), followed by a small message that must survive
	for k := 8; k <= 13; k++ {
		for size := 1<<uint(k) - 7; size <= 1<<uint(k)+7; size++ {
			p := r.Bytes(size)
			if p[0] == 0xEE {
				p[0] = 0x11
			}
			roundtripCheck(c, fmt.Sprintf("env.write comp=0 min=0 msgs=%s,%s extra=none", hx(p), hx([]byte{byte(k), 2})))
		}
	}
	for i := 0; i < n; i++ {
		comp := r.Bool()
		min := []int{-1, 0, 1, 3, 10, 100, 1024}[r.Intn(7)]
		k := r.Intn(7)
		var msgs []string
		for j := 0; j < k; j++ {
			maxLen := 24
			if r.Chance(10) {
				maxLen = 1500
			}
			p := genPayload(r, maxLen)
			if len(p) > 0 && p[0] == 0xEE {
				p[0] = 0x11
			}
			if j > 0 && r.Chance(30) {
				p = nil // zero-valued message after a non-zero one
			}
			msgs = append(msgs, hx(p))
		}
		extra := "none"
		if r.Chance(40) {
			extra = fmt.Sprintf("%d:%s", []int{2, 128, 2, 130}[r.Intn(4)], hx([]byte("{}")))
		}
		roundtripCheck(c, fmt.Sprintf("env.write comp=%d min=%d msgs=%s extra=%s", b2i(comp), min, strings.Join(msgs, ","), extra))
	}
}

// phantomCheck: a frame that announces more bytes than the stream carries is never delivered as
// a message (whatever the announced length looks like: multiples of 2^8, 2^16, 2^24 ...).
func phantomCheck(c *Ctx, declared, present int) {
	body := append(frame(0, []byte{7}), envPrefix(0, declared)...)
	body = append(body, bytes.Repeat([]byte{5}, present)...)
	op := recvOpLine(false, 0, "eof", body, nil, false)
	ans := envOp(c, op)
	c.Count("phantom")
	if ans != "m:07 e:3:0" {
		c.Fail("roundtrip-phantom-message", op, ans, fmt.Sprintf("an envelope announcing %d bytes with only %d present must fail, without yielding a message", declared, present))
	}
}

func roundtripCheck(c *Ctx, op string) {
	wireHex := envOp(c, op)
	if strings.HasPrefix(wireHex, "err") || strings.HasPrefix(wireHex, "PANIC") {
		c.Fail("write-failed", op, wireHex, "writing valid messages failed")
		return
	}
	a := kvArgs(strings.Fields(op))
	wire := unhx(wireHex)
	cuts := randomCuts(c.Rng, len(wire), c.Rng.Intn(6))
	recv := recvOpLine(a["comp"] == "1", 0, "eof", wire, cuts, c.Rng.Bool())
	ans := envOp(c, recv)
	var want []string
	if a["msgs"] != "" {
		for _, m := range strings.Split(a["msgs"], ",") {
			want = append(want, "m:"+m)
		}
	}
	if a["extra"] != "none" {
		parts := strings.SplitN(a["extra"], ":", 2)
		f, _ := strconv.Atoi(parts[0])
		want = append(want, fmt.Sprintf("s:%d:%s", f&^1|f&1, parts[1]))
		// the compressed bit may have been added by the writer; data is delivered decompressed
		got := strings.Fields(ans)
		if len(got) == len(want) && strings.HasPrefix(got[len(got)-1], "s:") {
			gp := strings.SplitN(got[len(got)-1], ":", 3)
			gf, _ := strconv.Atoi(gp[1])
			if gf&^1 == f&^1 && gp[2] == parts[1] {
				want[len(want)-1] = got[len(got)-1]
			}
		}
	} else {
		want = append(want, "e:2:1")
	}
	c.Count(fmt.Sprintf("comp=%s msgs=%d", a["comp"], len(want)-1))
	if ans != strings.Join(want, " ") {
		c.Fail("roundtrip-mismatch", op, ans, "messages written are not the messages read back: want "+strings.Join(want, " "))
	}
}
