package main

import (
	"context"
	"errors"
	"fmt"
	"io"
	"net/http"
	"net/http/httptest"
	"sort"
	"strings"
	"sync"
	"time"

	connect "github.com/bufbuild/connect-go"
)

// S-sync (C14): delays injected at the library's synchronisation points — every single point,
// every pair — around complete calls of every RPC kind over HTTP/1.1 and HTTP/2.
//
//   dtrace P1 P2 …    the global order in which one call passed the points  -> accepted
//
// The model (ConnectModel.Duplex.traceRun) replays the observed order on its transition system:
// a trace it rejects is an execution the model says cannot happen (the response used before the
// hand-over, the hand-over done twice, …).
//
// Oracles, independent of the model: the call finishes (watchdog), its outcome is the outcome of
// the undelayed run, no point that uses the response precedes "request.closeready", which is
// passed at most once, and no goroutine of the library survives.

func init() { register("sync", "C14", streamSync) }

var syncPoints = []string{
	"write.ctxcheck", "write.pipe", "write.done", "closewrite",
	"read.ready", "read.body", "read.done", "closeread",
	"seterror.closepipe", "request.do", "request.done", "request.closeready",
}

type syncProgram struct {
	name    string
	kind    string
	h2      bool
	handler func() http.Handler
	client  func(hc connect.HTTPClient, url string, proto string) string
}

type failDo struct{}

func (failDo) Do(req *http.Request) (*http.Response, error) {
	go func() { _, _ = io.Copy(io.Discard, req.Body); _ = req.Body.Close() }()
	return nil, errors.New("dial tcp: connection refused")
}

func syncPrograms() []syncProgram {
	raw := connect.WithCodec(rawCodec{"raw"})
	unaryH := func(fail bool) func() http.Handler {
		return func() http.Handler {
			return connect.NewUnaryHandler("/s/m", func(ctx context.Context, r *connect.Request[[]byte]) (*connect.Response[[]byte], error) {
				if fail {
					return nil, connect.NewError(connect.CodeNotFound, errors.New("nope"))
				}
				out := append([]byte{0xA0}, (*r.Msg)...)
				return connect.NewResponse(&out), nil
			}, raw)
		}
	}
	unaryC := func(hc connect.HTTPClient, url, proto string) string {
		cl := connect.NewClient[[]byte, []byte](hc, url, protoOpts(proto)...)
		res, err := cl.CallUnary(context.Background(), connect.NewRequest(&[]byte{1, 2}))
		if err != nil {
			return codeName(err)
		}
		return "ok:" + hx(*res.Msg)
	}
	var ps []syncProgram
	for _, h2 := range []bool{true, false} {
		ps = append(ps,
			syncProgram{"unary-ok", "unary", h2, unaryH(false), unaryC},
			syncProgram{"unary-error", "unary", h2, unaryH(true), unaryC},
			syncProgram{"server-stream", "server", h2, func() http.Handler {
				return connect.NewServerStreamHandler("/s/m", func(ctx context.Context, r *connect.Request[[]byte], s *connect.ServerStream[[]byte]) error {
					for i := 0; i < 3; i++ {
						if err := s.Send(&[]byte{byte(i)}); err != nil {
							return err
						}
					}
					return nil
				}, raw)
			}, func(hc connect.HTTPClient, url, proto string) string {
				cl := connect.NewClient[[]byte, []byte](hc, url, protoOpts(proto)...)
				s, err := cl.CallServerStream(context.Background(), connect.NewRequest(&[]byte{7}))
				if err != nil {
					return "call:" + codeName(err)
				}
				var got []string
				for s.Receive() {
					got = append(got, hx(*s.Msg()))
				}
				e := codeName(s.Err())
				_ = s.Close()
				return "msgs=" + strings.Join(got, ",") + " err=" + e
			}},
			syncProgram{"client-stream", "client", h2, func() http.Handler {
				return connect.NewClientStreamHandler("/s/m", func(ctx context.Context, s *connect.ClientStream[[]byte]) (*connect.Response[[]byte], error) {
					n := 0
					for s.Receive() {
						n++
					}
					if s.Err() != nil {
						return nil, s.Err()
					}
					return connect.NewResponse(&[]byte{byte(n)}), nil
				}, raw)
			}, func(hc connect.HTTPClient, url, proto string) string {
				cl := connect.NewClient[[]byte, []byte](hc, url, protoOpts(proto)...)
				s := cl.CallClientStream(context.Background())
				for i := 0; i < 2; i++ {
					if err := s.Send(&[]byte{byte(i), 9}); err != nil {
						return "send:" + codeName(err)
					}
				}
				res, err := s.CloseAndReceive()
				if err != nil {
					return codeName(err)
				}
				return "ok:" + hx(*res.Msg)
			}},
		)
	}
	ps = append(ps,
		syncProgram{"bidi-echo", "bidi", true, func() http.Handler {
			return connect.NewBidiStreamHandler("/s/m", func(ctx context.Context, s *connect.BidiStream[[]byte, []byte]) error {
				for {
					m, err := s.Receive()
					if err != nil {
						if errors.Is(err, io.EOF) {
							return nil
						}
						return err
					}
					if err := s.Send(m); err != nil {
						return err
					}
				}
			}, raw)
		}, func(hc connect.HTTPClient, url, proto string) string {
			cl := connect.NewClient[[]byte, []byte](hc, url, protoOpts(proto)...)
			s := cl.CallBidiStream(context.Background())
			var got []string
			for i := 0; i < 2; i++ {
				if err := s.Send(&[]byte{byte(i), 5}); err != nil {
					return "send:" + codeName(err)
				}
				m, err := s.Receive()
				if err != nil {
					return "receive:" + codeName(err)
				}
				got = append(got, hx(*m))
			}
			_ = s.CloseRequest()
			_, err := s.Receive()
			end := "other:" + codeName(err)
			if errors.Is(err, io.EOF) {
				end = "eof"
			}
			_ = s.CloseResponse()
			return "msgs=" + strings.Join(got, ",") + " end=" + end
		}},
		syncProgram{"bidi-handler-error", "bidi", true, func() http.Handler {
			return connect.NewBidiStreamHandler("/s/m", func(ctx context.Context, s *connect.BidiStream[[]byte, []byte]) error {
				return connect.NewError(connect.CodeResourceExhausted, errors.New("no"))
			}, raw)
		}, func(hc connect.HTTPClient, url, proto string) string {
			cl := connect.NewClient[[]byte, []byte](hc, url, protoOpts(proto)...)
			s := cl.CallBidiStream(context.Background())
			_ = s.Send(&[]byte{1}) // may or may not reach the handler: not part of the outcome
			_ = s.CloseRequest()
			_, err := s.Receive()
			_, err2 := s.Receive()
			_ = s.CloseResponse()
			return "receive=" + codeName(err) + " again=" + codeName(err2)
		}},
		syncProgram{"bidi-close-without-receive", "bidi", true, func() http.Handler {
			return connect.NewBidiStreamHandler("/s/m", func(ctx context.Context, s *connect.BidiStream[[]byte, []byte]) error {
				for {
					if _, err := s.Receive(); err != nil {
						break
					}
				}
				return s.Send(&[]byte{1})
			}, raw)
		}, func(hc connect.HTTPClient, url, proto string) string {
			cl := connect.NewClient[[]byte, []byte](hc, url, protoOpts(proto)...)
			s := cl.CallBidiStream(context.Background())
			e1 := s.Send(&[]byte{1})
			e2 := s.CloseRequest()
			e3 := s.CloseResponse() // the first use of the response side
			return fmt.Sprintf("send=%s closerequest=%s closeresponse=%s", codeName(e1), codeName(e2), codeName(e3))
		}},
		syncProgram{"server-stream-close-early", "server", true, func() http.Handler {
			return connect.NewServerStreamHandler("/s/m", func(ctx context.Context, r *connect.Request[[]byte], s *connect.ServerStream[[]byte]) error {
				return s.Send(&[]byte{1})
			}, raw)
		}, func(hc connect.HTTPClient, url, proto string) string {
			cl := connect.NewClient[[]byte, []byte](hc, url, protoOpts(proto)...)
			s, err := cl.CallServerStream(context.Background(), connect.NewRequest(&[]byte{7}))
			if err != nil {
				return "call:" + codeName(err)
			}
			return "close=" + codeName(s.Close())
		}},
		syncProgram{"bidi-context-over-at-first-send", "bidi", true, func() http.Handler {
			return connect.NewBidiStreamHandler("/s/m", func(ctx context.Context, s *connect.BidiStream[[]byte, []byte]) error {
				return nil
			}, raw)
		}, func(hc connect.HTTPClient, url, proto string) string {
			cl := connect.NewClient[[]byte, []byte](hc, url, protoOpts(proto)...)
			ctx, cancel := context.WithCancel(context.Background())
			cancel()
			s := cl.CallBidiStream(ctx)
			e1 := s.Send(&[]byte{1})
			_, e2 := s.Receive() // before the request side is closed
			e3 := s.CloseRequest()
			_ = s.CloseResponse()
			return fmt.Sprintf("send=%s receive=%s closerequest=%s", codeName(e1), codeName(e2), codeName(e3))
		}},
		syncProgram{"transport-fails", "unary", true, nil, func(_ connect.HTTPClient, url, proto string) string {
			return unaryC(failDo{}, "http://127.0.0.1:9/s/m", proto)
		}},
		syncProgram{"transport-fails-stream", "bidi", true, nil, func(_ connect.HTTPClient, url, proto string) string {
			cl := connect.NewClient[[]byte, []byte](failDo{}, "http://127.0.0.1:9/s/m", protoOpts(proto)...)
			s := cl.CallBidiStream(context.Background())
			_ = s.Send(&[]byte{1})
			_ = s.CloseRequest()
			_, err := s.Receive()
			_ = s.CloseResponse()
			return "receive=" + codeName(err)
		}},
	)
	return ps
}

type syncRecorder struct {
	mu     sync.Mutex
	trace  []string
	counts map[string]int
	delay  map[string]bool
	every  bool
	d      time.Duration
}

func (r *syncRecorder) hook(point string) {
	r.mu.Lock()
	r.trace = append(r.trace, point)
	r.counts[point]++
	sleep := r.delay[point] && (r.every || r.counts[point] == 1)
	r.mu.Unlock()
	if sleep {
		time.Sleep(r.d)
	}
}

// syncOrderOracle: the response is only used after the hand-over, which happens once.
func syncOrderOracle(trace []string) string {
	closed := 0
	for i, p := range trace {
		switch p {
		case "request.closeready":
			closed++
			if closed > 1 {
				return fmt.Sprintf("request.closeready passed twice (position %d)", i)
			}
		case "read.ready", "read.body", "read.done", "closeread":
			if closed == 0 {
				return fmt.Sprintf("%s at position %d precedes request.closeready", p, i)
			}
		}
	}
	return ""
}

func streamSync(c *Ctx) {
	yieldMu.Lock()
	defer yieldMu.Unlock()
	r := c.Rng
	d := 1500 * time.Microsecond
	hookSeen := false
	closeReadySeen := false
	for _, prog := range syncPrograms() {
		var srv *httptest.Server
		var hc connect.HTTPClient = http.DefaultClient
		url := "http://127.0.0.1:9"
		if prog.handler != nil {
			srv = startServer(prog.handler(), prog.h2)
			hc = srv.Client()
			url = srv.URL
		}
		for _, proto := range []string{"connect", "grpc", "grpcweb"} {
			runOne := func(delay []string, every bool) (outcome string, trace []string, finished bool) {
				rec := &syncRecorder{counts: map[string]int{}, delay: map[string]bool{}, every: every, d: d}
				for _, p := range delay {
					rec.delay[p] = true
				}
				connect.VerifSetYield(rec.hook)
				finished = watchdog(15*time.Second, func() {
					outcome = safely(func() string { return prog.client(hc, url+"/s/m", proto) })
				})
				// stragglers of this call (the request goroutine's SetError) get a moment to record
				time.Sleep(200 * time.Microsecond)
				connect.VerifSetYield(nil)
				rec.mu.Lock()
				trace = append([]string(nil), rec.trace...)
				rec.mu.Unlock()
				return
			}
			desc := func(delay []string, every bool) string {
				mode := "first"
				if every {
					mode = "every"
				}
				return fmt.Sprintf("program=%s h2=%v proto=%s delay=%s mode=%s", prog.name, prog.h2, proto, strings.Join(delay, "+"), mode)
			}
			base, baseTrace, ok := runOne(nil, false)
			if !ok {
				c.Fail("sync-hang", desc(nil, false), "watchdog expired", "the undelayed call did not finish")
				continue
			}
			if len(baseTrace) > 0 {
				hookSeen = true
			}
			var combos [][]string
			for _, p := range syncPoints {
				combos = append(combos, []string{p})
			}
			var pairs [][]string
			for i, p := range syncPoints {
				for _, q := range syncPoints[i+1:] {
					pairs = append(pairs, []string{p, q})
				}
			}
			if c.Thorough() {
				combos = append(combos, pairs...)
			} else {
				for i := 0; i < 10; i++ {
					combos = append(combos, pairs[r.Intn(len(pairs))])
				}
			}
			modes := []bool{false}
			if c.Thorough() {
				modes = []bool{false, true}
			}
			check := func(delay []string, every bool, outcome string, trace []string, finished bool) {
				c.Count("program:" + prog.name)
				c.Count("delays:" + fmt.Sprint(len(delay)))
				if !finished {
					c.Fail("sync-hang", desc(delay, every), "watchdog expired; points passed: "+strings.Join(trace, " "), "an API call did not return with a delay at these synchronisation points")
					return
				}
				if strings.HasPrefix(outcome, "PANIC") {
					c.Fail("sync-panic", desc(delay, every), outcome, "the call panicked")
				}
				if outcome != base {
					c.Fail("sync-outcome", desc(delay, every), outcome+" (undelayed: "+base+")", "the outcome of the call depends on the timing at its synchronisation points")
				}
				for _, p := range trace {
					if p == "request.closeready" {
						closeReadySeen = true
					}
				}
				if closeReadySeen {
					if bad := syncOrderOracle(trace); bad != "" {
						c.Fail("sync-order", desc(delay, every), bad+": "+strings.Join(trace, " "), "the response was used before the request goroutine handed it over")
					}
				}
				if len(trace) > 0 {
					c.Emit("dtrace "+strings.Join(trace, " "), "accepted", true)
				}
			}
			check(nil, false, base, baseTrace, true)
			for _, every := range modes {
				for _, delay := range combos {
					o, t, fin := runOne(delay, every)
					check(delay, every, o, t, fin)
				}
			}
		}
		if srv != nil {
			srv.Close()
		}
	}
	if !hookSeen {
		c.Note("no synchronisation point was reported: the verif yield hooks are not compiled in or were removed")
	}
	if !closeReadySeen {
		c.Note("the point request.closeready was never reported: order oracle skipped")
	}
	pts := append([]string(nil), syncPoints...)
	sort.Strings(pts)
	c.Note("points: %s; delay %v at the first hit (thorough: also at every hit); quick: every single point + 10 random pairs per program x protocol, thorough: every pair", strings.Join(pts, ","), d)
	// afterwards nothing of the library is left running
	deadline := time.Now().Add(3 * time.Second)
	left := libraryGoroutines()
	for left > 0 && time.Now().Before(deadline) {
		time.Sleep(50 * time.Millisecond)
		left = libraryGoroutines()
	}
	if left > 0 {
		c.Fail("sync-goroutine-leak", "all delayed calls finished and their servers closed", fmt.Sprintf("%d goroutines with connect-go frames remain", left), "goroutines started by the library remain after every call was closed")
	}
}
