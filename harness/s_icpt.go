package main

import (
	"context"
	"errors"
	"fmt"
	"net/http"
	"net/http/httptest"
	"strconv"
	"strings"
	"sync"
	"time"

	connect "github.com/bufbuild/connect-go"
	"google.golang.org/protobuf/types/known/emptypb"
)

// S-icpt (C16) and S-panic (C19): real clients and handlers built from generated option trees.
//   icpt <client|handler> <unary|stream> <n> <tree tokens...>      -> in=IDS out=IDS
//   recover <unary|stream> <isClient> <panicvalue> [proto= point= pos=] -> calls=[..] outcome=..

func init() {
	register("icpt", "C16", streamIcpt)
	register("panic", "C19", streamPanic)
}

type eventLog struct {
	mu     sync.Mutex
	events []string
}

func (l *eventLog) reset() {
	l.mu.Lock()
	l.events = nil
	l.mu.Unlock()
}

func (l *eventLog) add(kind string, id int) {
	l.mu.Lock()
	l.events = append(l.events, kind+":"+strconv.Itoa(id))
	l.mu.Unlock()
}

type logIcpt struct {
	id  int
	log *eventLog
}

func (l *logIcpt) WrapUnary(next connect.UnaryFunc) connect.UnaryFunc {
	return func(ctx context.Context, req connect.AnyRequest) (connect.AnyResponse, error) {
		l.log.add("in", l.id)
		res, err := next(ctx, req)
		l.log.add("out", l.id)
		return res, err
	}
}

type loggedConn struct {
	connect.StreamingClientConn
	l *logIcpt
}

func (c *loggedConn) Send(m any) error {
	c.l.log.add("send", c.l.id)
	return c.StreamingClientConn.Send(m)
}
func (c *loggedConn) Receive(m any) error {
	err := c.StreamingClientConn.Receive(m)
	c.l.log.add("recv", c.l.id)
	return err
}

func (l *logIcpt) WrapStreamingClient(next connect.StreamingClientFunc) connect.StreamingClientFunc {
	return func(ctx context.Context, spec connect.Spec) connect.StreamingClientConn {
		l.log.add("in", l.id)
		conn := next(ctx, spec)
		l.log.add("out", l.id)
		return &loggedConn{StreamingClientConn: conn, l: l}
	}
}
func (l *logIcpt) WrapStreamingHandler(next connect.StreamingHandlerFunc) connect.StreamingHandlerFunc {
	return func(ctx context.Context, conn connect.StreamingHandlerConn) error {
		l.log.add("in", l.id)
		err := next(ctx, conn)
		l.log.add("out", l.id)
		return err
	}
}

// buildOpts parses the prefix token form into real option values. side: "client"|"handler".
func buildOpts(toks []string, count int, log *eventLog, flat *[]int) (opts []any, rest []string, ok bool) {
	for i := 0; i < count; i++ {
		if len(toks) == 0 {
			return nil, nil, false
		}
		switch toks[0] {
		case "O":
			opts = append(opts, connect.WithCompressMinBytes(0))
			toks = toks[1:]
		case "I":
			n, _ := strconv.Atoi(toks[1])
			var is []connect.Interceptor
			for _, t := range toks[2 : 2+n] {
				if t == "-" {
					is = append(is, nil)
				} else {
					id, _ := strconv.Atoi(t)
					is = append(is, &logIcpt{id: id, log: log})
					*flat = append(*flat, id)
				}
			}
			opts = append(opts, connect.WithInterceptors(is...))
			toks = toks[2+n:]
		case "G", "GC", "GH":
			n, _ := strconv.Atoi(toks[1])
			children, r, ok := buildOpts(toks[2:], n, log, flat)
			if !ok {
				return nil, nil, false
			}
			switch toks[0] {
			case "G":
				var os []connect.Option
				for _, c := range children {
					os = append(os, c.(connect.Option))
				}
				opts = append(opts, connect.WithOptions(os...))
			case "GC":
				var os []connect.ClientOption
				for _, c := range children {
					os = append(os, c.(connect.ClientOption))
				}
				opts = append(opts, connect.WithClientOptions(os...))
			case "GH":
				var os []connect.HandlerOption
				for _, c := range children {
					os = append(os, c.(connect.HandlerOption))
				}
				opts = append(opts, connect.WithHandlerOptions(os...))
			}
			toks = r
		default:
			return nil, nil, false
		}
	}
	return opts, toks, true
}

func idsOf(events []string, kind string) string {
	var ids []string
	for _, e := range events {
		if strings.HasPrefix(e, kind+":") {
			ids = append(ids, e[len(kind)+1:])
		}
	}
	if len(ids) == 0 {
		return "-"
	}
	return strings.Join(ids, ",")
}

func icptOp(c *Ctx, op string) {
	c.Begin(op)
	f := strings.Fields(op)
	side, kind := f[1], f[2]
	count, _ := strconv.Atoi(f[3])
	log := &eventLog{}
	var flat []int
	ans := safely(func() string {
		opts, rest, ok := buildOpts(f[4:], count, log, &flat)
		if !ok || len(rest) != 0 {
			return "bad-op"
		}
		okHandlerUnary := connect.NewUnaryHandler("/s/m", func(context.Context, *connect.Request[emptypb.Empty]) (*connect.Response[emptypb.Empty], error) {
			return connect.NewResponse(&emptypb.Empty{}), nil
		})
		// generated constructors apply one and the same option values once per procedure: a first
		// application (for some other procedure) must not change what the next one builds
		if side == "client" {
			var first []connect.ClientOption
			for _, o := range opts {
				first = append(first, o.(connect.ClientOption))
			}
			_ = connect.NewClient[emptypb.Empty, emptypb.Empty](&inprocClient{h: okHandlerUnary}, "http://h/s/other", first...)
		} else {
			var first []connect.HandlerOption
			for _, o := range opts {
				first = append(first, o.(connect.HandlerOption))
			}
			_ = connect.NewUnaryHandler("/s/other", func(context.Context, *connect.Request[emptypb.Empty]) (*connect.Response[emptypb.Empty], error) {
				return connect.NewResponse(&emptypb.Empty{}), nil
			}, first...)
		}
		switch side + "/" + kind {
		case "client/unary":
			var copts []connect.ClientOption
			for _, o := range opts {
				copts = append(copts, o.(connect.ClientOption))
			}
			cl := connect.NewClient[emptypb.Empty, emptypb.Empty](&inprocClient{h: okHandlerUnary}, "http://h/s/m", copts...)
			// the chain is the same on every call of a client: what is recorded is the second call
			_, _ = cl.CallUnary(context.Background(), connect.NewRequest(&emptypb.Empty{}))
			log.reset()
			if _, err := cl.CallUnary(context.Background(), connect.NewRequest(&emptypb.Empty{})); err != nil {
				return "call-failed " + err.Error()
			}
		case "client/stream":
			var copts []connect.ClientOption
			for _, o := range opts {
				copts = append(copts, o.(connect.ClientOption))
			}
			h := connect.NewServerStreamHandler("/s/m", func(ctx context.Context, req *connect.Request[emptypb.Empty], s *connect.ServerStream[emptypb.Empty]) error {
				return s.Send(&emptypb.Empty{})
			})
			cl := connect.NewClient[emptypb.Empty, emptypb.Empty](&inprocClient{h: h}, "http://h/s/m", copts...)
			if first, err := cl.CallServerStream(context.Background(), connect.NewRequest(&emptypb.Empty{})); err == nil {
				for first.Receive() {
				}
				_ = first.Close()
			}
			log.reset()
			stream, err := cl.CallServerStream(context.Background(), connect.NewRequest(&emptypb.Empty{}))
			if err != nil {
				return "call-failed " + err.Error()
			}
			for stream.Receive() {
			}
			_ = stream.Close()
			// per-message order: sends outermost first, receives innermost first
			sends, recvs := idsOf(log.events, "send"), idsOf(log.events, "recv")
			in := idsOf(log.events, "in")
			if in != "-" {
				firstRecv := strings.Join(strings.Split(recvs, ",")[:len(strings.Split(in, ","))], ",")
				if sends != in {
					c.Fail("icpt-send-order", op, sends, "outgoing messages are not seen outermost-first ("+in+")")
				}
				if firstRecv != reverseIDs(in) {
					c.Fail("icpt-recv-order", op, firstRecv, "incoming messages are not seen innermost-first")
				}
			}
		case "handler/unary":
			var hopts []connect.HandlerOption
			for _, o := range opts {
				hopts = append(hopts, o.(connect.HandlerOption))
			}
			h := connect.NewUnaryHandler("/s/m", func(context.Context, *connect.Request[emptypb.Empty]) (*connect.Response[emptypb.Empty], error) {
				return connect.NewResponse(&emptypb.Empty{}), nil
			}, hopts...)
			cl := connect.NewClient[emptypb.Empty, emptypb.Empty](&inprocClient{h: h}, "http://h/s/m")
			_, _ = cl.CallUnary(context.Background(), connect.NewRequest(&emptypb.Empty{}))
			log.reset()
			if _, err := cl.CallUnary(context.Background(), connect.NewRequest(&emptypb.Empty{})); err != nil {
				return "call-failed " + err.Error()
			}
		case "handler/stream":
			var hopts []connect.HandlerOption
			for _, o := range opts {
				hopts = append(hopts, o.(connect.HandlerOption))
			}
			h := connect.NewClientStreamHandler("/s/m", func(ctx context.Context, s *connect.ClientStream[emptypb.Empty]) (*connect.Response[emptypb.Empty], error) {
				for s.Receive() {
				}
				return connect.NewResponse(&emptypb.Empty{}), s.Err()
			}, hopts...)
			cl := connect.NewClient[emptypb.Empty, emptypb.Empty](&inprocClient{h: h}, "http://h/s/m")
			first := cl.CallClientStream(context.Background())
			_ = first.Send(&emptypb.Empty{})
			_, _ = first.CloseAndReceive()
			log.reset()
			stream := cl.CallClientStream(context.Background())
			_ = stream.Send(&emptypb.Empty{})
			if _, err := stream.CloseAndReceive(); err != nil {
				return "call-failed " + err.Error()
			}
		default:
			return "bad-op"
		}
		return fmt.Sprintf("in=%s out=%s", idsOf(log.events, "in"), idsOf(log.events, "out"))
	})
	// oracle: declaration order, each exactly once, response seen in reverse
	var want []string
	for _, id := range flat {
		want = append(want, strconv.Itoa(id))
	}
	wantIn := "-"
	if len(want) > 0 {
		wantIn = strings.Join(want, ",")
	}
	if ans != fmt.Sprintf("in=%s out=%s", wantIn, reverseIDs(wantIn)) {
		c.Fail("icpt-order", op, ans, "effective chain is not the flat declaration order (first declared outermost): want in="+wantIn)
	}
	c.Count(side + "/" + kind)
	c.Count(fmt.Sprintf("n=%d", len(flat)))
	c.Emit(op, ans, len(flat) >= 2)
}

func reverseIDs(s string) string {
	if s == "-" {
		return s
	}
	p := strings.Split(s, ",")
	for i, j := 0, len(p)-1; i < j; i, j = i+1, j-1 {
		p[i], p[j] = p[j], p[i]
	}
	return strings.Join(p, ",")
}

// genTree renders `items` (ids, 0 = nil) as a random grouping/nesting valid for the side.
func genTree(r *Rng, items []int, side string, depth int) (toks []string, count int) {
	i := 0
	for i < len(items) || (count == 0 && len(items) == 0) {
		switch {
		case r.Chance(15):
			toks = append(toks, "O")
			count++
			if len(items) == 0 {
				return
			}
		case depth < 3 && r.Chance(30):
			// a nested group taking the next few items
			take := r.Intn(len(items) - i + 1)
			g := "G"
			if r.Chance(40) && side != "both" {
				g = map[string]string{"client": "GC", "handler": "GH"}[side]
			}
			childSide := side
			if g == "G" {
				childSide = "both"
			}
			sub, n := genTree(r, items[i:i+take], childSide, depth+1)
			if take == 0 {
				sub, n = nil, 0
			}
			toks = append(toks, g, strconv.Itoa(n))
			toks = append(toks, sub...)
			i += take
			count++
		default:
			take := r.Intn(len(items)-i+1) % 4
			toks = append(toks, "I", strconv.Itoa(take))
			for _, id := range items[i : i+take] {
				if id == 0 {
					toks = append(toks, "-")
				} else {
					toks = append(toks, strconv.Itoa(id))
				}
			}
			i += take
			count++
		}
		if len(items) == 0 {
			return
		}
		if count > 40 {
			break
		}
	}
	return
}

// recoverPositionProbes (oracle only): WithRecover is one more interceptor, at the position where
// it was declared. With a panicking handler, interceptors declared before it see the call return
// (with the converted error), interceptors declared after it see the panic pass through.
func recoverPositionProbes(c *Ctx) {
	type shape struct {
		name string
		opts func(mk func(id int) connect.Interceptor, rec connect.HandlerOption) []connect.HandlerOption
		pre  []int
		post []int
	}
	shapes := []shape{
		{"[1] R [2]", func(mk func(int) connect.Interceptor, rec connect.HandlerOption) []connect.HandlerOption {
			return []connect.HandlerOption{connect.WithInterceptors(mk(1)), rec, connect.WithInterceptors(mk(2))}
		}, []int{1}, []int{2}},
		{"[1 2] R [3]", func(mk func(int) connect.Interceptor, rec connect.HandlerOption) []connect.HandlerOption {
			return []connect.HandlerOption{connect.WithInterceptors(mk(1), mk(2)), rec, connect.WithInterceptors(mk(3))}
		}, []int{1, 2}, []int{3}},
		{"[1] [2] R", func(mk func(int) connect.Interceptor, rec connect.HandlerOption) []connect.HandlerOption {
			return []connect.HandlerOption{connect.WithInterceptors(mk(1)), connect.WithInterceptors(mk(2)), rec}
		}, []int{1, 2}, nil},
		{"R [1] [2 3]", func(mk func(int) connect.Interceptor, rec connect.HandlerOption) []connect.HandlerOption {
			return []connect.HandlerOption{rec, connect.WithInterceptors(mk(1)), connect.WithInterceptors(mk(2), mk(3))}
		}, nil, []int{1, 2, 3}},
		{"G{[1] R} [2]", func(mk func(int) connect.Interceptor, rec connect.HandlerOption) []connect.HandlerOption {
			return []connect.HandlerOption{connect.WithHandlerOptions(connect.WithInterceptors(mk(1)), rec), connect.WithInterceptors(mk(2))}
		}, []int{1}, []int{2}},
		{"[1] G{R [2]} [3]", func(mk func(int) connect.Interceptor, rec connect.HandlerOption) []connect.HandlerOption {
			return []connect.HandlerOption{connect.WithInterceptors(mk(1)), connect.WithHandlerOptions(rec, connect.WithInterceptors(mk(2))), connect.WithInterceptors(mk(3))}
		}, []int{1}, []int{2, 3}},
	}
	ids := func(xs []int) string {
		if len(xs) == 0 {
			return "-"
		}
		var p []string
		for _, x := range xs {
			p = append(p, strconv.Itoa(x))
		}
		return strings.Join(p, ",")
	}
	for _, sh := range shapes {
		for _, kind := range []string{"unary", "stream"} {
			log := &eventLog{}
			recovered := 0
			rec := connect.WithRecover(func(context.Context, connect.Spec, http.Header, any) error {
				recovered++
				return connect.NewError(connect.CodeDataLoss, errors.New("recovered"))
			})
			hopts := sh.opts(func(id int) connect.Interceptor { return &logIcpt{id: id, log: log} }, rec)
			var h http.Handler
			if kind == "unary" {
				h = connect.NewUnaryHandler("/s/m", func(context.Context, *connect.Request[emptypb.Empty]) (*connect.Response[emptypb.Empty], error) {
					panic("boom")
				}, hopts...)
			} else {
				h = connect.NewServerStreamHandler("/s/m", func(context.Context, *connect.Request[emptypb.Empty], *connect.ServerStream[emptypb.Empty]) error {
					panic("boom")
				}, hopts...)
			}
			desc := fmt.Sprintf("handler options %s, %s handler that panics", sh.name, kind)
			got := safely(func() string {
				ic := &inprocClient{h: h}
				cl := connect.NewClient[emptypb.Empty, emptypb.Empty](ic, "http://h/s/m")
				if kind == "unary" {
					_, _ = cl.CallUnary(context.Background(), connect.NewRequest(&emptypb.Empty{}))
				} else if s, err := cl.CallServerStream(context.Background(), connect.NewRequest(&emptypb.Empty{})); err == nil {
					for s.Receive() {
					}
					_ = s.Close()
				}
				return fmt.Sprintf("in=%s out=%s recovered=%d escaped=%v", idsOf(log.events, "in"), idsOf(log.events, "out"), recovered, ic.panicked)
			})
			all := append(append([]int{}, sh.pre...), sh.post...)
			want := fmt.Sprintf("in=%s out=%s recovered=1 escaped=false", ids(all), reverseIDs(ids(sh.pre)))
			c.Count("icpt:recover-position")
			if got != want {
				c.Fail("icpt-recover-position", desc, got, "WithRecover must sit in the chain where it was declared: want "+want)
			}
		}
	}
}

func streamIcpt(c *Ctx) {
	if replayOp != "" {
		icptOp(c, replayOp)
		return
	}
	recoverPositionProbes(c)
	r := c.Rng
	maxLen := 4
	reps := 3
	if c.Thorough() {
		maxLen, reps = 6, 8
	}
	// all lists over ids {1,2,3} and nil (0) up to maxLen, each in several random groupings,
	// plus all compositions into consecutive groups for short lists
	var lists [][]int
	var rec func(prefix []int)
	rec = func(prefix []int) {
		lists = append(lists, append([]int(nil), prefix...))
		if len(prefix) == maxLen {
			return
		}
		for v := 0; v <= 3; v++ {
			rec(append(prefix, v))
		}
	}
	rec(nil)
	sides := []string{"client", "handler"}
	kinds := []string{"unary", "stream"}
	n := 0
	for _, items := range lists {
		// all compositions into consecutive WithInterceptors groups (flat)
		if len(items) <= 4 {
			for mask := 0; mask < 1<<uint(max0(len(items)-1)); mask++ {
				var toks []string
				cnt, start := 0, 0
				for i := 1; i <= len(items); i++ {
					if i == len(items) || mask&(1<<uint(i-1)) != 0 {
						toks = append(toks, "I", strconv.Itoa(i-start))
						for _, id := range items[start:i] {
							if id == 0 {
								toks = append(toks, "-")
							} else {
								toks = append(toks, strconv.Itoa(id))
							}
						}
						cnt++
						start = i
					}
				}
				side, kind := sides[n%2], kinds[(n/2)%2]
				n++
				icptOp(c, fmt.Sprintf("icpt %s %s %d %s", side, kind, cnt, strings.Join(toks, " ")))
			}
		}
		for k := 0; k < reps; k++ {
			side, kind := sides[r.Intn(2)], kinds[r.Intn(2)]
			toks, cnt := genTree(r, items, side, 0)
			icptOp(c, strings.TrimSpace(fmt.Sprintf("icpt %s %s %d %s", side, kind, cnt, strings.Join(toks, " "))))
		}
	}
	c.exhaust = true
	c.Note("all interceptor lists over {1,2,3,nil} up to length %d; all compositions into consecutive groups for lists up to 4; %d random nestings (depth<=3) per list", maxLen, reps)
	icptSharedAndMixedProbes(c)
	doneContextChainProbe(c, "icpt-order")
	doneContextClientProbe(c)
	repeatedInterceptorProbe(c)
	oneClientAllKindsProbe(c)
	twoRecoversProbe(c)
	icptValueTypeProbe(c)
	icptGroupShapeProbes(c)
	// slices with spare capacity / sub-slices of one backing array (aliasing hazards)
	for _, side := range sides {
		for _, kind := range kinds {
			icptAliasProbe(c, side, kind)
			for _, n := range []int{1, 2, 3} {
				icptScratchSliceProbe(c, side, kind, n)
			}
		}
	}
}

// icptScratchSliceProbe: the chain is fixed at construction. A caller that builds several
// clients / handlers from one scratch slice and overwrites its elements afterwards does not
// change the chain of what it built earlier - for unary and for streaming calls alike.
func icptScratchSliceProbe(c *Ctx, side, kind string, groupLen int) {
	log := &eventLog{}
	scratch := make([]connect.Interceptor, groupLen)
	want := ""
	for i := range scratch {
		scratch[i] = &logIcpt{id: i + 1, log: log}
		if i > 0 {
			want += ","
		}
		want += strconv.Itoa(i + 1)
	}
	var h http.Handler
	var cl *connect.Client[emptypb.Empty, emptypb.Empty]
	mk := func(hopts []connect.HandlerOption) http.Handler {
		if kind == "unary" {
			return connect.NewUnaryHandler("/s/m", func(context.Context, *connect.Request[emptypb.Empty]) (*connect.Response[emptypb.Empty], error) {
				return connect.NewResponse(&emptypb.Empty{}), nil
			}, hopts...)
		}
		return connect.NewClientStreamHandler("/s/m", func(ctx context.Context, s *connect.ClientStream[emptypb.Empty]) (*connect.Response[emptypb.Empty], error) {
			return connect.NewResponse(&emptypb.Empty{}), nil
		}, hopts...)
	}
	if side == "client" {
		h = mk(nil)
		cl = connect.NewClient[emptypb.Empty, emptypb.Empty](&inprocClient{h: h}, "http://h/s/m", connect.WithClientOptions(connect.WithInterceptors(scratch...)))
	} else {
		h = mk([]connect.HandlerOption{connect.WithInterceptors(scratch...)})
		cl = connect.NewClient[emptypb.Empty, emptypb.Empty](&inprocClient{h: h}, "http://h/s/m")
	}
	// the caller goes on to its next construction with the same slice
	for i := range scratch {
		scratch[i] = &logIcpt{id: 7 + i, log: log}
	}
	for round := 0; round < 2; round++ {
		log.reset()
		var err error
		if kind == "unary" {
			_, err = cl.CallUnary(context.Background(), connect.NewRequest(&emptypb.Empty{}))
		} else {
			s := cl.CallClientStream(context.Background())
			_, err = s.CloseAndReceive()
		}
		got := idsOf(log.events, "in")
		if err != nil && !errors.Is(err, context.Canceled) {
			got = "call-failed: " + err.Error()
		}
		c.Count("scratch-slice-probe")
		if got != want {
			c.Fail("icpt-alias", fmt.Sprintf("%s %s call #%d after the caller overwrote the %d-element slice it had passed to WithInterceptors", side, kind, round+1, groupLen), got, "the chain is what was declared at construction: want "+want)
		}
	}
}

// icptSharedAndMixedProbes (oracle only):
//
//	(a) one WithInterceptors option value used in two configurations behind DIFFERENT leading
//	    groups: each configuration's chain is the flat concatenation of its own list;
//	(b) function-style (UnaryInterceptorFunc) and struct-style interceptors mixed in one list
//	    keep their declaration order on unary calls.
func icptSharedAndMixedProbes(c *Ctx) {
	call := func(cl *connect.Client[emptypb.Empty, emptypb.Empty], kind string) error {
		if kind == "unary" {
			_, err := cl.CallUnary(context.Background(), connect.NewRequest(&emptypb.Empty{}))
			return err
		}
		s := cl.CallClientStream(context.Background())
		_, err := s.CloseAndReceive()
		return err
	}
	mkHandler := func(kind string, hopts ...connect.HandlerOption) http.Handler {
		if kind == "unary" {
			return connect.NewUnaryHandler("/s/m", func(context.Context, *connect.Request[emptypb.Empty]) (*connect.Response[emptypb.Empty], error) {
				return connect.NewResponse(&emptypb.Empty{}), nil
			}, hopts...)
		}
		return connect.NewClientStreamHandler("/s/m", func(ctx context.Context, s *connect.ClientStream[emptypb.Empty]) (*connect.Response[emptypb.Empty], error) {
			return connect.NewResponse(&emptypb.Empty{}), nil
		}, hopts...)
	}
	for _, side := range []string{"client", "handler"} {
		for _, kind := range []string{"unary", "stream"} {
			// (a)
			log := &eventLog{}
			shared := connect.WithInterceptors(&logIcpt{id: 9, log: log})
			first := []connect.Option{connect.WithInterceptors(&logIcpt{id: 1, log: log}), shared}
			second := []connect.Option{connect.WithOptions(connect.WithInterceptors(&logIcpt{id: 2, log: log}, nil, &logIcpt{id: 3, log: log})), shared}
			for i, cfg := range [][]connect.Option{first, second, first} {
				var cl *connect.Client[emptypb.Empty, emptypb.Empty]
				if side == "client" {
					var copts []connect.ClientOption
					for _, o := range cfg {
						copts = append(copts, o)
					}
					cl = connect.NewClient[emptypb.Empty, emptypb.Empty](&inprocClient{h: mkHandler(kind)}, "http://h/s/m", connect.WithClientOptions(copts...))
				} else {
					var hopts []connect.HandlerOption
					for _, o := range cfg {
						hopts = append(hopts, o)
					}
					cl = connect.NewClient[emptypb.Empty, emptypb.Empty](&inprocClient{h: mkHandler(kind, connect.WithHandlerOptions(hopts...))}, "http://h/s/m")
				}
				log.reset()
				err := call(cl, kind)
				got := idsOf(log.events, "in")
				if err != nil && !errors.Is(err, context.Canceled) {
					got = "call-failed: " + err.Error()
				}
				want := []string{"1,9", "2,3,9", "1,9"}[i]
				c.Count("shared-option-probe")
				if got != want {
					c.Fail("icpt-alias", fmt.Sprintf("one WithInterceptors value shared by two %s configurations with different leading groups, configuration #%d, %s call", side, i+1, kind), got, "each configuration's chain is the flat concatenation of its own declared list: want "+want)
				}
			}
		}
		// (b) unary calls only: a UnaryInterceptorFunc does not take part in streaming calls
		for _, shape := range []string{"one-group", "one-per-group", "nested"} {
			log := &eventLog{}
			fn := func(id int) connect.Interceptor {
				return connect.UnaryInterceptorFunc(func(next connect.UnaryFunc) connect.UnaryFunc {
					return func(ctx context.Context, req connect.AnyRequest) (connect.AnyResponse, error) {
						log.add("in", id)
						res, err := next(ctx, req)
						log.add("out", id)
						return res, err
					}
				})
			}
			list := []connect.Interceptor{fn(1), &logIcpt{id: 2, log: log}, nil, fn(3), &logIcpt{id: 4, log: log}}
			var opts []connect.Option
			switch shape {
			case "one-group":
				opts = []connect.Option{connect.WithInterceptors(list...)}
			case "one-per-group":
				for _, ic := range list {
					opts = append(opts, connect.WithInterceptors(ic))
				}
			default:
				opts = []connect.Option{connect.WithOptions(connect.WithInterceptors(list[:2]...), connect.WithOptions(connect.WithInterceptors(list[2:4]...))), connect.WithInterceptors(list[4])}
			}
			var cl *connect.Client[emptypb.Empty, emptypb.Empty]
			if side == "client" {
				var copts []connect.ClientOption
				for _, o := range opts {
					copts = append(copts, o)
				}
				cl = connect.NewClient[emptypb.Empty, emptypb.Empty](&inprocClient{h: mkHandler("unary")}, "http://h/s/m", copts...)
			} else {
				var hopts []connect.HandlerOption
				for _, o := range opts {
					hopts = append(hopts, o)
				}
				cl = connect.NewClient[emptypb.Empty, emptypb.Empty](&inprocClient{h: mkHandler("unary", hopts...)}, "http://h/s/m")
			}
			err := call(cl, "unary")
			got := idsOf(log.events, "in") + " / " + idsOf(log.events, "out")
			if err != nil {
				got = "call-failed: " + err.Error()
			}
			c.Count("mixed-kinds-probe")
			if got != "1,2,3,4 / 4,3,2,1" {
				c.Fail("icpt-order", fmt.Sprintf("function-style and struct-style interceptors mixed [fn1 S2 nil fn3 S4], %s, %s, unary call", shape, side), got, "declaration order, first outermost: want 1,2,3,4 on the way in and 4,3,2,1 on the way out")
			}
		}
	}
}

// icptValueTypeProbe: an interceptor need not be a pointer: a stateless struct value is a valid,
// non-nil interceptor and wraps every call wherever it stands in the list.
func icptValueTypeProbe(c *Ctx) {
	for _, side := range []string{"client", "handler"} {
		for _, kind := range []string{"unary", "stream"} {
			for _, shape := range []string{"alone", "between", "first-of-group", "own-group-later"} {
				log := stampLog
				var opts []connect.Option
				a, b := &logIcpt{id: 1, log: log}, &logIcpt{id: 2, log: log}
				want := ""
				switch shape {
				case "alone":
					opts, want = []connect.Option{connect.WithInterceptors(stampIcptValue{})}, "99"
				case "between":
					opts, want = []connect.Option{connect.WithInterceptors(a, stampIcptValue{}, b)}, "1,99,2"
				case "first-of-group":
					opts, want = []connect.Option{connect.WithInterceptors(stampIcptValue{}, a)}, "99,1"
				default:
					opts, want = []connect.Option{connect.WithInterceptors(a), connect.WithInterceptors(stampIcptValue{}), connect.WithInterceptors(b)}, "1,99,2"
				}
				mk := func(hopts ...connect.HandlerOption) http.Handler {
					if kind == "unary" {
						return connect.NewUnaryHandler("/s/m", func(context.Context, *connect.Request[emptypb.Empty]) (*connect.Response[emptypb.Empty], error) {
							return connect.NewResponse(&emptypb.Empty{}), nil
						}, hopts...)
					}
					return connect.NewClientStreamHandler("/s/m", func(ctx context.Context, s *connect.ClientStream[emptypb.Empty]) (*connect.Response[emptypb.Empty], error) {
						return connect.NewResponse(&emptypb.Empty{}), nil
					}, hopts...)
				}
				var cl *connect.Client[emptypb.Empty, emptypb.Empty]
				if side == "client" {
					var copts []connect.ClientOption
					for _, o := range opts {
						copts = append(copts, o)
					}
					cl = connect.NewClient[emptypb.Empty, emptypb.Empty](&inprocClient{h: mk()}, "http://h/s/m", copts...)
				} else {
					var hopts []connect.HandlerOption
					for _, o := range opts {
						hopts = append(hopts, o)
					}
					cl = connect.NewClient[emptypb.Empty, emptypb.Empty](&inprocClient{h: mk(hopts...)}, "http://h/s/m")
				}
				log.reset()
				if kind == "unary" {
					_, _ = cl.CallUnary(context.Background(), connect.NewRequest(&emptypb.Empty{}))
				} else {
					s := cl.CallClientStream(context.Background())
					_, _ = s.CloseAndReceive()
				}
				got := idsOf(log.events, "in")
				c.Count("value-type-interceptor")
				if got != want {
					c.Fail("icpt-order", fmt.Sprintf("a stateless struct-valued interceptor (%s), %s, %s call", shape, side, kind), got, "every non-nil interceptor wraps the call, in declaration order: want "+want)
				}
			}
		}
	}
}

// icptGroupShapeProbes (oracle only):
//
//	(a) a base group built with WithOptions from a slice with spare capacity, extended twice
//	    (WithOptions(base, B) and WithOptions(base, C)): each extension keeps its own tail;
//	(b) groups of every size 1..10 as the first and as a later WithInterceptors group: nothing
//	    is dropped at any size.
func icptGroupShapeProbes(c *Ctx) {
	run := func(side, kind string, opts []connect.Option, log *eventLog) string {
		mk := func(hopts ...connect.HandlerOption) http.Handler {
			if kind == "unary" {
				return connect.NewUnaryHandler("/s/m", func(context.Context, *connect.Request[emptypb.Empty]) (*connect.Response[emptypb.Empty], error) {
					return connect.NewResponse(&emptypb.Empty{}), nil
				}, hopts...)
			}
			return connect.NewClientStreamHandler("/s/m", func(ctx context.Context, s *connect.ClientStream[emptypb.Empty]) (*connect.Response[emptypb.Empty], error) {
				return connect.NewResponse(&emptypb.Empty{}), nil
			}, hopts...)
		}
		var cl *connect.Client[emptypb.Empty, emptypb.Empty]
		if side == "client" {
			var copts []connect.ClientOption
			for _, o := range opts {
				copts = append(copts, o)
			}
			cl = connect.NewClient[emptypb.Empty, emptypb.Empty](&inprocClient{h: mk()}, "http://h/s/m", copts...)
		} else {
			var hopts []connect.HandlerOption
			for _, o := range opts {
				hopts = append(hopts, o)
			}
			cl = connect.NewClient[emptypb.Empty, emptypb.Empty](&inprocClient{h: mk(hopts...)}, "http://h/s/m")
		}
		log.reset()
		var err error
		if kind == "unary" {
			_, err = cl.CallUnary(context.Background(), connect.NewRequest(&emptypb.Empty{}))
		} else {
			s := cl.CallClientStream(context.Background())
			_, err = s.CloseAndReceive()
		}
		if err != nil && !errors.Is(err, context.Canceled) {
			return "call-failed: " + err.Error()
		}
		return idsOf(log.events, "in")
	}
	for _, side := range []string{"client", "handler"} {
		for _, kind := range []string{"unary", "stream"} {
			// (a)
			log := &eventLog{}
			backing := make([]connect.Option, 1, 4)
			backing[0] = connect.WithInterceptors(&logIcpt{id: 1, log: log})
			base := connect.WithOptions(backing...)
			first := connect.WithOptions(base, connect.WithInterceptors(&logIcpt{id: 2, log: log}))
			second := connect.WithOptions(base, connect.WithInterceptors(&logIcpt{id: 3, log: log}))
			for i, tc := range []struct {
				opt  connect.Option
				want string
			}{{first, "1,2"}, {second, "1,3"}, {first, "1,2"}} {
				got := run(side, kind, []connect.Option{tc.opt}, log)
				c.Count("group-shape-probe")
				if got != tc.want {
					c.Fail("icpt-alias", fmt.Sprintf("one base option group extended twice with WithOptions(base, X): extension #%d used on a %s, %s call", i+1, side, kind), got, "each extension is the base followed by its own tail: want "+tc.want)
				}
			}
			// (b)
			for n := 1; n <= 10; n++ {
				for _, position := range []string{"first", "later"} {
					log := &eventLog{}
					var group []connect.Interceptor
					want := ""
					next := 1
					var opts []connect.Option
					if position == "later" {
						opts = append(opts, connect.WithInterceptors(&logIcpt{id: next, log: log}))
						want = "1,"
						next++
					}
					for i := 0; i < n; i++ {
						group = append(group, &logIcpt{id: next, log: log})
						want += strconv.Itoa(next) + ","
						next++
					}
					opts = append(opts, connect.WithInterceptors(group...), connect.WithInterceptors(&logIcpt{id: next, log: log}))
					want += strconv.Itoa(next)
					got := run(side, kind, opts, log)
					c.Count("group-size-probe")
					if got != want {
						c.Fail("icpt-order", fmt.Sprintf("a WithInterceptors group of %d as the %s group, %s, %s call", n, position, side, kind), got, "every declared interceptor wraps the call, in declaration order: want "+want)
					}
				}
			}
		}
	}
}

// stampIcptValue is an interceptor of a plain value type without state (a zero value that is
// not nil): it marks the calls it wraps through a package-level log.
type stampIcptValue struct{}

var stampLog = &eventLog{}

func (stampIcptValue) WrapUnary(next connect.UnaryFunc) connect.UnaryFunc {
	return func(ctx context.Context, req connect.AnyRequest) (connect.AnyResponse, error) {
		stampLog.add("in", 99)
		return next(ctx, req)
	}
}
func (stampIcptValue) WrapStreamingClient(next connect.StreamingClientFunc) connect.StreamingClientFunc {
	return func(ctx context.Context, spec connect.Spec) connect.StreamingClientConn {
		stampLog.add("in", 99)
		return next(ctx, spec)
	}
}
func (stampIcptValue) WrapStreamingHandler(next connect.StreamingHandlerFunc) connect.StreamingHandlerFunc {
	return func(ctx context.Context, conn connect.StreamingHandlerConn) error {
		stampLog.add("in", 99)
		return next(ctx, conn)
	}
}

// doneContextChainProbe: every interceptor wraps each call exactly once - also a call that is
// doomed on arrival (a zero timeout, a request context that is already cancelled): the chain
// runs once, in order, and sees the failure; user code does not run. The key is the caller's
// (interceptor order for C16, dispatch for C12).
func doneContextChainProbe(c *Ctx, key string) {
	for _, proto := range []string{"connect", "grpc", "grpcweb"} {
		for _, how := range []string{"zero-timeout", "cancelled-context", "live"} {
			log := &eventLog{}
			user := 0
			h := connect.NewUnaryHandler("/s/m", func(ctx context.Context, r *connect.Request[emptypb.Empty]) (*connect.Response[emptypb.Empty], error) {
				user++
				return connect.NewResponse(&emptypb.Empty{}), nil
			}, connect.WithInterceptors(&logIcpt{id: 1, log: log}), connect.WithInterceptors(&logIcpt{id: 2, log: log}))
			ct := map[string]string{"connect": "application/proto", "grpc": "application/grpc", "grpcweb": "application/grpc-web"}[proto]
			body := ""
			if proto != "connect" {
				body = "\x00\x00\x00\x00\x00"
			}
			req := httptest.NewRequest(http.MethodPost, "/s/m", strings.NewReader(body))
			req.ProtoMajor, req.ProtoMinor, req.Proto = 2, 0, "HTTP/2.0"
			req.Header.Set("Content-Type", ct)
			switch how {
			case "zero-timeout":
				if proto == "connect" {
					req.Header.Set("Connect-Timeout-Ms", "0")
				} else {
					req.Header.Set("Grpc-Timeout", "0n")
				}
			case "cancelled-context":
				ctx, cancel := context.WithCancel(req.Context())
				cancel()
				req = req.WithContext(ctx)
			}
			h.ServeHTTP(httptest.NewRecorder(), req)
			got := fmt.Sprintf("interceptors in=%s user=%d", idsOf(log.events, "in"), user)
			want := "interceptors in=1,2 user=0"
			if how == "live" {
				want = "interceptors in=1,2 user=1"
			}
			c.Count("done-context-chain")
			if got != want {
				c.Fail(key, fmt.Sprintf("%s unary request, %s, handler with two interceptors", proto, how), got, "every interceptor wraps each dispatched call exactly once, also a call whose context is already over: want "+want)
			}
		}
	}
}

// doneContextClientProbe: the same on the client - a call of any kind made with a context that
// is already over still goes through every interceptor, in order, exactly once (round 9, C16-ml).
func doneContextClientProbe(c *Ctx) {
	h := connect.NewUnaryHandler("/s/m", func(ctx context.Context, r *connect.Request[emptypb.Empty]) (*connect.Response[emptypb.Empty], error) {
		return connect.NewResponse(&emptypb.Empty{}), nil
	})
	for _, proto := range []string{"connect", "grpc", "grpcweb"} {
		for _, kind := range []string{"unary", "client", "server", "bidi"} {
			for _, how := range []string{"cancelled", "expired"} {
				log := &eventLog{}
				cl := connect.NewClient[emptypb.Empty, emptypb.Empty](&inprocClient{h: h}, "http://h/s/m",
					append(protoOptsPB(proto), connect.WithInterceptors(&logIcpt{id: 1, log: log}), connect.WithInterceptors(&logIcpt{id: 2, log: log}, &logIcpt{id: 3, log: log}))...)
				ctx, cancel := context.WithCancel(context.Background())
				if how == "expired" {
					ctx, cancel = context.WithDeadline(context.Background(), time.Now().Add(-time.Second))
				}
				cancel()
				switch kind {
				case "unary":
					_, _ = cl.CallUnary(ctx, connect.NewRequest(&emptypb.Empty{}))
				case "client":
					st := cl.CallClientStream(ctx)
					_ = st.Send(&emptypb.Empty{})
					_, _ = st.CloseAndReceive()
				case "server":
					st, err := cl.CallServerStream(ctx, connect.NewRequest(&emptypb.Empty{}))
					if err == nil {
						for st.Receive() {
						}
						_ = st.Close()
					}
				default:
					st := cl.CallBidiStream(ctx)
					_ = st.Send(&emptypb.Empty{})
					_ = st.CloseRequest()
					_, _ = st.Receive()
					_ = st.CloseResponse()
				}
				got := "interceptors in=" + idsOf(log.events, "in")
				c.Count("done-context-client")
				if got != "interceptors in=1,2,3" {
					c.Fail("icpt-order", fmt.Sprintf("%s %s client call with a context that is already over (%s), three interceptors in two groups", proto, kind, how), got, "every interceptor wraps each call exactly once, first declared outermost, also a call whose context is already over: want interceptors in=1,2,3")
				}
			}
		}
	}
}

// repeatedInterceptorProbe: the chain is the flat concatenation of what was declared: an
// interceptor value declared at two positions wraps the call at both (round 10, C16-mm).
func repeatedInterceptorProbe(c *Ctx) {
	h := connect.NewUnaryHandler("/s/m", func(ctx context.Context, r *connect.Request[emptypb.Empty]) (*connect.Response[emptypb.Empty], error) {
		return connect.NewResponse(&emptypb.Empty{}), nil
	})
	for _, shape := range []string{"one-group", "two-groups", "shared-option", "nested"} {
		for _, side := range []string{"client", "handler"} {
			for _, kind := range []string{"unary", "stream"} {
				log := &eventLog{}
				a, b := &logIcpt{id: 1, log: log}, &logIcpt{id: 2, log: log}
				var opts []connect.Option
				switch shape {
				case "one-group":
					opts = []connect.Option{connect.WithInterceptors(a, b, a)}
				case "two-groups":
					opts = []connect.Option{connect.WithInterceptors(a, b), connect.WithInterceptors(a)}
				case "shared-option":
					shared := connect.WithInterceptors(a)
					opts = []connect.Option{shared, connect.WithInterceptors(b), shared}
				default:
					opts = []connect.Option{connect.WithOptions(connect.WithInterceptors(a), connect.WithOptions(connect.WithInterceptors(b, a)))}
				}
				if side == "client" {
					var copts []connect.ClientOption
					for _, o := range opts {
						copts = append(copts, o)
					}
					var hh http.Handler = h
					if kind == "stream" {
						hh = connect.NewClientStreamHandler("/s/m", func(ctx context.Context, s *connect.ClientStream[emptypb.Empty]) (*connect.Response[emptypb.Empty], error) {
							for s.Receive() {
							}
							return connect.NewResponse(&emptypb.Empty{}), nil
						})
					}
					cl := connect.NewClient[emptypb.Empty, emptypb.Empty](&inprocClient{h: hh}, "http://h/s/m", copts...)
					if kind == "unary" {
						_, _ = cl.CallUnary(context.Background(), connect.NewRequest(&emptypb.Empty{}))
					} else {
						st := cl.CallClientStream(context.Background())
						_ = st.Send(&emptypb.Empty{})
						_, _ = st.CloseAndReceive()
					}
				} else {
					var hopts []connect.HandlerOption
					for _, o := range opts {
						hopts = append(hopts, o)
					}
					var hh http.Handler
					if kind == "unary" {
						hh = connect.NewUnaryHandler("/s/m", func(ctx context.Context, r *connect.Request[emptypb.Empty]) (*connect.Response[emptypb.Empty], error) {
							return connect.NewResponse(&emptypb.Empty{}), nil
						}, hopts...)
					} else {
						hh = connect.NewClientStreamHandler("/s/m", func(ctx context.Context, s *connect.ClientStream[emptypb.Empty]) (*connect.Response[emptypb.Empty], error) {
							for s.Receive() {
							}
							return connect.NewResponse(&emptypb.Empty{}), nil
						}, hopts...)
					}
					cl := connect.NewClient[emptypb.Empty, emptypb.Empty](&inprocClient{h: hh}, "http://h/s/m")
					if kind == "unary" {
						_, _ = cl.CallUnary(context.Background(), connect.NewRequest(&emptypb.Empty{}))
					} else {
						st := cl.CallClientStream(context.Background())
						_ = st.Send(&emptypb.Empty{})
						_, _ = st.CloseAndReceive()
					}
				}
				got := "in=" + idsOf(log.events, "in")
				c.Count("repeated-interceptor")
				if got != "in=1,2,1" {
					c.Fail("icpt-order", fmt.Sprintf("interceptors a, b, a declared as %s on the %s, %s call", shape, side, kind), got, "the effective chain is the flat concatenation in declaration order: in=1,2,1")
				}
			}
		}
	}
}

// oneClientAllKindsProbe: one Client value may be used for every kind of call, in any order and
// repeatedly: every call passes through the chain (round 11, C16-mo: a chain built on the first
// streaming call and kept for that stream type only).
func oneClientAllKindsProbe(c *Ctx) {
	h := connect.NewBidiStreamHandler("/s/m", func(ctx context.Context, s *connect.BidiStream[emptypb.Empty, emptypb.Empty]) error {
		for {
			if _, err := s.Receive(); err != nil {
				break
			}
		}
		return s.Send(&emptypb.Empty{})
	})
	for _, order := range [][]string{{"server", "client", "bidi", "unary", "server", "client", "bidi"}, {"bidi", "server", "client"}, {"client", "unary", "bidi", "server"}} {
		log := &eventLog{}
		a, b := &logIcpt{id: 1, log: log}, &logIcpt{id: 2, log: log}
		cl := connect.NewClient[emptypb.Empty, emptypb.Empty](&inprocClient{h: h}, "http://h/s/m", connect.WithInterceptors(a), connect.WithInterceptors(b))
		var got []string
		for _, kind := range order {
			log.reset()
			switch kind {
			case "unary":
				_, _ = cl.CallUnary(context.Background(), connect.NewRequest(&emptypb.Empty{}))
			case "server":
				st, err := cl.CallServerStream(context.Background(), connect.NewRequest(&emptypb.Empty{}))
				if err == nil {
					for st.Receive() {
					}
					_ = st.Close()
				}
			case "client":
				st := cl.CallClientStream(context.Background())
				_ = st.Send(&emptypb.Empty{})
				_, _ = st.CloseAndReceive()
			default:
				st := cl.CallBidiStream(context.Background())
				_ = st.Send(&emptypb.Empty{})
				_ = st.CloseRequest()
				for {
					if _, err := st.Receive(); err != nil {
						break
					}
				}
				_ = st.CloseResponse()
			}
			got = append(got, kind+":in="+idsOf(log.events, "in"))
		}
		var want []string
		for _, kind := range order {
			want = append(want, kind+":in=1,2")
		}
		c.Count("one-client-all-kinds")
		if strings.Join(got, " ") != strings.Join(want, " ") {
			c.Fail("icpt-order", fmt.Sprintf("one client with interceptors a, b used for calls %v", order), strings.Join(got, " "), "every call passes through the chain: "+strings.Join(want, " "))
		}
	}
}

// twoRecoversProbe: two WithRecover options with an interceptor between them keep their places:
// a panic in the handler is trapped by the inner recovery function and reaches the interceptor as
// an ordinary error; a panic in the interceptor is trapped by the outer one (round 10, C16-mn).
func twoRecoversProbe(c *Ctx) {
	for _, kind := range []string{"unary", "server"} {
		for _, where := range []string{"handler", "interceptor"} {
			var calls []string
			outer := connect.WithRecover(func(context.Context, connect.Spec, http.Header, any) error {
				calls = append(calls, "outer")
				return connect.NewError(connect.CodeAborted, errors.New("outer recovered"))
			})
			inner := connect.WithRecover(func(context.Context, connect.Spec, http.Header, any) error {
				calls = append(calls, "inner")
				return connect.NewError(connect.CodeDataLoss, errors.New("inner recovered"))
			})
			mid := &panicOrSeeIcpt{panicHere: where == "interceptor", note: func(s string) { calls = append(calls, s) }}
			opts := []connect.HandlerOption{outer, connect.WithInterceptors(mid), inner}
			var h http.Handler
			if kind == "unary" {
				h = connect.NewUnaryHandler("/s/m", func(ctx context.Context, r *connect.Request[emptypb.Empty]) (*connect.Response[emptypb.Empty], error) {
					if where == "handler" {
						panic("boom")
					}
					return connect.NewResponse(&emptypb.Empty{}), nil
				}, opts...)
			} else {
				h = connect.NewServerStreamHandler("/s/m", func(ctx context.Context, r *connect.Request[emptypb.Empty], s *connect.ServerStream[emptypb.Empty]) error {
					if where == "handler" {
						panic("boom")
					}
					return nil
				}, opts...)
			}
			ic := &inprocClient{h: h}
			cl := connect.NewClient[emptypb.Empty, emptypb.Empty](ic, "http://h/s/m")
			var err error
			got := safely(func() string {
				if kind == "unary" {
					_, err = cl.CallUnary(context.Background(), connect.NewRequest(&emptypb.Empty{}))
				} else {
					st, cerr := cl.CallServerStream(context.Background(), connect.NewRequest(&emptypb.Empty{}))
					err = cerr
					if cerr == nil {
						for st.Receive() {
						}
						err = st.Err()
						_ = st.Close()
					}
				}
				return fmt.Sprintf("%s code=%s escaped=%v", strings.Join(calls, ","), connect.CodeOf(err), ic.panicked)
			})
			want := "inner,mid-saw-error code=data_loss escaped=false"
			if where == "interceptor" {
				want = "outer code=aborted escaped=false"
			}
			c.Count("two-recovers")
			if got != want {
				c.Fail("icpt-recover-position", fmt.Sprintf("%s handler with WithRecover(outer), an interceptor, WithRecover(inner); panic in the %s", kind, where), got, "each recovery interceptor sits where it was declared: "+want)
			}
		}
	}
}

// panicOrSeeIcpt panics before calling on, or notes the error it sees coming back.
type panicOrSeeIcpt struct {
	panicHere bool
	note      func(string)
}

func (p *panicOrSeeIcpt) WrapUnary(next connect.UnaryFunc) connect.UnaryFunc {
	return func(ctx context.Context, req connect.AnyRequest) (connect.AnyResponse, error) {
		if p.panicHere {
			panic("interceptor boom")
		}
		res, err := next(ctx, req)
		if err != nil {
			p.note("mid-saw-error")
		}
		return res, err
	}
}
func (p *panicOrSeeIcpt) WrapStreamingClient(next connect.StreamingClientFunc) connect.StreamingClientFunc {
	return next
}
func (p *panicOrSeeIcpt) WrapStreamingHandler(next connect.StreamingHandlerFunc) connect.StreamingHandlerFunc {
	return func(ctx context.Context, conn connect.StreamingHandlerConn) error {
		if p.panicHere {
			panic("interceptor boom")
		}
		err := next(ctx, conn)
		if err != nil {
			p.note("mid-saw-error")
		}
		return err
	}
}

func max0(x int) int {
	if x < 0 {
		return 0
	}
	return x
}

// icptAliasProbe: groups built by sub-slicing one backing array, and an option value reused
// for two constructions, must still give the declaration order.
func icptAliasProbe(c *Ctx, side, kind string) {
	log := &eventLog{}
	backing := make([]connect.Interceptor, 0, 8)
	for id := 1; id <= 4; id++ {
		backing = append(backing, &logIcpt{id: id, log: log})
	}
	opts := []connect.Option{
		connect.WithInterceptors(backing[:1]...),
		connect.WithInterceptors(backing[1:3]...),
		connect.WithInterceptors(backing[3:]...),
	}
	for round := 0; round < 2; round++ { // the same option values used twice
		log.events = nil
		var err error
		if side == "client" {
			var copts []connect.ClientOption
			for _, o := range opts {
				copts = append(copts, o)
			}
			var h http.Handler = connect.NewUnaryHandler("/s/m", func(context.Context, *connect.Request[emptypb.Empty]) (*connect.Response[emptypb.Empty], error) {
				return connect.NewResponse(&emptypb.Empty{}), nil
			})
			if kind != "unary" {
				h = connect.NewClientStreamHandler("/s/m", func(ctx context.Context, s *connect.ClientStream[emptypb.Empty]) (*connect.Response[emptypb.Empty], error) {
					return connect.NewResponse(&emptypb.Empty{}), nil
				})
			}
			cl := connect.NewClient[emptypb.Empty, emptypb.Empty](&inprocClient{h: h}, "http://h/s/m", copts...)
			if kind == "unary" {
				_, err = cl.CallUnary(context.Background(), connect.NewRequest(&emptypb.Empty{}))
			} else {
				s := cl.CallClientStream(context.Background())
				_, err = s.CloseAndReceive()
			}
		} else {
			var hopts []connect.HandlerOption
			for _, o := range opts {
				hopts = append(hopts, o)
			}
			var h http.Handler
			if kind == "unary" {
				h = connect.NewUnaryHandler("/s/m", func(context.Context, *connect.Request[emptypb.Empty]) (*connect.Response[emptypb.Empty], error) {
					return connect.NewResponse(&emptypb.Empty{}), nil
				}, hopts...)
			} else {
				h = connect.NewClientStreamHandler("/s/m", func(ctx context.Context, s *connect.ClientStream[emptypb.Empty]) (*connect.Response[emptypb.Empty], error) {
					return connect.NewResponse(&emptypb.Empty{}), nil
				}, hopts...)
			}
			cl := connect.NewClient[emptypb.Empty, emptypb.Empty](&inprocClient{h: h}, "http://h/s/m")
			if kind == "unary" {
				_, err = cl.CallUnary(context.Background(), connect.NewRequest(&emptypb.Empty{}))
			} else {
				s := cl.CallClientStream(context.Background())
				_, err = s.CloseAndReceive()
			}
		}
		got := idsOf(log.events, "in")
		c.Count("alias-probe")
		if err != nil && !errors.Is(err, context.Canceled) {
			got = "call-failed: " + err.Error()
		}
		if got != "1,2,3,4" {
			c.Fail("icpt-alias", fmt.Sprintf("sub-sliced groups %s %s round %d", side, kind, round), got, "interceptor groups built from sub-slices of one array (or reused option values) must nest in declaration order 1,2,3,4")
		}
	}
}
