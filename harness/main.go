// Command harness drives the real connect-go implementation (built from /repo's working
// tree with -tags verif) and writes, per stream, the operation lines for the Lean model
// driver, the implementation's canonical answers and the verdicts of the property oracle.
package main

import (
	"flag"
	"fmt"
	"os"
	"sort"
	"strconv"
	"strings"
	"time"
)

type streamFn func(c *Ctx)

type streamDef struct {
	property string
	fn       streamFn
}

var streams = map[string]streamDef{}

func register(name, property string, fn streamFn) { streams[name] = streamDef{property, fn} }

func main() {
	if len(os.Args) < 2 {
		usage()
	}
	switch os.Args[1] {
	case "list":
		names := make([]string, 0, len(streams))
		for n := range streams {
			names = append(names, n)
		}
		sort.Strings(names)
		for _, n := range names {
			fmt.Println(n, streams[n].property)
		}
	case "run":
		fs := flag.NewFlagSet("run", flag.ExitOnError)
		stream := fs.String("stream", "", "stream name")
		seed := fs.Uint64("seed", 1, "seed")
		tier := fs.String("tier", "quick", "quick|thorough")
		out := fs.String("out", "", "output directory")
		corpus := fs.String("corpus", "", "file of op lines that failed in the past (under seeded changes): run first")
		fs.Parse(os.Args[2:])
		def, ok := streams[*stream]
		if !ok || *out == "" {
			usage()
		}
		c := NewCtx(*stream, def.property, *tier, *seed, *out)
		activeCtx = c
		guardOps = *stream != "codec" && *stream != "timeout" // pure functions, millions of ops
		// a broken implementation can make every operation very slow (giant allocations after a
		// desynchronised stream): once the oracle has failing inputs there is nothing to wait for
		go func() {
			soft := 40 * time.Second
			if *tier == "thorough" {
				soft = 10 * time.Minute
			}
			start := time.Now()
			for {
				time.Sleep(time.Second)
				c.mu.Lock()
				nf := len(c.fails)
				c.mu.Unlock()
				if nf > 0 && time.Since(start) > soft {
					c.Note("stream stopped early: %d oracle failures after %v", nf, time.Since(start).Round(time.Second))
					c.Close()
					fmt.Printf("stream=%s stopped early (slow, %d oracle failures)\n", c.Stream, nf)
					os.Exit(0)
				}
			}
		}()
		// the corpus first: operations on which some earlier (seeded or real) defect showed
		if *corpus != "" {
			if data, err := os.ReadFile(*corpus); err == nil {
				n := 0
				for _, line := range strings.Split(string(data), "\n") {
					line = strings.TrimSpace(line)
					if line == "" || strings.HasPrefix(line, "#") || !corpusOp(*stream, line) {
						continue
					}
					replayOp = line
					def.fn(c)
					n++
				}
				replayOp = ""
				c.Note("corpus: %d operations that exposed earlier defects were run first", n)
				c.CountN("corpus-ops", n)
			}
		}
		def.fn(c)
		c.Close()
		fmt.Printf("stream=%s ops=%d nontrivial=%d oracle_failures=%d\n", *stream, c.n, c.nontriv, len(c.fails))
	case "replay":
		// harness replay <stream> <op line>: re-run one op on the implementation
		if len(os.Args) < 4 {
			usage()
		}
		def, ok := streams[os.Args[2]]
		if !ok {
			usage()
		}
		dir, _ := os.MkdirTemp("", "replay")
		defer os.RemoveAll(dir)
		c := NewCtx(os.Args[2], def.property, "replay", 0, dir)
		replayOp = os.Args[3]
		def.fn(c)
		c.Close()
		for _, f := range c.fails {
			fmt.Printf("ORACLE-FAIL key=%s what=%s impl=%s\n", f.Key, strconv.Quote(f.What), f.Impl)
		}
		fmt.Printf("replayed ops=%d oracle_failures=%d\n", c.n, len(c.fails))
		if len(c.fails) > 0 {
			os.Exit(1)
		}
	default:
		usage()
	}
}

// corpusOp: only ops the stream can replay on their own go into a corpus run.
var replayable = map[string][]string{
	"proto": {"serve ", "cdec "}, "req": {"hreq "}, "seg": {"env."}, "cut": {"env."}, "limit": {"env."}, "roundtrip": {"env."},
	"cancel": {"cflow ", "cwatch ", "cwrite "}, "timeout": {"gtmo.", "ctmo.serve "}, "life": {"rseq ", "sseq "},
	"codec": {"code.", "pct.", "b64.", "http."}, "disp": {"disp ", "path ", "cpath "}, "neg": {"neg ", "cmin ", "env.recv "},
	"icpt": {"icpt "}, "panic": {"recover ", "rchain "},
}

func corpusOp(stream, line string) bool {
	for _, p := range replayable[stream] {
		if strings.HasPrefix(line, p) {
			return true
		}
	}
	return false
}

// replayOp, when non-empty, makes a stream run exactly this op instead of generating.
var replayOp string

func usage() {
	fmt.Fprintln(os.Stderr, "usage: harness list | run -stream S -seed N -tier T -out DIR | replay S OP")
	os.Exit(2)
}
